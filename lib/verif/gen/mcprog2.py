"""Program generator of the reduction checks (C38, C40): two populations in the spec language of harness/mc_vm2.cpp.

  core   the programs of gen/mcprog.py (mutex, semaphore, condvar, barrier, blocking mailbox put/get, actor
         create/join, MC_random, assertions), sized *exactly* with the state-based reference interpreter
         (oracles/sync_sem.py): number of maximal interleavings <= max_paths, so that reduction:none finishes;
  comm   asynchronous communications: put_async / get_async in per-actor slots, completed by exactly ONE of the
         families  wait | test | waitany | testany | iprobe  (so that a violation is attributed to one family),
         sized by a static upper bound of the number of interleavings (multinomial of the per-actor transition
         counts times the choice factors of wait_any / test_any / MC_random).

Programs respect the API contract by construction and by the VM's guards: a slot is completed once, an actor waits
for its pending communications before it ends, payloads are freed by the receiver.  Unmatched communications
(deadlock in the final wait), lock-order inversions and MC_assert failures are legitimate and wanted behaviours.
"""
from math import factorial

from verif.gen import mcprog
from verif.oracles.sync_sem import Program, op_text

COMM_EXT = ("wait", "test", "waitany", "testany", "iprobe")
TWO_ARG2 = set("sp")
UDPOR_OPS = set("LUOPVoSGsrctJKYXIE")      # what UdporChecker has extension-set handlers for (no try_lock, any, iprobe, random)


def op_text2(o):
    k, a, b = o
    if k in "ay":
        return k
    if k in TWO_ARG2:
        return "%s%d.%d" % (k, a, b)
    return op_text(o)


def text(p):
    """Spec text of a program that may contain the asynchronous ops."""
    out = []
    if p.nmutex:
        out.append("mutex %d" % p.nmutex)
    if p.sems:
        out.append("sem " + " ".join("%d%s" % (i, "b" if b else "") for i, b in p.sems))
    if p.ncond:
        out.append("cond %d" % p.ncond)
    if p.barriers:
        out.append("barrier " + " ".join(map(str, p.barriers)))
    if p.nmbox:
        out.append("mbox %d" % p.nmbox)
    for dyn, ops in p.actors:
        out.append(("dyn " if dyn else "actor ") + " ".join(op_text2(o) for o in ops))
    return "\n".join(out) + "\n"


def parse(txt):
    p = Program()
    for line in txt.splitlines():
        t = line.split()
        if not t or t[0].startswith("#"):
            continue
        if t[0] == "mutex":
            p.nmutex = int(t[1])
        elif t[0] == "sem":
            for x in t[1:]:
                b = x.endswith("b")
                p.sems.append((int(x[:-1] if b else x), b))
        elif t[0] == "cond":
            p.ncond = int(t[1])
        elif t[0] == "barrier":
            p.barriers = [int(x) for x in t[1:]]
        elif t[0] == "mbox":
            p.nmbox = int(t[1])
        elif t[0] in ("actor", "dyn"):
            ops = []
            for x in t[1:]:
                k, a, b = x[0], 0, 0
                if len(x) > 1:
                    if "." in x:
                        a, b = (int(v) for v in x[1:].split("."))
                    else:
                        a = int(x[1:])
                ops.append((k, a, b))
            p.actors.append((t[0] == "dyn", ops))
        else:
            raise ValueError("bad spec line: " + line)
    return p


def ops_used(p):
    return set(k for _, ops in p.actors for k, _, _ in ops)


def udpor_ok(p):
    return ops_used(p) <= UDPOR_OPS


def has_assert(p):
    return "E" in ops_used(p)


_FAM = (("LUTO", "mutex"), ("PVo", "sem"), ("WwNA", "cond"), ("R", "barrier"), ("SG", "mbox"), ("J", "join"),
        ("K", "create"), ("Q", "random"), ("sr", "async"), ("c", "wait"), ("t", "test"), ("a", "waitany"),
        ("y", "testany"), ("p", "iprobe"))


def feature(p):
    """Object/operation families used by a program: the discriminating part of a violation key.
    (assertions, exits and sleeps are not part of it; 'async' and 'wait' are implied by the other comm families)"""
    used = ops_used(p)
    f = set(name for ks, name in _FAM if used & set(ks))
    if f & {"test", "waitany", "testany", "iprobe"}:
        f -= {"async", "wait"}
    elif "async" in f:
        f -= {"wait"}
    return "+".join(sorted(f)) or "none"


# --------------------------------------------------------------------------------------------------------------------
def core(rng, max_paths, max_states=4000, want_failure=None, clean=False, **kw):
    """(Program, reference-result) from gen/mcprog.py, with at most max_paths maximal interleavings.
    clean: demand a program without reachable deadlock or assertion failure and with >= 2 terminal outcomes."""
    for _ in range(400):
        p, _, ref = mcprog.sized(rng, max_states=max_states, max_paths=max_paths, want_failure=False if clean else want_failure, **kw)
        if not clean or (not ref["deadlock"] and not ref["assert"] and len(ref["end"]) >= 2):
            return p, ref
    raise RuntimeError("core generator could not produce a failure-free program")


def static_bound(p):
    """Upper bound of the number of maximal interleavings of a comm program."""
    counts = []
    factor = 1
    for _, ops in p.actors:
        n = 0
        slots = 0
        waited = set()
        for k, a, b in ops:
            if k in "sr":
                slots += 1
                n += 1
            elif k == "c":
                n += 1
                waited.add(a)
            elif k in "tpYLUTPVSGJKRNA":
                n += 1 if k not in "SG" else 2
            elif k == "a":
                n += 1
                factor *= max(1, slots)
            elif k == "y":
                n += 1
                factor *= slots + 1
            elif k == "Q":
                n += 1
                factor *= b - a + 1
        n += max(0, slots - len(waited))          # final waits of the epilogue (upper bound)
        counts.append(n)
    tot = factorial(sum(counts))
    for c in counts:
        tot //= factorial(c)
    return tot * factor


def _comm_actor(rng, ext, me, nmbox, budget, role, with_assert):
    """One actor: creations of communications interleaved with completions of the family `ext`."""
    ops = []
    slots = []            # mailbox and direction of each slot
    done = set()
    obs_pos = []
    ncreate = rng.choice([1, 2, 2, 3]) if ext in ("waitany", "testany") else rng.choice([1, 1, 2, 2, 3])
    created = 0
    guard = 0
    while len(ops) < budget and guard < 40:
        guard += 1
        pend = [i for i in range(len(slots)) if i not in done]
        want_create = created < ncreate and (not pend or rng.random() < 0.55)
        if want_create:
            x = rng.randrange(nmbox)
            send = role == "s" or (role == "m" and rng.random() < 0.5)
            if send:
                ops.append(("s", x, 10 * me + created + 1))
            else:
                ops.append(("r", x, 0))
            slots.append((x, send))
            created += 1
            continue
        if ext == "iprobe" and rng.random() < 0.5:
            ops.append(("p", rng.randrange(nmbox), rng.randrange(2)))
            obs_pos.append(len(ops) - 1)
            continue
        if not pend:
            if created >= ncreate:
                break
            continue
        r = rng.random()
        if ext == "wait" or ext == "iprobe":
            i = rng.choice(pend)
            ops.append(("c", i, 0))
            done.add(i)
            if not slots[i][1]:
                obs_pos.append(len(ops) - 1)
        elif ext == "test":
            i = rng.choice(pend)
            if r < 0.7:
                ops.append(("t", i, 0))
                obs_pos.append(len(ops) - 1)
                if rng.random() < 0.4 and len(ops) < budget:     # the classical "test, then wait" pattern
                    ops.append(("c", i, 0))
                    done.add(i)
            else:
                ops.append(("c", i, 0))
                done.add(i)
        elif ext == "waitany":
            if r < 0.8:
                ops.append(("a", 0, 0))
                obs_pos.append(len(ops) - 1)
                if len(pend) == 1:
                    done.add(pend[0])
            else:
                i = rng.choice(pend)
                ops.append(("c", i, 0))
                done.add(i)
        elif ext == "testany":
            if r < 0.8:
                ops.append(("y", 0, 0))
                obs_pos.append(len(ops) - 1)
            else:
                i = rng.choice(pend)
                ops.append(("c", i, 0))
                done.add(i)
    if with_assert and obs_pos and rng.random() < 0.5:
        i = rng.choice(obs_pos)
        k = ops[i][0]
        if k == "t" or k == "p":
            v = rng.choice([0, 1])
        elif k == "a":
            v = rng.choice([0, 1])
        elif k == "y":
            v = rng.choice([-1, 0, 1])
        else:
            v = rng.choice([11, 12, 21, 22])
        ops.insert(i + 1, ("E", v, 0))
    return ops


def _balanced(p):
    """Every mailbox gets as many sends as receives (necessary for a run without a communication left pending)."""
    cnt = {}
    for _, ops in p.actors:
        for k, a, _ in ops:
            if k == "s":
                cnt[a] = cnt.get(a, 0) + 1
            elif k == "r":
                cnt[a] = cnt.get(a, 0) - 1
    return all(v == 0 for v in cnt.values())


def _any_over_two(p, op):
    """Some wait_any / test_any is issued by an actor that created at least two communications before it."""
    for _, ops in p.actors:
        n = 0
        for k, _, _ in ops:
            if k in "sr":
                n += 1
            elif k == op and n >= 2:
                return True
    return False


def comm(rng, ext, bound, tries=5000, with_assert=None, min_bound=20, balanced=None):
    """Program of the asynchronous-communication population whose static bound is within [min_bound, bound].
    balanced: demand as many sends as receives per mailbox (default: two programs out of three)."""
    assert ext in COMM_EXT
    want_balanced = (rng.random() < 0.67) if balanced is None else balanced
    for attempt in range(tries):
        if attempt == tries // 2:
            want_balanced = False                 # progressive relaxation: never fail for want of a pretty program
        p = Program()
        nact = rng.choice([2, 2, 2, 3])
        p.nmbox = rng.choice([1, 1, 2])
        budget = rng.choice([3, 4, 4, 5]) if nact == 2 else rng.choice([2, 3, 3])
        wa = (rng.random() < 0.3) if with_assert is None else with_assert
        # roles: one sender, one receiver at least; the third actor does both
        roles = ["s", "r"] + ["m"] * (nact - 2)
        if rng.random() < 0.25:
            roles = ["m"] * nact
        rng.shuffle(roles)
        actors = []
        for a in range(nact):
            actors.append((False, _comm_actor(rng, ext, a, p.nmbox, budget, roles[a], wa)))
        if any(not ops for _, ops in actors):
            continue
        p.actors = actors
        used = ops_used(p)
        need = {"wait": "c", "test": "t", "waitany": "a", "testany": "y", "iprobe": "p"}[ext]
        if need not in used or not (used & set("s")) or not (used & set("r")):
            continue
        if want_balanced and not _balanced(p):
            continue
        if ext in ("waitany", "testany") and attempt < 3 * tries // 4 and not _any_over_two(p, need):
            continue
        b = static_bound(p)
        if (min_bound if attempt < 3 * tries // 4 else 3) <= b <= bound:
            return p, b
    raise RuntimeError("comm generator could not produce a program within the size bounds (%s, %d)" % (ext, bound))
