"""Generator for C35: partially shared buffer layouts and messages between them (scenario files for harness/mpi/pshared.c)."""

PAGE = 4096
SMODES = ["send", "isend", "ssend", "issend", "send_init", "sendrecv", "bsend", "isend_test"]
RMODES = ["recv", "irecv", "recv_init", "irecv_test", "sendrecv", "probe_recv"]
# (send-is-detached-thresh, async-small-thresh); the first is SMPI's default
THRESHOLDS = [(65536, 0), (3000, 0), (3000, 1000), (65536, 5000), (0, 0), (1 << 30, 0), (1 << 30, 20000)]
BLOCKSIZES = [4096, 8192, 65536, 1 << 20]


def _points(rng, size, B):
    """Candidate offsets in [0,size]: page and block boundaries +-1, ends, a few random ones."""
    pts = {0, size}
    for unit in (PAGE, B):
        k = 1
        while k * unit <= size + 1 and k <= 64:
            for d in (-1, 0, 1):
                pts.add(k * unit + d)
            k += 1
    for _ in range(6):
        pts.add(rng.randint(0, size))
    return sorted(p for p in pts if 0 <= p <= size)


def gen_size(rng, B, allow_big):
    kind = rng.random()
    if kind < 0.25:
        return rng.randint(2, 700)
    if kind < 0.6 or not allow_big:
        return max(2, rng.randint(1, 6) * PAGE + rng.choice([-1, 0, 0, 1, rng.randint(-300, 300)]))
    k = rng.randint(1, 3) if B >= (1 << 20) else rng.randint(1, 5)
    return max(2, k * B + rng.choice([-1, 0, 0, 1, rng.randint(-5000, 5000), rng.randint(0, B)]))


def gen_layout(rng, B, allow_big=True, may_malloc=True):
    """-> (size, shared) with shared = None (plain malloc) or a sorted list of [start, stop) with stop < next start."""
    size = gen_size(rng, B, allow_big)
    if may_malloc and rng.random() < 0.12:
        return size, None
    pts = _points(rng, size, B)
    nreg = rng.choice([1, 1, 2, 2, 3, 4, 6])
    chosen = set()
    tries = 0
    while len(chosen) < 2 * nreg and tries < 60:
        tries += 1
        p = rng.choice(pts) if rng.random() < 0.7 else rng.randint(0, size)
        chosen.add(p)
        r = rng.random()
        if r < 0.12 and p + 1 <= size:
            chosen.add(p + 1)          # one-byte region or one-byte gap
    c = sorted(chosen)
    if len(c) % 2:
        c = c[:-1] if rng.random() < 0.5 else c[1:]
    if len(c) < 2:
        c = [0, size]
    shared = [(c[i], c[i + 1]) for i in range(0, len(c), 2)]
    return size, shared


def _anchors(size, shared):
    """Interesting message start/end offsets of a buffer: boundaries of every region, +-1, middles."""
    pts = {0, size}
    bounds = [0, size]
    for a, b in (shared or []):
        bounds += [a, b]
    bounds = sorted(set(bounds))
    for x in bounds:
        for d in (-1, 0, 1):
            if 0 <= x + d <= size:
                pts.add(x + d)
    for a, b in zip(bounds, bounds[1:]):
        pts.add((a + b) // 2)
    return sorted(pts)


def gen_message(rng, ssize, sshared, rsize, rshared, thr):
    sa, ra = _anchors(ssize, sshared), _anchors(rsize, rshared)
    for _ in range(50):
        soff = rng.choice(sa) if rng.random() < 0.85 else rng.randint(0, ssize)
        roff = rng.choice(ra) if rng.random() < 0.85 else rng.randint(0, rsize)
        if rng.random() < 0.15:
            soff = 0
        if rng.random() < 0.15:
            roff = 0
        room = min(ssize - soff, rsize - roff)
        if room <= 0:
            continue
        r = rng.random()
        if r < 0.35:
            ends = [e - soff for e in sa if e > soff and e - soff <= room]
            ln = rng.choice(ends) if ends else room
        elif r < 0.6:
            ends = [e - roff for e in ra if e > roff and e - roff <= room]
            ln = rng.choice(ends) if ends else room
        elif r < 0.75:
            cands = [t + d for t in thr if t and t < (1 << 29) for d in (-1, 0, 1) if 0 < t + d <= room]
            ln = rng.choice(cands) if cands else room
        elif r < 0.85:
            ln = room
        elif r < 0.88:
            ln = rng.choice([0, 1])
        else:
            ln = rng.randint(1, room)
        rlen = ln
        if rng.random() < 0.15 and rsize - roff > ln:
            rlen = rng.randint(ln, rsize - roff)
        return soff, roff, ln, rlen
    return 0, 0, min(ssize, rsize), min(ssize, rsize)


def gen_case(rng, cid, np_, B, thr, allow_big=True):
    ssize, sshared = gen_layout(rng, B, allow_big)
    rsize, rshared = gen_layout(rng, B, allow_big, may_malloc=sshared is not None)
    if rng.random() < 0.1:          # same layout on both sides (the only thing the upstream test does), arbitrary offsets
        rsize, rshared = ssize, sshared
    soff, roff, slen, rlen = gen_message(rng, ssize, sshared, rsize, rshared, thr)
    src = rng.randrange(np_)
    dst = rng.choice([r for r in range(np_) if r != src])
    smode = rng.choice(SMODES)
    rmode = rng.choice(RMODES)
    if rng.random() < 0.06:
        dst = src
        rmode = rng.choice(["irecv", "irecv_test"])
        if smode == "sendrecv":
            smode = "send"
    if smode == "bsend" and slen > 60000:
        smode = "send"
    return {"id": cid, "src": src, "dst": dst, "ssize": ssize, "sshared": sshared, "rsize": rsize, "rshared": rshared,
            "soff": soff, "roff": roff, "slen": slen, "rlen": rlen, "smode": smode, "rmode": rmode, "order": rng.randrange(3)}


def scenario_text(cases):
    out = [str(len(cases))]
    for c in cases:
        out.append("%d %d %d" % (c["id"], c["src"], c["dst"]))
        for size, sh in ((c["ssize"], c["sshared"]), (c["rsize"], c["rshared"])):
            if sh is None:
                out.append("%d -1" % size)
            else:
                out.append("%d %d %s" % (size, len(sh), " ".join("%d %d" % (a, b) for a, b in sh)))
        out.append("%d %d %d %d %d %d %d" % (c["soff"], c["roff"], c["slen"], c["rlen"], SMODES.index(c["smode"]),
                                            RMODES.index(c["rmode"]), c["order"]))
    return "\n".join(out) + "\n"


def describe(c):
    def lay(size, sh):
        return "malloc(%d)" % size if sh is None else "%d:%s" % (size, ",".join("%d-%d" % (a, b) for a, b in sh))
    return "S=%s R=%s msg=S+%d->R+%d len=%d/%d %s/%s" % (lay(c["ssize"], c["sshared"]), lay(c["rsize"], c["rshared"]), c["soff"],
                                                         c["roff"], c["slen"], c["rlen"], c["smode"], c["rmode"])
