"""Generator of deadlock-free MPI point-to-point programs for C28 (interpreted by harness/mpi/p2p.c).

A program is a list of phases separated by world barriers. Each phase is built from a *global* list of messages generated first;
the per-rank operations are then emitted from one of three templates, each deadlock-free for every matching MPI allows:

  T1 irecv-first : every rank posts all its receives of the phase with MPI_Irecv, then performs its sends (any mode, blocking
                   ones included), then completes its requests (Wait/Waitall/Waitany/Waitsome/Test/Testall/Testany/Testsome).
  T2 isend-first : every rank starts all its sends with non-blocking or buffered calls, then receives with blocking Recv,
                   Probe+Recv, Iprobe-loop+Recv or Irecv, then completes everything.
  T3 chain       : the messages are totally ordered; every rank performs its blocking sends and receives (Recv, Probe+Recv,
                   Irecv+Wait, Sendrecv exchanges/rings) in that global order. Wildcards are only used where non-overtaking makes
                   the matching deterministic.

Wildcards follow a *class* discipline per (receiver, communicator, phase): the receive patterns partition the incoming messages
(cells (s,t), rows (s,ANY_TAG), columns (ANY_SOURCE,t), or everything) and each class has exactly as many receives as messages,
so whatever matching the implementation picks inside a class, every receive is eventually satisfied.

Operation encoding (one list per op, first item = code), see p2p.c:
  [1, kind, comm, dest, tag, len, mid, slot]  send   kind 0 Send 1 Ssend 2 Bsend 3 Isend 4 Issend 5 Ibsend ; dest -3 = PROC_NULL
  [2, kind, comm, src, tag, cap, slot]        recv   kind 0 Recv 1 Irecv ; src -1 ANY -2 probed -3 PROC_NULL ; tag -1 ANY -2 probed ; cap -2 probed
  [3, comm, dest, stag, slen, mid, src, rtag, cap]   Sendrecv
  [4, kind, comm, src, tag]                   kind 0 Probe 1 Iprobe loop 2 single Iprobe
  [5, api, n, slots...]                       completion call
  [6, usec]  delay      [7]  barrier
"""
import zlib

ANY = -1
PROBED = -2
PROC_NULL = -3
_BASE = bytes(range(256)) * 2


def payload(mid, n):
    """Bytes of message mid (same function as fill() in p2p.c)."""
    out = bytearray()
    j = 0
    while len(out) < n:
        s = (mid * 17 + j) & 0xff
        out += _BASE[s:s + 256]
        j += 1
    out = out[:n]
    hdr = bytes((mid >> (8 * i)) & 0xff for i in range(4))
    out[:min(4, n)] = hdr[:min(4, n)]
    return bytes(out)


def crc(mid, n):
    return zlib.crc32(payload(mid, n)) & 0xffffffff


def size_pool(a, d):
    s = {0, 1, 2, 3, 4, 5, 8, 23, 24, 100, 257}
    if a > 0:
        s |= {a - 1, a, a + 1, max(0, a - 7), a + 40}
    if d < (1 << 30):
        s |= {max(0, d - 1), d, d + 1, 2 * d + 17}
    return sorted(x for x in s if x >= 0)


class Gen:
    def __init__(self, rng, a, d, mode, np=None, nphases=None, maxmsg=None):
        self.rng = rng
        self.a, self.d, self.mode = a, d, mode          # mode: plain (a == 0) | seg | mixed (a > 0)
        self.np = np or rng.randint(2, 6)
        self.pool = size_pool(a, d)
        self.ops = [[] for _ in range(self.np)]
        self.nslot = [0] * self.np
        self.mid = 1000 + rng.randrange(1 << 20)
        self.comms = [{"kind": "world"}]
        self.phases = []
        self.msgphase = {}
        r = rng.random()
        if r < 0.7:
            self.comms.append({"kind": "dup"})
        if r > 0.3:
            col = [rng.choice([0, 0, 1, -1]) for _ in range(self.np)]
            if sum(1 for c in col if c == 0) < 2:
                col = [0] * self.np
            self.comms.append({"kind": "split", "color": col, "key": [rng.randint(-3, 3) for _ in range(self.np)]})
        self.nphases = nphases or rng.randint(1, 4)
        self.maxmsg = maxmsg or 10

    # -- communicators ---------------------------------------------------------------------------
    def group(self, ci, w):
        """World ranks of the communicator ci as seen by world rank w, in communicator rank order (None if w is not a member)."""
        c = self.comms[ci]
        if c["kind"] != "split":
            return list(range(self.np))
        if c["color"][w] < 0:
            return None
        mem = [x for x in range(self.np) if c["color"][x] == c["color"][w]]
        return sorted(mem, key=lambda x: (c["key"][x], x))

    def crank(self, ci, viewer, w):
        return self.group(ci, viewer).index(w)

    # -- pieces ----------------------------------------------------------------------------------
    def slot(self, r):
        self.nslot[r] += 1
        return self.nslot[r] - 1

    def emit(self, r, op):
        self.ops[r].append(op)
        return len(self.ops[r]) - 1

    def delay(self, r, p=0.3):
        if self.rng.random() < p:
            self.emit(r, [6, self.rng.choice([1, 10, 100, 1000, 20000])])

    def lens(self, pk):
        if pk == "small":
            return [x for x in self.pool if x < self.a]
        if pk == "large":
            return [x for x in self.pool if x >= self.a]
        return self.pool

    def pick_cap(self, L, pk):
        rng = self.rng
        r = rng.random()
        if r < 0.12 and L > 0:
            cap = rng.choice([0, L - 1, L - 1, L // 2, L // 2, max(0, L - 5), max(0, L - 5)])
        elif r < 0.5:
            cap = L
        elif r < 0.75:
            cap = L + rng.choice([1, 3, 64])
        else:
            cap = rng.choice([x for x in self.pool if x >= L] or [L])
        if pk == "small":
            cap = min(cap, self.a - 1)
        elif pk == "large":
            cap = max(cap, self.a)
        return cap

    def gen_messages(self, n, pk, allow_self):
        rng = self.rng
        msgs = []
        tags = rng.choice([[0], [0, 1], [1, 2, 3], [0, 5, 32767]])
        lens = self.lens(pk)
        # a few "hot" (src, dst, comm) triples so that several messages share an envelope
        for _ in range(n):
            ci = rng.randrange(len(self.comms))
            cands = [w for w in range(self.np) if self.group(ci, w) is not None]
            src = rng.choice(cands)
            g = self.group(ci, src)
            dst = rng.choice(g)
            if dst == src and not (allow_self and rng.random() < 0.3):
                others = [x for x in g if x != src]
                if not others:
                    continue
                dst = rng.choice(others)
            if msgs and rng.random() < 0.5:
                m0 = rng.choice(msgs)
                src, dst, ci = m0["src"], m0["dst"], m0["ci"]
            self.mid += 1
            msgs.append({"mid": self.mid, "src": src, "dst": dst, "ci": ci, "tag": rng.choice(tags), "len": rng.choice(lens)})
        return msgs

    def patterns(self, inc, deterministic):
        """inc: messages to one receiver on one communicator. Returns [(srcpat, tagpat, class_key)] one per message; the class
        discipline guarantees that any matching MPI allows satisfies every receive."""
        rng = self.rng
        srcs = sorted({m["src"] for m in inc})
        tags = sorted({m["tag"] for m in inc})
        scheme = rng.choice(["cells", "rows", "cols", "all", "rows+cells", "cols+cells", "rows+cells", "all"])
        out = []
        if scheme == "all" and (not deterministic or len(srcs) == 1):
            return [(ANY, ANY, "all") for _ in inc]
        if scheme in ("rows", "rows+cells", "all"):
            rows = set(srcs) if scheme != "rows+cells" else {s for s in srcs if rng.random() < 0.5}
            for m in inc:
                out.append((m["src"], ANY, ("row", m["src"])) if m["src"] in rows else (m["src"], m["tag"], ("cell", m["src"], m["tag"])))
            return out
        if scheme in ("cols", "cols+cells"):
            cols = set(tags) if scheme == "cols" else {t for t in tags if rng.random() < 0.5}
            if deterministic:
                cols = {t for t in cols if len({m["src"] for m in inc if m["tag"] == t}) == 1}
            for m in inc:
                out.append((ANY, m["tag"], ("col", m["tag"])) if m["tag"] in cols else (m["src"], m["tag"], ("cell", m["src"], m["tag"])))
            return out
        return [(m["src"], m["tag"], ("cell", m["src"], m["tag"])) for m in inc]

    def plan_receives(self, msgs, deterministic, order=None):
        """Returns per receiver the list of receive descriptors {ci, src, tag, cap} (pattern in world ranks), in posting order.
        msgs are in send order per sender (global list order). order: None = shuffled, 'global' = message order."""
        rng = self.rng
        recvs = {}
        by = {}
        for m in msgs:
            by.setdefault((m["dst"], m["ci"]), []).append(m)
        for (q, ci), inc in sorted(by.items()):
            pats = self.patterns(inc, deterministic)
            lst = [{"ci": ci, "src": p[0], "tag": p[1], "cls": p[2], "m": m} for p, m in zip(pats, inc)]
            recvs.setdefault(q, []).extend(lst)
        for q in recvs:
            if order is None:
                rng.shuffle(recvs[q])
            else:
                pos = {m["mid"]: i for i, m in enumerate(msgs)}
                recvs[q].sort(key=lambda r: pos[r["m"]["mid"]])
            # the i-th posted receive of a class will (for deterministic classes) get the i-th sent message of the class
            seen = {}
            for r in recvs[q]:
                k = (r["ci"], r["cls"])
                cls_msgs = [m for m in msgs if m["dst"] == q and m["ci"] == r["ci"] and self._in_class(m, r["cls"])]
                i = seen.get(k, 0)
                seen[k] = i + 1
                r["plan"] = cls_msgs[i]
        return recvs

    @staticmethod
    def _in_class(m, cls):
        if cls == "all":
            return True
        if cls[0] == "row":
            return m["src"] == cls[1]
        if cls[0] == "col":
            return m["tag"] == cls[1]
        return m["src"] == cls[1] and m["tag"] == cls[2]

    def send_op(self, m, kinds):
        p = m["src"]
        kind = self.rng.choice(kinds)
        s = self.slot(p) if kind >= 3 else -1
        dest = self.crank(m["ci"], p, m["dst"])
        self.emit(p, [1, kind, m["ci"], dest, m["tag"], m["len"], m["mid"], s])
        return s

    def pat(self, r, q):
        src = r["src"] if r["src"] < 0 else self.crank(r["ci"], q, r["src"])
        return src, r["tag"]

    def complete(self, r, slots):
        rng = self.rng
        slots = list(slots)
        rng.shuffle(slots)
        while slots:
            n = rng.randint(1, len(slots))
            part, slots = slots[:n], slots[n:]
            api = rng.choice([1, 2, 3, 4, 5, 6, 7, 8])
            while len(part) > 30:
                self.emit(r, [5, api, 30] + part[:30])
                part = part[30:]
            self.emit(r, [5, api, len(part)] + part)
            self.delay(r, 0.15)

    def procnull(self, r):
        rng = self.rng
        if rng.random() < 0.08:
            ci = rng.choice([c for c in range(len(self.comms)) if self.group(c, r) is not None])
            if rng.random() < 0.5:
                self.emit(r, [1, rng.choice([0, 1, 2]), ci, PROC_NULL, 1, rng.choice([0, 5]), 0, -1])
            else:
                self.emit(r, [2, 0, ci, PROC_NULL, rng.choice([ANY, 2]), rng.choice([0, 9]), -1])

    # -- templates -------------------------------------------------------------------------------
    def phase_kind(self):
        if self.mode == "seg":
            return self.rng.choice(["small", "large", "ssmall"])
        return "any"

    def send_kinds(self, pk, blocking_ok, nonblocking_only=False):
        if pk == "ssmall":
            return [4] if nonblocking_only else ([1, 4] if blocking_ok else [4])
        if pk == "small":
            ks = [3, 5, 2] if nonblocking_only else ([0, 2, 3, 5] if blocking_ok else [2, 3, 5])
            return ks
        if nonblocking_only:
            return [3, 4, 5, 2]
        return [0, 1, 2, 3, 4, 5] if blocking_ok else [2, 3, 4, 5]

    def t1(self):
        rng = self.rng
        pk = self.phase_kind()
        lp = "small" if pk == "ssmall" else pk
        msgs = self.gen_messages(rng.randint(1, self.maxmsg), lp, True)
        rng.shuffle(msgs)
        recvs = self.plan_receives(msgs, False)
        slots = {r: [] for r in range(self.np)}
        for q in range(self.np):
            self.delay(q)
            for r in recvs.get(q, []):
                s = self.slot(q)
                src, tag = self.pat(r, q)
                self.emit(q, [2, 1, r["ci"], src, tag, self.pick_cap(r["plan"]["len"], lp), s])
                slots[q].append(s)
                self.delay(q, 0.1)
            self.procnull(q)
        kinds = self.send_kinds(pk, True)
        for m in msgs:
            self.delay(m["src"], 0.2)
            s = self.send_op(m, kinds)
            if s >= 0:
                slots[m["src"]].append(s)
        for r in range(self.np):
            self.delay(r, 0.2)
            self.complete(r, slots[r])
        return msgs, "T1/" + pk

    def recv_variant(self, q, r, lp, slots, allow_irecv=True):
        rng = self.rng
        src, tag = self.pat(r, q)
        cap = self.pick_cap(r["plan"]["len"], lp)
        v = rng.random()
        if v < 0.35:
            self.emit(q, [2, 0, r["ci"], src, tag, cap, -1])
        elif v < 0.65:
            self.emit(q, [4, rng.choice([0, 0, 1]), r["ci"], src, tag])
            c = rng.random()
            self.emit(q, [2, rng.choice([0, 0, 1]) if False else 0, r["ci"], PROBED, PROBED, PROBED if c < 0.6 else cap, -1])
        elif v < 0.75 and allow_irecv:
            s = self.slot(q)
            self.emit(q, [2, 1, r["ci"], src, tag, cap, s])
            self.emit(q, [5, rng.choice([1, 2, 3, 4, 5, 6, 7, 8]), 1, s])
        elif allow_irecv:
            s = self.slot(q)
            self.emit(q, [2, 1, r["ci"], src, tag, cap, s])
            slots.append(s)
        else:
            self.emit(q, [2, 0, r["ci"], src, tag, cap, -1])

    def t2(self):
        rng = self.rng
        pk = self.phase_kind()
        lp = "small" if pk == "ssmall" else pk
        msgs = self.gen_messages(rng.randint(1, self.maxmsg), lp, True)
        rng.shuffle(msgs)
        recvs = self.plan_receives(msgs, False)
        slots = {r: [] for r in range(self.np)}
        kinds = self.send_kinds(pk, False, nonblocking_only=True)
        for m in msgs:
            self.delay(m["src"], 0.15)
            s = self.send_op(m, kinds)
            if s >= 0:
                slots[m["src"]].append(s)
        for q in range(self.np):
            self.delay(q, 0.5)
            if rng.random() < 0.3:           # a single Iprobe whose answer may be either
                ci = rng.choice([c for c in range(len(self.comms)) if self.group(c, q) is not None])
                self.emit(q, [4, 2, ci, ANY, ANY])
            for r in recvs.get(q, []):
                self.recv_variant(q, r, lp, slots[q])
                self.delay(q, 0.1)
            self.procnull(q)
            self.complete(q, slots[q])
        return msgs, "T2/" + pk

    def t3(self):
        rng = self.rng
        pk = self.phase_kind()
        lp = "small" if pk == "ssmall" else pk
        msgs = [m for m in self.gen_messages(rng.randint(1, self.maxmsg), lp, False) if m["src"] != m["dst"]]
        steps = []        # ("msg", m) | ("xchg", m1, m2) | ("ring", [msgs])
        i = 0
        lens = self.lens(lp)
        while i < len(msgs):
            m = msgs[i]
            r = rng.random()
            if r < 0.2:       # exchange: add the reverse message, both sides use Sendrecv
                self.mid += 1
                m2 = {"mid": self.mid, "src": m["dst"], "dst": m["src"], "ci": m["ci"], "tag": rng.choice([m["tag"], 0, 1]),
                      "len": rng.choice(lens)}
                steps.append(("xchg", m, m2))
            elif r < 0.3:     # ring shift on the communicator of m
                g = self.group(m["ci"], m["src"])
                if len(g) >= 2:
                    dsp = rng.randint(1, len(g) - 1)
                    ring = []
                    for k, w in enumerate(g):
                        self.mid += 1
                        ring.append({"mid": self.mid, "src": w, "dst": g[(k + dsp) % len(g)], "ci": m["ci"], "tag": m["tag"],
                                     "len": rng.choice(lens)})
                    steps.append(("ring", ring))
                else:
                    steps.append(("msg", m))
            else:
                steps.append(("msg", m))
            i += 1
        allm = []
        for st in steps:
            allm += list(st[1:]) if st[0] != "ring" else st[1]
        recvs = self.plan_receives(allm, True, order="global")
        rdesc = {}
        for q, lst in recvs.items():
            for r in lst:
                rdesc[r["plan"]["mid"]] = r      # deterministic classes: plan == the message this receive is issued for
        # in a deterministic class posted in global order the i-th receive is issued at the position of the i-th message: fine
        kinds = [1] if pk == "ssmall" else ([0, 2] if pk == "small" else [0, 1, 2])
        scratch = {r: [] for r in range(self.np)}
        for st in steps:
            if st[0] == "msg":
                m = st[1]
                self.delay(m["src"], 0.2)
                self.send_op(m, kinds)
                self.delay(m["dst"], 0.2)
                self.recv_variant(m["dst"], rdesc[m["mid"]], lp, scratch[m["dst"]], allow_irecv=False)
            else:
                ms = list(st[1:]) if st[0] == "xchg" else st[1]
                for m in ms:                  # the rank m.src sends m and receives the message of the step addressed to it
                    p = m["src"]
                    inc = [x for x in ms if x["dst"] == p][0]
                    r = rdesc[inc["mid"]]
                    src, tag = self.pat(r, p)
                    self.delay(p, 0.1)
                    self.emit(p, [3, m["ci"], self.crank(m["ci"], p, m["dst"]), m["tag"], m["len"], m["mid"], src, tag,
                                  self.pick_cap(inc["len"], lp)])
        for q in range(self.np):
            self.procnull(q)
        return allm, "T3/" + pk

    def build(self):
        rng = self.rng
        for ph in range(self.nphases):
            t = rng.choice([self.t1, self.t2, self.t3])
            msgs, name = t()
            self.phases.append(name)
            for m in msgs:
                self.msgphase[m["mid"]] = name
            for r in range(self.np):
                self.emit(r, [7])
        return {"np": self.np, "comms": self.comms, "ops": self.ops, "a": self.a, "d": self.d, "mode": self.mode,
                "phases": self.phases}


def generate(rng, a, d, mode, **kw):
    return Gen(rng, a, d, mode, **kw).build()


def write_case(case, path):
    with open(path, "w") as f:
        f.write("NP %d\nNCOMM %d\n" % (case["np"], len(case["comms"])))
        for i, c in enumerate(case["comms"]):
            if i == 0:
                continue
            if c["kind"] == "dup":
                f.write("COMM %d DUP\n" % i)
            else:
                f.write("COMM %d SPLIT %s\n" % (i, " ".join("%d %d" % (c["color"][r], c["key"][r]) for r in range(case["np"]))))
        for r, ops in enumerate(case["ops"]):
            f.write("PROG %d %d\n" % (r, len(ops)))
            for op in ops:
                f.write("%d %d %s\n" % (op[0], len(op) - 1, " ".join(str(x) for x in op[1:])))
