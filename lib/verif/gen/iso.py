"""Generator of platforms (plain numbers, built through the C++ platform API by harness/iso.cpp and harness/conserve.cpp)
and of isolated activities for C20."""
import math

SMPI_BOUNDS = [257, 732, 1426, 3484, 5776, 9376, 15424, 65472]


def logu(rng, lo, hi):
    return math.exp(rng.uniform(math.log(lo), math.log(hi)))


def nice(rng, lo, hi):
    """A value over several orders of magnitude; half of the time a 'round' one (1, 2, 2.5, 5 x 10^k) so that ties happen."""
    if rng.random() < 0.5:
        k = rng.randint(int(math.ceil(math.log10(lo))), int(math.floor(math.log10(hi))) - 1)
        return rng.choice([1.0, 2.0, 2.5, 5.0]) * 10.0 ** k
    return float("%.6g" % logu(rng, lo, hi))


def platform(rng, small_lat=False):
    nh = rng.randint(3, 6)
    hosts = []
    for i in range(nh):
        np_ = rng.choice([1, 1, 2, 3])
        hosts.append({"name": "h%d" % i, "cores": rng.choice([1, 1, 2, 4, 16]),
                      "speeds": [nice(rng, 1e3, 1e12) for _ in range(np_)]})
    nl = rng.randint(4, 14)
    links = []
    for i in range(nl):
        r = rng.random()
        lat = 0.0 if r < 0.15 else (nice(rng, 1e-9, 1e-4) if (r < 0.5 or small_lat) else nice(rng, 1e-4, 1.0))
        bw = nice(rng, 1e3, 1e12)
        if links and rng.random() < 0.2:
            bw = rng.choice(links)["bw"]       # ties between links of a route
        links.append({"name": "l%d" % i, "bw": bw, "lat": lat, "pol": rng.choice("SSSSSSFFDDD")})
    routes = []
    pairs = [(a, b) for a in range(nh) for b in range(a + 1, nh)]
    rng.shuffle(pairs)

    def mk(n):
        ls = rng.sample(links, n)
        return [(l["name"], (rng.choice("UD") if l["pol"] == "D" else "N")) for l in ls]
    for a, b in pairs:
        n = rng.choice([1, 1, 2, 2, 3, 4, 5, 6, 7, 8])
        n = min(n, nl)
        if rng.random() < 0.75:
            routes.append({"src": "h%d" % a, "dst": "h%d" % b, "sym": 1, "links": mk(n)})
        else:
            routes.append({"src": "h%d" % a, "dst": "h%d" % b, "sym": 0, "links": mk(n)})
            m = min(rng.choice([1, 2, 3, 8]), nl)
            back = mk(m)
            if rng.random() < 0.3:       # reverse route sharing some links with the forward one, same direction
                back = back[: max(1, m // 2)] + [x for x in routes[-1]["links"][:2] if x[0] not in [y[0] for y in back[: max(1, m // 2)]]]
            routes.append({"src": "h%d" % b, "dst": "h%d" % a, "sym": 0, "links": back})
    disks = []
    for i in range(rng.randint(1, 3)):
        disks.append({"host": "h%d" % rng.randrange(nh), "name": "d%d" % i, "rbw": nice(rng, 1e3, 1e12), "wbw": nice(rng, 1e3, 1e12)})
    return {"hosts": hosts, "links": links, "routes": routes, "disks": disks}


def platform_text(p):
    out = []
    for h in p["hosts"]:
        out.append("H %s %d %d %s" % (h["name"], h["cores"], len(h["speeds"]), " ".join(repr(s) for s in h["speeds"])))
    for l in p["links"]:
        out.append("L %s %r %r %s" % (l["name"], l["bw"], l["lat"], l["pol"]))
    for r in p["routes"]:
        out.append("R %s %s %d %d %s" % (r["src"], r["dst"], r["sym"], len(r["links"]), " ".join("%s %s" % x for x in r["links"])))
    for d in p["disks"]:
        out.append("D %s %s %r %r" % (d["host"], d["name"], d["rbw"], d["wbw"]))
    out.append("X")
    return out


def route_tables(p):
    """(src,dst) -> forward list of (link name, dir). A symmetric route gives the reverse direction with every split-duplex
    half flipped ('Each link is split in 2, UP and DOWN, one per direction')."""
    t = {}
    for r in p["routes"]:
        t[(r["src"], r["dst"])] = list(r["links"])
        if r["sym"]:
            flip = {"U": "D", "D": "U", "N": "N"}
            t[(r["dst"], r["src"])] = [(n, flip[d]) for n, d in reversed(r["links"])]
    return t


def op_text(op):
    k = op["k"]
    if k == "E":
        return "E %s %d %d %r %r" % (op["host"], op["pstate"], op.get("threads", 1), op["bound"], op["flops"])
    if k == "S":
        return "S %r" % op["d"]
    if k == "C":
        return "C %s %s %r" % (op["src"], op["dst"], op["size"])
    if k == "I":
        return "I %s %s %d" % (op["disk"], op["rw"], op["size"])
    if k == "P":
        return "P %d %s" % (len(op["parts"]), " ".join("%s %r" % (h, f) for h, f in op["parts"]))
    raise ValueError(k)


def sizes(rng, extra_bounds=()):
    r = rng.random()
    bounds = list(SMPI_BOUNDS) + list(extra_bounds)
    if r < 0.12:
        return float(rng.choice(bounds) + rng.choice([-1, 0, 0, 1]))
    if r < 0.2:
        return float(rng.choice([1, 2, 1000, 1024, 65536, 10 ** 6, 2 ** 20, 10 ** 9, 10 ** 12]))
    if r < 0.6:
        return float(int(logu(rng, 1, 1e6)))
    return float(int(logu(rng, 1, 1e12)))


def ops(rng, p, n, l07=False, extra_bounds=()):
    """n isolated activities on platform p."""
    out = []
    rt = route_tables(p)
    pairs = sorted(rt)
    for _ in range(n):
        r = rng.random()
        if l07:
            if r < 0.6:
                k = rng.randint(1, min(5, len(p["hosts"])))
                hs = rng.sample(p["hosts"], k)
                parts = [(h["name"], (0.0 if rng.random() < 0.15 else nice(rng, 1, 1e12))) for h in hs]
                if all(f == 0 for _, f in parts):
                    parts[0] = (parts[0][0], nice(rng, 1, 1e12))
                if rng.random() < 0.2 and len(parts) > 1:      # tie: two parts with the same ratio
                    h0 = [h for h in p["hosts"] if h["name"] == parts[0][0]][0]
                    h1 = [h for h in p["hosts"] if h["name"] == parts[1][0]][0]
                    parts[1] = (parts[1][0], parts[0][1] / h0["speeds"][0] * h1["speeds"][0]) if parts[0][1] > 0 else parts[1]
                out.append({"k": "P", "parts": parts})
                continue
            r = rng.random() * 0.45      # only exec / sleep / io besides ptasks
        if r < 0.25:
            h = rng.choice(p["hosts"])
            ps = rng.randrange(len(h["speeds"]))
            sp = h["speeds"][ps]
            bound = -1.0
            if not l07 and rng.random() < 0.35:
                bound = rng.choice([sp, sp * 2, sp / 2, float("%.6g" % (sp * logu(rng, 1e-3, 10)))])
            out.append({"k": "E", "host": h["name"], "pstate": ps, "bound": bound, "flops": nice(rng, 1, 1e12)})
        elif r < 0.33:
            out.append({"k": "S", "d": rng.choice([0.0, 1e-12, 1e-9, 2e-9, 1.0, nice(rng, 1e-9, 1e6)])})
        elif r < 0.45:
            d = rng.choice(p["disks"])
            out.append({"k": "I", "disk": d["name"], "rw": rng.choice("RW"), "size": int(sizes(rng))})
        else:
            if rng.random() < 0.05:
                h = rng.choice(p["hosts"])["name"]
                out.append({"k": "C", "src": h, "dst": h, "size": sizes(rng, extra_bounds)})
            else:
                s, d = rng.choice(pairs)
                out.append({"k": "C", "src": s, "dst": d, "size": sizes(rng, extra_bounds)})
    return out
