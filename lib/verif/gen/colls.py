"""Case generator, class functions and refusal table for C29 (collective algorithms of SMPI).

A *case* is one call of one collective: (idx, coll, mode, root, pat, c, dt, op, vseed, late) - see harness/mpi/coll_check.c.
A *run* is one smpirun execution: (collective, algorithm, np, layout) + a list of cases of that collective.
"""
import math
import re

ROOTED = {"bcast", "gather", "gatherv", "scatter", "scatterv", "reduce"}
VCOLLS = {"gatherv", "scatterv", "allgatherv", "alltoallv", "alltoallw", "reduce_scatter"}
REDUCING = {"reduce", "allreduce", "scan", "reduce_scatter", "reduce_scatter_block"}
# blocking modes that MPI defines for each collective ("nn": arguments significant only at root are NULL elsewhere)
MODES = {
    "bcast": ["b"], "gather": ["b", "ip", "nn"], "gatherv": ["b", "ip", "nn"], "scatter": ["b", "ip", "nn"],
    "scatterv": ["b", "ip", "nn"], "allgather": ["b", "ip"], "allgatherv": ["b", "ip"], "alltoall": ["b", "ip"],
    "alltoallv": ["b"], "alltoallw": ["b"], "reduce": ["b", "ip", "nn"], "allreduce": ["b", "ip"], "scan": ["b", "ip"],
    "reduce_scatter": ["b", "ip"], "reduce_scatter_block": ["b", "ip"], "barrier": ["b"],
}
MOVE_DTS = ["int", "dbl", "vec"]
COMBOS = [("int", "sum"), ("dbl", "max"), ("2int", "maxloc"), ("int", "user"), ("int", "prod"), ("dbl", "sum"), ("vec", "user"),
          ("int", "bxor"), ("dblint", "minloc"), ("int", "max"), ("dbl", "prod"), ("int", "min"), ("2int", "minloc"),
          ("dbl", "min"), ("dblint", "maxloc")]
# the collectives that have a table of algorithms (smpi/<coll>:<algo>) and the call(s) that exercise that table
TABLE_CALLS = {
    "bcast": ["bcast"], "gather": ["gather"], "scatter": ["scatter"], "allgather": ["allgather"], "allgatherv": ["allgatherv"],
    "alltoall": ["alltoall"], "alltoallv": ["alltoallv"], "reduce": ["reduce"], "allreduce": ["allreduce"],
    "reduce_scatter": ["reduce_scatter", "reduce_scatter_block"], "barrier": ["barrier"],
}
# collectives with a single implementation (blocking entry points)
FIXED = ["gatherv", "scatterv", "scan", "alltoallw"]
# every collective has one non-blocking implementation (smpi_nbc_impl.cpp), whatever the algorithm tables say
NBC = ["bcast", "gather", "gatherv", "scatter", "scatterv", "allgather", "allgatherv", "alltoall", "alltoallv", "alltoallw",
       "reduce", "allreduce", "scan", "reduce_scatter", "reduce_scatter_block", "barrier"]


def parse_help_coll(text):
    """[(collective, algorithm)] from the output of `smpirun -help-coll`."""
    pairs, cur = [], None
    for line in text.splitlines():
        m = re.match(r'Collective: "(\w+)"', line)
        if m:
            cur = m.group(1)
            continue
        m = re.match(r"  (\S+)\s+\S", line)
        if m and cur:
            pairs.append((cur, m.group(1)))
    return pairs


def np_class(np):
    return "1" if np == 1 else ("pow2" if np & (np - 1) == 0 else "nonpow2")


def lay_class(layout):
    return {"flat": "flat", "rev": "rev"}.get(layout, "cyc" if layout.startswith("cyc") else "smp")


def count_class(case, np):
    coll, pat, c = case["coll"], case["pat"], case["c"]
    if coll == "barrier":
        return "-"
    if coll in VCOLLS and pat % 10 == 1:
        return "var"
    if coll in VCOLLS and pat % 10 == 2:
        return "sparse"
    return "0" if c == 0 else ("<np" if c < np else ">=np")


def dt_class(case):
    return {"2int": "pair", "dblint": "pair"}.get(case["dt"], case["dt"])


def case_class(case, np):
    """The part of a violation key that depends on the case."""
    return "count=%s:dt=%s:mode=%s" % (count_class(case, np), "-" if case["coll"] == "barrier" else dt_class(case), case["mode"])


def case_line(case):
    return "%d %s %s %d %d %d %s %s %d %d" % (case["idx"], case["coll"], case["mode"], case["root"], case["pat"], case["c"],
                                              case["dt"], case["op"], case["vseed"], case["late"])


def hostfile_lines(layout, np):
    if layout in ("flat", "rev"):
        return ["n%d" % i for i in range(np)]
    if layout.startswith("blk"):
        k = int(layout[3:])
        return ["n%d" % (i // k) for i in range(np)]
    if layout.startswith("cyc"):
        k = int(layout[3:])
        return ["n%d" % (i % k) for i in range(np)]
    raise ValueError(layout)


PLATFORM_XML = """<?xml version='1.0'?>
<!DOCTYPE platform SYSTEM "https://simgrid.org/simgrid.dtd">
<platform version="4.1">
  <zone id="world" routing="Full">
    <cluster id="c" prefix="n" radical="0-19" suffix="" speed="1Gf" bw="1GBps" lat="10us"/>
  </zone>
</platform>
"""


PER_RANK_BUFFERS = ("gather", "scatter", "allgather", "alltoall", "gatherv", "scatterv", "allgatherv", "alltoallv", "alltoallw",
                    "reduce_scatter", "reduce_scatter_block")


def _non_multiple(c, np):
    while np > 1 and c % np == 0:
        c += 1
    return c


def counts_for(np, tier, coll):
    """{0,1,2,np-1,np,np+1} + counts that are not multiples of np and cross the segment sizes of the pipelined algorithms.
    The list does not depend on the seed (the seed draws the data, the late ranks and the order of the calls), so that the
    classes reached by a tier are the same for every seed."""
    big1 = _non_multiple(701, np)                   # 2.8 kB of int: below every segment size
    big2 = _non_multiple(4099, np)                  # 16 kB of int: above the 8 kB segments and the 12 kB short-message limits
    if coll in PER_RANK_BUFFERS and np > 8:
        big2 = _non_multiple(max(4099 * 8 // np, np + 2), np)
    cs = {0, 1, 2, max(np - 1, 0), np, np + 1, big1, big2}
    if tier == "thorough":
        cs |= {3, 7, 31, _non_multiple(1025, np), 2048 if coll not in PER_RANK_BUFFERS else 128}
    return sorted(cs)


def huge_count(np, coll):
    h = 150001                                      # 600 kB of int: above the 512 kB long-message limits
    if coll in PER_RANK_BUFFERS:
        h = h // np
    return _non_multiple(h, np)


QUICK_CASES = 64        # cases of one call in a quick-tier run (stratified sample of the full list)
THOROUGH_CASES = 128     # per call in a thorough-tier run (64 for the sizes outside REQUIRED_NP)


def _stratified(cases, limit, rng):
    """At most `limit` cases: every count of the full list is present, then every (count, mode, pattern) stratum as evenly
    as possible (the seed draws which cases of a stratum are kept)."""
    if len(cases) <= limit:
        return cases
    buckets = {}
    for c in cases:
        buckets.setdefault((c["c"], c["mode"], c["pat"]), []).append(c)
    bycount = {}
    for k in sorted(buckets):
        rng.shuffle(buckets[k])
        bycount.setdefault(k[0], []).append(k)
    for cnt in bycount:
        rng.shuffle(bycount[cnt])
    # strata interleaved so that the first picks cover all counts, the next ones their other modes/patterns, ...
    keys = []
    depth = max(len(v) for v in bycount.values())
    for i in range(depth):
        for cnt in sorted(bycount):
            if i < len(bycount[cnt]):
                keys.append(bycount[cnt][i])
    out = []
    while len(out) < limit:
        took = False
        for k in keys:
            if buckets[k] and len(out) < limit:
                out.append(buckets[k].pop())
                took = True
        if not took:
            break
    return out


def gen_cases(call, variant, np, rng, tier, limit=None):
    """Cases of one call (`call` is the MPI collective; variant 'blocking' or 'nbc') for a communicator of np ranks.

    Two families so that every pair of features meets: (count x datatype/operator x mode) with roots cycling, and
    (root x count x mode) with datatypes/operators cycling. The v-collectives add the six count/displacement patterns.
    The quick tier runs a stratified sample (every count x mode x pattern present) of `limit` cases drawn by the seed."""
    cases = []
    modes = MODES[call] if variant == "blocking" else ["nb", "nb2"]
    if call == "barrier":
        modes = ["b"] if variant == "blocking" else ["nb"]
        for late in range(np):
            for rep in range(2):
                cases.append(dict(coll=call, mode=modes[0], root=late, pat=0, c=rep * 40 + late, dt="int", op="none", vseed=0,
                                  late=-1))
        return _number(cases)
    counts = counts_for(np, tier, call)
    reducing = call in REDUCING
    feats = COMBOS if reducing else [(d, "none") for d in MOVE_DTS]
    pats = [0, 10, 1, 11, 2, 12] if call in VCOLLS else [0]
    if call == "alltoallw":
        feats = [("int", "none")]
    roots = list(range(np)) if call in ROOTED else [0]
    k = 0

    def late():
        return rng.randrange(np) if rng.random() < 0.4 else -1

    def add(mode, root, pat, c, feat):
        if call == "alltoallw" or (call in VCOLLS and pat % 10):
            c = min(c, 40 + c % 7)      # the patterns multiply the base count; keep the v-patterns small
        cases.append(dict(coll=call, mode=mode, root=root, pat=pat, c=c, dt=feat[0], op=feat[1], vseed=rng.randrange(1, 1 << 30),
                          late=late()))

    # family 1: count x feature x mode (x pattern), roots cycling
    for c in counts:
        for feat in feats:
            for mode in modes:
                for pat in pats:
                    add(mode, roots[k % len(roots)], pat, c, feat)
                    k += 1
    # family 2: root x count x mode, features and patterns cycling
    if len(roots) > 1:
        for root in roots:
            for c in counts:
                for mode in modes:
                    add(mode, root, pats[k % len(pats)], c, feats[k % len(feats)])
                    k += 1
    if tier == "thorough" and variant == "blocking":
        h = huge_count(np, call)
        for root in sorted({roots[0], roots[-1]}):
            for feat in feats[:2]:
                add("b", root, 0, h, feat)
    if limit is None and tier == "quick":
        limit = QUICK_CASES
    if limit:
        cases = _stratified(cases, limit, rng)
    rng.shuffle(cases)
    return _number(cases)


def parse_case(line, idx=None):
    """Inverse of case_line; the leading index may be omitted (then idx is used) and vseed/late default to 12345/-1."""
    f = line.split()
    if not f[0].lstrip("-").isdigit():
        f = [str(idx if idx is not None else 0)] + f
    if len(f) == 8:
        f += ["12345", "-1"]
    return dict(idx=int(f[0]), coll=f[1], mode=f[2], root=int(f[3]), pat=int(f[4]), c=int(f[5]), dt=f[6], op=f[7],
                vseed=int(f[8]), late=int(f[9]))


# --------------------------------------------------------------------------------------------------------------------
# The matrix. A configuration is (communicator size, placement of the ranks on the hosts).
REQUIRED_NP = (1, 2, 3, 4, 5, 7, 8, 12, 16)


def thorough_configs():
    """Every size 1..17 with one rank per host, and the other placements on a subset of sizes."""
    out = [(np, "flat") for np in range(1, 18)]
    out += [(np, "blk2") for np in (2, 4, 6, 7, 8, 12, 16)]
    out += [(np, "blk3") for np in (6, 9, 12)]              # a number of ranks per host that is not a power of two
    out += [(np, "blk4") for np in (5, 8, 12, 16)]
    out += [(np, "cyc2") for np in (3, 4, 5, 8)]
    out += [(np, "cyc3") for np in (6, 7, 9)]
    out += [(np, "rev") for np in (2, 3, 5, 8)]
    return out


def quick_configs(rng):
    """Two configurations of the thorough matrix drawn by the seed: one with a power-of-two size (1 included) and one
    without, at most 8 ranks so that a quick run stays short; sizes 12 and 16 are visited by the thorough tier."""
    cfgs = [c for c in thorough_configs() if c[0] <= 8]
    p2 = [c for c in cfgs if c[0] & (c[0] - 1) == 0]
    np2 = [c for c in cfgs if c[0] & (c[0] - 1) != 0]
    return [rng.choice(p2), rng.choice(np2)]


def _number(cases):
    for i, c in enumerate(cases):
        c["idx"] = i
    return cases


# --------------------------------------------------------------------------------------------------------------------
# Explicit refusals: an algorithm that checks a precondition itself and stops with a message naming it is not a
# violation *when the precondition is indeed unmet*. (collective regex, algorithm regex, message regex, predicate)
# predicate(np, layout, case-or-None) -> True when the stated precondition does not hold for that run/case.
# scope "run": the refusal depends only on (np, layout): the whole run is refused. scope "case": on the case.

def _nonpow2(np, layout, case):
    return np & (np - 1) != 0


def _ranks_per_host(layout, np):
    hosts = hostfile_lines(layout, np)
    per = {}
    for h in hosts:
        per[h] = per.get(h, 0) + 1
    return hosts, per


def _uniform(layout, np):
    _, per = _ranks_per_host(layout, np)
    return len(set(per.values())) == 1


def _blocked(layout, np):
    hosts, _ = _ranks_per_host(layout, np)
    seen, prev = set(), None
    for h in hosts:
        if h != prev and h in seen:
            return False
        seen.add(h)
        prev = h
    return True


def _irregular(np, layout, case):
    return not (_uniform(layout, np) and _blocked(layout, np))


def is_2dmesh(n):
    """Transcription of is_2dmesh() of allgather-2dmesh.cpp / alltoall-2dmesh.cpp."""
    x, mx = int(math.sqrt(n)), n // 2
    while x <= mx:
        if x > 0 and n % x == 0:
            return True
        x += 1
    return False


def is_3dmesh(n):
    """Transcription of is_3dmesh() of allgather-3dmesh.cpp / alltoall-3dmesh.cpp."""
    x = int(round(n ** (1.0 / 3)))
    if x ** 3 > n:
        x -= 1
    mx = n // 3
    while x <= mx:
        if x > 0 and n % (x * x) == 0:
            return True
        x += 1
    return False


def _not_2dmesh(np, layout, case):
    return not is_2dmesh(np)


def _not_3dmesh(np, layout, case):
    return not is_3dmesh(np)


def _rab_datatype(np, layout, case):
    return case is not None and case["dt"] not in ("int", "dbl")


def _unequal_counts(np, layout, case):
    return case is not None and case["coll"] == "reduce_scatter" and case["pat"] % 10 != 0 and np > 1


POW2 = r"can't be used with non power of two number of processes"
REFUSALS = [
    (r"allreduce", r"rab1|smp_rsag_rab", POW2, _nonpow2, "run"),
    (r"allgather", r"pair|rhv", POW2, _nonpow2, "run"),
    (r"allgatherv", r"pair", POW2, _nonpow2, "run"),
    (r"alltoall", r"pair(_rma|_light_barrier|_mpi_barrier|_one_barrier)?", POW2, _nonpow2, "run"),
    (r"alltoallv", r"pair(_light_barrier|_mpi_barrier|_one_barrier)?", POW2, _nonpow2, "run"),
    (r"allgather", r"mvapich2_smp", r"can't be used with irregular deployment", _irregular, "run"),
    (r"allgather", r"2dmesh", r"allgather_2dmesh algorithm can't be used with this number of processes", _not_2dmesh, "run"),
    (r"allgather", r"3dmesh", r"allgather_3dmesh algorithm can't be used with this number of processes", _not_3dmesh, "run"),
    # alltoall 2dmesh/3dmesh answer MPI_ERR_OTHER (no message) when the size is not a mesh: an error code, not a wrong buffer
    (r"alltoall", r"2dmesh", r"^error-return code=\d+$", _not_2dmesh, "run"),
    (r"alltoall", r"3dmesh", r"^error-return code=\d+$", _not_3dmesh, "run"),
    (r"reduce|allreduce", r"rab", r"reduce rab algorithm can't be used with this datatype", _rab_datatype, "case"),
    # reduce_scatter-mpich.cpp:179/182: xbt_assert(pof2 == comm_size) "FIXME this version only works for power of 2 procs",
    # xbt_assert(recvcounts[i] == recvcounts[i+1])
    (r"barrier", r"ompi_two_procs", r"barrier ompi_two_procs algorithm can only be used with 2 processes", lambda np, layout, case: np != 2,
     "run"),
    (r"reduce_scatter", r"mpich_noncomm", r"pof2 == comm_size", _nonpow2, "run"),
    (r"reduce_scatter", r"mpich_noncomm", r"recvcounts\[i\] == recvcounts\[i ?\+ ?1\]", _unequal_counts, "case"),
]


def match_refusal(coll, algo, np, layout, case, text):
    for rc, ra, rm, pred, scope in REFUSALS:
        if re.fullmatch(rc, coll) and re.fullmatch(ra, algo) and re.search(rm, text) and pred(np, layout, case):
            return scope, rm
    return None


def expected_refusal(coll, algo, np, layout, case):
    """Index of the case-scope row of REFUSALS whose stated precondition is unmet for this case (the algorithm is then
    expected to stop with that row's message), or None."""
    for i, (rc, ra, rm, pred, scope) in enumerate(REFUSALS):
        if scope == "case" and re.fullmatch(rc, coll) and re.fullmatch(ra, algo) and pred(np, layout, case):
            return i
    return None
