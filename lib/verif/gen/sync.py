"""Scenario generators and runner for harness/sync.cpp (C05 semaphores, C06 condition variables, C07 barriers).

A scenario is a dict {"mode": "sem"|"cv"|"bar", <objects>, "scripts": [[token, ...] per actor]}; see harness/sync.cpp for the tokens.
All durations are small integer multiples of the harness time unit (2^-10 s), so that releases/notifications and deadlines collide on
exactly the same date, in the same scheduling round, or one round apart.
"""
import os

from verif import build, proc

PLATFORM = "/repo/examples/platforms/small_platform.xml"


def header(sc):
    if sc["mode"] == "sem":
        return "sem " + " ".join(map(str, sc["caps"]))
    if sc["mode"] == "cv":
        return "cv %d" % sc["ncv"]
    return "bar " + " ".join(map(str, sc["sizes"])) + (" nosweep" if sc.get("nosweep") else "")


def stdin_of(scs):
    return "".join(header(sc) + "\n" + "\n".join(" ".join(s) for s in sc["scripts"]) + "\n--\n" for sc in scs)


def exe(flavour):
    return build.harness("sync.cpp", flavour, internal=True)


def run_batch(flavour, scs, timeout=300):
    """Run the scenarios side by side in one process/Engine. -> (Result, [log of scenario i without its index column])

    Under the sanitized flavour actors run on threads: forcefully killed actors (Actor::kill, the clean-up after a deadlock) unwind an
    exception on a swapped stack otherwise, which ASan itself reports as a false positive in its sigaltstack interceptor."""
    cmd = [exe(flavour), PLATFORM, "--log=root.thres:critical"]
    if flavour != "hooks":
        cmd.append("--cfg=contexts/factory:thread")
    env = {}
    if flavour == "hooks" and os.environ.get("VERIF_SYNC_LIBDIR"):
        # scratch runs only (mutation tests / trying a fix without touching /repo): a relinked copy of the hooks libsimgrid
        env["LD_LIBRARY_PATH"] = os.environ["VERIF_SYNC_LIBDIR"]
    res = proc.run(cmd, stdin=stdin_of(scs), timeout=timeout, env=env)
    outs = [[] for _ in scs]
    for l in res.out.splitlines():
        i, _, rest = l.partition(" ")
        if i.isdigit() and int(i) < len(scs):
            outs[int(i)].append(rest)
    return res, ["\n".join(o) + "\n" for o in outs]


def run_one(flavour, sc, timeout=300):
    res, outs = run_batch(flavour, [sc], timeout)
    return res, outs[0]


def crashed(res):
    """-> short description when the process died (signal, abort, sanitizer report), else None"""
    reps = proc.sanitizer_reports(res.err)
    if res.rc != 0 or reps:
        first = [l for l in res.err.splitlines() if "Deadlock detected" not in l and l.strip()]
        return "rc=%s %s" % (res.rc, (reps[:1] or first[-3:]))
    return None


def _run_chunk(ctx, flavour, chunk, judge, probes=None):
    if probes:
        # Sanitized processes take seconds to start. probes = ([scenarios of the chunk], key): directed witnesses of an open known
        # finding that kills the process. They are run first, each alone; when one of them reproduces that finding the other
        # scenarios of the chunk are not run at all (they would die the same way: masked), else the rest runs as one batch.
        first, hit = probes
        chunk = [sc for sc in chunk if sc not in first]
        masked = False
        for sc in first:
            r1, o1 = run_one(flavour, sc)
            ctx.evaluation()
            if r1.timed_out:
                ctx.inconclusive("sync harness watchdog (%s)" % flavour)
            elif judge(flavour, sc, r1, o1) == hit:
                masked = True
        if masked:
            ctx.count("scenarios_not_run_on_%s(masked by the open known crash)" % flavour, len(chunk))
            return
    res, outs = run_batch(flavour, chunk)
    if res.timed_out:
        for _ in chunk:
            ctx.evaluation()
            ctx.inconclusive("sync harness watchdog (%s)" % flavour)
        return
    if crashed(res) and len(chunk) > 1:
        # one process runs the whole chunk: find the culprit(s) by running the scenarios one by one
        for sc in chunk:
            r1, o1 = run_one(flavour, sc)
            ctx.evaluation()
            if r1.timed_out:
                ctx.inconclusive("sync harness watchdog (%s)" % flavour)
            else:
                judge(flavour, sc, r1, o1)
        return
    for sc, o in zip(chunk, outs):
        ctx.evaluation()
        judge(flavour, sc, res, o)


def run_many(ctx, groups, judge):
    """groups: [(flavour, scenarios, batch size[, probes])]. The scenarios of a group are run in batches of `batch` per process, all
    processes of all groups on one thread pool (the slow sanitized ones first); judge(flavour, sc, res, out) is called once per
    scenario with the result of a run in which the process did not die, or of a run of that scenario alone.
    probes = ([scenarios of the group, run first and alone], key): see _run_chunk (use it with one batch per group)."""
    tasks = []
    for g in groups:
        flavour, scs, batch = g[:3]
        probes = g[3] if len(g) > 3 else None
        for i in range(0, len(scs), batch):
            tasks.append((flavour, scs[i:i + batch], probes))
    tasks.sort(key=lambda t: (t[0] == "hooks", -len(t[1])))
    ctx.pmap(lambda t: _run_chunk(ctx, t[0], t[1], judge, t[2]), tasks)


def run_all(ctx, flavour, scs, batch, judge):
    run_many(ctx, [(flavour, scs, batch)], judge)


def _timeout(rng, zero):
    r = rng.random()
    if zero and r < 0.30:
        return "0"
    if r < 0.36:
        return "t"
    return str(rng.choice([1, 1, 2, 2, 3, 4]))


def gen_sem(rng):
    na = rng.randint(2, 5)
    ns = rng.choice([1, 1, 1, 2, 3])
    caps = [rng.choice([0, 0, 0, 1, 1, 2, 3]) for _ in range(ns)]
    zero = rng.random() < 0.15          # zero timeouts (exercise the immediate-timeout path)
    kills = rng.random() < 0.20
    scripts = []
    for a in range(na):
        ops = []
        for _ in range(rng.randint(2, 10)):
            s = rng.randrange(ns)
            r = rng.random()
            if r < 0.18:
                ops.append("A%d" % s)
            elif r < 0.42:
                ops.append("T%d:%s" % (s, _timeout(rng, zero)))
            elif r < 0.68:
                ops.append("R%d" % s)
            elif r < 0.76:
                ops.append("C%d" % s)
            elif r < 0.93:
                ops.append("S%d" % rng.choice([1, 1, 2, 2, 3]))
            elif r < 0.97 or not kills:
                ops.append("Y")
            else:
                ops.append("X%d" % rng.choice([x for x in range(na) if x != a]))
        if kills and rng.random() < 0.4:
            ops.insert(rng.randrange(len(ops) + 1), "X%d" % rng.choice([x for x in range(na) if x != a]))
        scripts.append(ops)
    return {"mode": "sem", "caps": caps, "scripts": scripts}


def gen_cv(rng):
    na = rng.randint(2, 5)
    ncv = rng.choice([1, 1, 2])
    zero = rng.random() < 0.15
    scripts = []
    for a in range(na):
        ops = []
        for _ in range(rng.randint(2, 9)):
            v = rng.randrange(ncv)
            r = rng.random()
            if r < 0.14:
                ops += ["W%d" % v] + (["U%d" % v] if rng.random() < 0.7 else [])
            elif r < 0.34:
                t = _timeout(rng, zero)
                if zero and rng.random() < 0.1:
                    t = "n"
                ops += ["F%d:%s" % (v, t)] + (["U%d" % v] if rng.random() < 0.7 else [])
            elif r < 0.40:
                d = str(rng.randint(0, 6)) if zero and rng.random() < 0.5 else "+%d" % rng.randint(1, 4)    # absolute dates may be in the past
                ops += ["G%d:%s" % (v, d)] + (["U%d" % v] if rng.random() < 0.7 else [])
            elif r < 0.58:
                ops += (["L%d" % v, "N%d" % v, "U%d" % v] if rng.random() < 0.5 else ["N%d" % v])
            elif r < 0.68:
                ops += (["L%d" % v, "B%d" % v, "U%d" % v] if rng.random() < 0.5 else ["B%d" % v])
            elif r < 0.74:
                ops.append("L%d" % v)
            elif r < 0.80:
                ops.append("U%d" % v)
            elif r < 0.96:
                ops.append("S%d" % rng.choice([1, 1, 2, 2, 3]))
            else:
                ops.append("Y")
        scripts.append(ops)
    return {"mode": "cv", "ncv": ncv, "scripts": scripts}


def gen_bar(rng, kills=False):
    """kills: some actors also try to kill another one while it is blocked in a barrier wait (X<v>; a no-op when v is not blocked)"""
    na = rng.randint(2, 6)
    nb = rng.choice([1, 1, 2])
    sizes = [rng.choice([1, 2, 2, 3, 3, 4, 5, 6, min(6, na), max(1, na - 1)]) for _ in range(nb)]
    if kills:
        sizes = [max(2, x) for x in sizes]
    scripts = []
    for a in range(na):
        ops = []
        for _ in range(rng.randint(1, 8)):
            r = rng.random()
            if r < 0.55:
                ops.append("B%d" % rng.randrange(nb))
            elif r < 0.85:
                ops.append("S%d" % rng.choice([1, 1, 2, 3]))
            else:
                ops.append("Y")
        if kills and rng.random() < 0.6:
            ops.insert(rng.randrange(1, len(ops) + 1), "X%d" % rng.choice([x for x in range(na) if x != a]))
        scripts.append(ops)
    if kills and not any(o[0] == "X" for sc in scripts for o in sc):
        scripts[0].append("X1")
    return {"mode": "bar", "sizes": sizes, "scripts": scripts}
