"""Generator of the S4U programs run by harness/clock.cpp (C03: time is monotone, events happen exactly at their date).

A scenario is a plain dict (JSON-able, stored as such in witnesses):
  {"cfg": {"cpu_optim": "Lazy"|"Full", "net_optim": "Lazy"|"Full", "prec": float, "host_model": "default"|"ptask_L07"},
   "hosts": [{"name", "speed", "profile": [[date, value], ...]}], "links": [[name, bw, lat]], "routes": [[h, h, link]],
   "disks": [[host, read_bw, write_bw]],
   "actors": [{"host", "kill": None | date, "ops": ["s:0.1", ...]}], "programs": [[ops]], "mops": ["ru:1.0", "run"],
   "solo": bool}          # solo = one actor, blocking ops only, nothing else scheduled: every sleep is alone on the time line

Only programs that respect the API are produced: dates given to timers, kill times and run_until are never in the past when they
are known statically (the harness skips the op when they turn out to be at run time), an actor gets at most one kill time
(set_kill_time twice is C11's stale-timer finding), no suspend/resume, no host or link failure.
"""
import math

PREC = 1e-9


def f(x):
    return repr(float(x))


def durations(prec):
    """Hostile durations: zero, negative (no-op), below / at / around the timing precision, decimal fractions whose sums are not
    representable, thirds, large and huge values."""
    return [0.0, 0.0, -1.0, 1e-12, prec / 2, math.nextafter(prec, 0.0), prec, math.nextafter(prec, 1.0), 2 * prec, 1.5 * prec, 1e-6,
            0.1, 0.1, 0.2, 0.2, 0.3, 0.1 + 0.2, 1.0 / 3.0, 0.7, 1.0, 1.0, 2.5, 1000.0]


# dates reachable in several ways (0.1+0.2 vs 0.3, 0.1+0.7 vs 0.8, three thirds vs 1.0 ...)
DATES = [0.1, 0.2, 0.3, 0.1 + 0.2, 0.4, 0.5, 0.6, 0.1 + 0.2 + 0.3, 0.7, 0.8, 0.1 + 0.7, 1.0, 1.0 / 3 + 1.0 / 3 + 1.0 / 3, 1.1, 1.0 + 0.1 + 0.2, 1.3,
         2.5, 3.5, 1000.0, 1000.1, 1000.3]


def gen_platform(rng, sc, nh):
    speeds = [1e9, 1e9, 1e6, 7.3e8]
    for i in range(nh):
        h = {"name": "h%d" % i, "speed": rng.choice(speeds), "profile": []}
        if rng.random() < 0.2:
            ds = sorted(rng.choice([0.0, 0.45, 0.9] + DATES[:14]) for _ in range(rng.randint(1, 3)))
            h["profile"] = [[d, rng.choice([0.5, 1.0, 0.25])] for d in ds]
        sc["hosts"].append(h)
        sc["disks"].append([h["name"], rng.choice([1e8, 4.2e7]), rng.choice([5e7, 1e6])])
    # one link per pair (and a loopback-free full mesh): every pair can talk
    k = 0
    for i in range(nh):
        for j in range(i + 1, nh):
            ln = "l%d" % k
            k += 1
            sc["links"].append([ln, rng.choice([1e8, 1e6, 1.25e9]), rng.choice([0.0, 1e-4, 1e-2])])
            sc["routes"].append(["h%d" % i, "h%d" % j, ln])


class Script:
    def __init__(self):
        self.ops = []
        self.nslots = 0
        self.open = []      # slots holding an activity (started or not)

    def slot(self):
        self.nslots += 1
        self.open.append(self.nslots - 1)
        return self.nslots - 1


def timed_op(rng, sc, durs, speed, huge):
    """One blocking op that takes time."""
    r = rng.random()
    if r < 0.55:
        return "s:" + f(rng.choice(durs))
    if r < 0.70:
        base = 1e9 if huge else 0.0
        return "u:" + f(base + rng.choice(DATES)) if rng.random() < 0.6 else "ur:" + f(rng.choice(durs))
    if r < 0.88:
        return "x:" + f(speed * max(0.0, rng.choice(durs)))
    return rng.choice(["ir:", "iw:"]) + f(rng.choice([0, 1, 1e6, 1e7, 4.2e6]))


def gen_script(rng, sc, ai, durs, speed, nops, huge, solo, tagbase):
    s = Script()
    if huge:
        s.ops.append(rng.choice(["s:1e9", "u:1e9", "s:1000000000.0"]))
    for j in range(nops):
        r = rng.random()
        if solo or r < 0.50:
            s.ops.append(timed_op(rng, sc, durs, speed, huge))
        elif r < 0.58:
            k = s.slot()
            s.ops.append("%s:%s:%d" % (rng.choice(["xa", "xa", "xi"]), f(speed * max(0.0, rng.choice(durs))), k))
        elif r < 0.62:
            k = s.slot()
            s.ops.append("ia:%s:%s:%d" % (rng.choice("rw"), f(rng.choice([0, 1, 1e6, 1e7])), k))
        elif r < 0.74 and s.open:
            k = rng.choice(s.open)
            o = rng.choice(["w", "w", "ts", "st"])
            s.ops.append("%s:%d" % (o, k))
            if o == "w":
                s.open.remove(k)
        elif r < 0.86:
            tag = "%s%d" % (tagbase, len(s.ops))
            chain = ":" + f(max(0.0, rng.choice(durs))) if rng.random() < 0.25 else ""
            if rng.random() < 0.5:
                s.ops.append("tr:%s:%s%s" % (f(max(0.0, rng.choice(durs))), tag, chain))
            else:
                s.ops.append("t:%s:%s%s" % (f((1e9 if huge else 0.0) + rng.choice(DATES)), tag, chain))
        elif r < 0.90:
            s.ops.append("y")
        else:
            s.ops.append(timed_op(rng, sc, durs, speed, huge))
    for k in list(s.open):
        if rng.random() < 0.7:
            s.ops.append("w:%d" % k)
    return s


def insert_at_random(rng, ops, new, lo=0):
    pos = rng.randint(lo, len(ops))
    ops.insert(pos, new)
    return pos


def gen(rng, force=None):
    """One random scenario. force: dict overriding the drawn shape (solo, huge, cfg entries)."""
    force = force or {}
    prec = force.get("prec", rng.choice([1e-9] * 8 + [1e-6, 1e-12]))
    cfg = {"cpu_optim": force.get("cpu_optim", rng.choice(["Lazy", "Lazy", "Lazy", "Full", "Full", "TI"])),
           "net_optim": force.get("net_optim", rng.choice(["Lazy", "Lazy", "Full"])),
           "prec": prec,
           "host_model": force.get("host_model", "ptask_L07" if rng.random() < 0.06 else "default")}
    solo = force.get("solo", rng.random() < 0.15)
    huge = force.get("huge", rng.random() < 0.12)
    sc = {"cfg": cfg, "hosts": [], "links": [], "routes": [], "disks": [], "actors": [], "programs": [], "mops": [], "solo": solo}
    durs = durations(prec)
    if huge and rng.random() < 0.5:
        durs = durs + [1e-7, 2e-7, 1e-7]          # around one ulp of 1e9
    if rng.random() < 0.1:
        durs = durs + [1e9, 1e15]
    na = 1 if solo else rng.randint(2, 6)
    nh = 1 if solo else rng.randint(1, 3)
    gen_platform(rng, sc, nh)
    if solo or cfg["cpu_optim"] == "TI":          # (the TI CPU model only takes repeating profiles)
        for h in sc["hosts"]:
            h["profile"] = []
    if cfg["host_model"] == "ptask_L07":
        cfg["cpu_optim"] = "Lazy"          # ignored by ptask_L07, which has its own (full) update
    scripts = []
    for a in range(na):
        h = sc["hosts"][rng.randrange(nh)]
        s = gen_script(rng, sc, a, durs, h["speed"], rng.randint(4, 14), huge, solo, "a%do" % a)
        scripts.append(s)
        sc["actors"].append({"host": h["name"], "kill": None, "ops": s.ops})
    if not solo:
        # child programs + spawn ops
        if rng.random() < 0.35:
            for p in range(rng.randint(1, 2)):
                ps = gen_script(rng, sc, 100 + p, durs, 1e9, rng.randint(2, 6), False, False, "p%do" % p)
                sc["programs"].append(ps.ops)
            for _ in range(rng.randint(1, 3)):
                a = rng.randrange(na)
                kd = "-" if rng.random() < 0.5 else f(rng.choice([x for x in durs if x > 0]))
                insert_at_random(rng, sc["actors"][a]["ops"], "sp:%d:%s:%s" % (rng.randrange(len(sc["programs"])), sc["hosts"][rng.randrange(nh)]["name"], kd),
                                 1 if huge else 0)
        # communications: per mailbox one sender, one receiver, the same number of puts and gets
        for m in range(rng.randint(0, 3)):
            a, b = rng.sample(range(na), 2) if na >= 2 else (0, 0)
            for _ in range(rng.randint(1, 3)):
                size = f(rng.choice([0, 1, 1e3, 1e6, 1e7, 123457]))
                if rng.random() < 0.5:
                    insert_at_random(rng, sc["actors"][a]["ops"], "p:m%d:%s" % (m, size), 1 if huge else 0)
                else:
                    k = scripts[a].slot()
                    pos = insert_at_random(rng, sc["actors"][a]["ops"], "pa:m%d:%s:%d" % (m, size, k), 1 if huge else 0)
                    if rng.random() < 0.8:
                        insert_at_random(rng, sc["actors"][a]["ops"], "w:%d" % k, pos + 1)
                if rng.random() < 0.5:
                    insert_at_random(rng, sc["actors"][b]["ops"], "g:m%d" % m, 1 if huge else 0)
                else:
                    k = scripts[b].slot()
                    pos = insert_at_random(rng, sc["actors"][b]["ops"], "ga:m%d:%d" % (m, k), 1 if huge else 0)
                    if rng.random() < 0.8:
                        insert_at_random(rng, sc["actors"][b]["ops"], rng.choice(["w:%d", "w:%d", "ts:%d"]) % k, pos + 1)
        # kill times: at most one per actor, either given at creation or set later by some actor (possibly itself)
        base = 1e9 if huge else 0.0
        for a in range(na):
            r = rng.random()
            if r < 0.15:
                sc["actors"][a]["kill"] = base + rng.choice(DATES)
            elif r < 0.30:
                by = rng.randrange(na)
                if rng.random() < 0.5:
                    op = "k:%d:%s" % (a, f(base + rng.choice(DATES)))
                else:
                    op = "kr:%d:%s" % (a, f(rng.choice([x for x in durs if x > 0])))
                insert_at_random(rng, sc["actors"][by]["ops"], op, 1 if huge else 0)
        # what maestro does
        if rng.random() < 0.4:
            dates = sorted(base + rng.choice(DATES + [0.999995, 0.3 - 5e-6]) for _ in range(rng.randint(1, 3)))      # (the same date twice is fine)
            prev = 0.0
            for i, d in enumerate(dates):
                if rng.random() < 0.5:
                    sc["mops"].append("tm:%s:m%d" % (f(rng.choice([prev, d, (prev + d) / 2])), i))
                sc["mops"].append("ru:" + f(d))
                prev = d
            if rng.random() < 0.5:
                sc["mops"].append("tm:%s:mz" % f(prev + rng.choice([0.0, 0.1, 1e-9, 1e-12])))
    sc["mops"].append("run")
    return sc


def to_text(sc, sid):
    """Serialisation read by harness/clock.cpp."""
    c = sc["cfg"]
    cfg = []
    if c.get("cpu_optim", "Lazy") != "Lazy":
        cfg.append("--cfg=cpu/optim:" + c["cpu_optim"])
    if c.get("net_optim", "Lazy") != "Lazy":
        cfg.append("--cfg=network/optim:" + c["net_optim"])
    if c.get("prec", PREC) != PREC:
        cfg.append("--cfg=precision/timing:" + f(c["prec"]))
    if c.get("host_model", "default") != "default":
        cfg.append("--cfg=host/model:" + c["host_model"])
    cfg += c.get("extra", [])
    out = ["S %s" % sid]
    if cfg:
        out.append("C " + " ".join(cfg))
    for h in sc["hosts"]:
        prof = ":".join("%s=%s" % (f(d), f(v)) for d, v in h.get("profile", [])) or "-"
        out.append("H %s %s %s" % (h["name"], f(h["speed"]), prof))
    for l in sc["links"]:
        out.append("L %s %s %s" % (l[0], f(l[1]), f(l[2])))
    for r in sc["routes"]:
        out.append("R %s %s %s" % tuple(r))
    for d in sc["disks"]:
        out.append("K %s %s %s" % (d[0], f(d[1]), f(d[2])))
    for a in sc["actors"]:
        out.append("A %s %s | %s" % (a["host"], "-" if a.get("kill") is None else f(a["kill"]), " ".join(a["ops"])))
    for p in sc["programs"]:
        out.append("P | " + " ".join(p))
    out.append("M " + " ".join(sc["mops"]))
    out.append("E")
    return "\n".join(out) + "\n"
