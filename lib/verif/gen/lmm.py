"""Shared driver of harness/lmm_fuzz.cpp (engine E2) for C15-C18."""
from fractions import Fraction as F

from verif import build, proc


def run_fuzz(ctx, flavour, seed, nhist, limit, solver, dump=False, trace_h=None, timeout=600, nofat=False):
    exe = build.harness("lmm_fuzz.cpp", flavour, internal=True)
    cmd = [exe, str(seed), str(nhist), str(limit), solver] + (["dump"] if dump else [])
    env = {"TRACE_H": str(trace_h)} if trace_h is not None else {}
    if nofat:
        env["NOFAT"] = "1"
    res = proc.run(cmd, timeout=timeout, env=env)
    return res


def parse(res):
    """-> dict(events=[(kind, fields...)], hist={h: (solves, multi, staged)}, sum={...}, dumps=[...], complete=bool)"""
    ev, hist, dumps, summ, trace = [], {}, [], None, []
    lines = res.out.splitlines()
    k = 0
    while k < len(lines):
        t = lines[k].split()
        k += 1
        if not t:
            continue
        if t[0] in ("CAP", "NEG", "OVERBOUND", "PEN0"):
            ev.append({"kind": t[0], "sys": t[1], "h": int(t[2]), "step": int(t[3]), "rest": " ".join(t[4:])})
        elif t[0] == "MISMATCH":
            ev.append({"kind": "MISMATCH", "sys": "A", "h": int(t[1]), "step": int(t[2]), "rest": " ".join(t[3:])})
        elif t[0] == "CONC":
            ev.append({"kind": "CONC", "sub": t[1], "h": int(t[2]), "step": int(t[3]), "rest": " ".join(t[4:]),
                       "after": t[-1].split("=")[1]})
        elif t[0] == "H":
            hist[int(t[1])] = (int(t[2]), int(t[3]), int(t[4]))
        elif t[0] == "T":
            trace.append(lines[k - 1])
        elif t[0] == "SUM":
            summ = dict(x.split("=") for x in t[1:])
        elif t[0] == "SYS":
            nc, nv, h, step = int(t[1]), int(t[2]), int(t[3]), int(t[4])
            cons = []
            for _ in range(nc):
                c = lines[k].split(); k += 1
                cons.append((c[1], int(c[2])))
            vars_ = []
            for _ in range(nv):
                v = lines[k].split(); k += 1
                vars_.append((v[1], v[2], v[3:]))
            r = [float(x) for x in lines[k].split()[1:]]; k += 1
            dumps.append({"h": h, "step": step, "cons": cons, "vars": vars_, "res": r})
    return {"events": ev, "hist": hist, "sum": summ, "dumps": dumps, "trace": trace, "complete": summ is not None and res.rc == 0}


def exact_maxmin(cons, vars_):
    """Exact rational weighted progressive filling. cons: [(bound, fat)], vars_: [(pen, bound, [w...])] as Fractions.
    Returns (values, min_gap) where min_gap is the smallest relative gap between two successive filling levels (None if <2)."""
    n = len(vars_)
    val = [None] * n
    active = [i for i, (p, b, w) in enumerate(vars_) if p > 0 and any(x > 0 for x in w)]
    for i in range(n):
        if i not in active:
            val[i] = F(0)
    rem = [F(b) for b, _ in cons]
    levels = []
    while active:
        best = None
        for c, (b, fat) in enumerate(cons):
            us = [(i, vars_[i][2][c] / vars_[i][0]) for i in active if vars_[i][2][c] > 0]
            if not us:
                continue
            lam = F(cons[c][0]) / max(u for _, u in us) if fat else rem[c] / sum(u for _, u in us)
            if best is None or lam < best[0]:
                best = (lam, [("c", c)])
            elif lam == best[0]:
                best[1].append(("c", c))
        for i in active:
            p, b, w = vars_[i]
            if b > 0:
                lam = b * p
                if best is None or lam < best[0]:
                    best = (lam, [("v", i)])
                elif lam == best[0]:
                    best[1].append(("v", i))
        if best is None:
            break
        lam, who = best
        levels.append(lam)
        frozen = set()
        for kind, x in who:
            if kind == "v":
                frozen.add(x)
            else:
                for i in active:
                    if vars_[i][2][x] > 0:
                        frozen.add(i)
        for i in frozen:
            val[i] = lam / vars_[i][0]
            for c, (b, fat) in enumerate(cons):
                if not fat:
                    rem[c] -= vars_[i][2][c] * val[i]
        active = [i for i in active if i not in frozen]
    return val, levels


def witness(seed, nhist, limit, solver, flavour, e):
    return {"seed": seed, "nhist": nhist, "limit": limit, "solver": solver, "flavour": flavour, "hist": e["h"], "step": e["step"], "event": e}
