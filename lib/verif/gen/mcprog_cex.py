"""Generator used by C41 and C14 (private copy of gen/mcprog.py, which is shared with C38/C40 and frozen; same language,
bound to oracles/cex_ref.py, plus `directed()` programs and `sized_failing()`).

Generator of small synchronisation programs for the model-checker engine (E6): <=4 actors x <=8 ops (C41) or <=5 x <=12
(C14) over mutexes, semaphores, condition variables, barriers, mailboxes, actor create/join and MC_random, in the spec
language of harness/mc_vm_cex.py (see there for the op list; oracles/cex_ref.py holds the parser and the reference semantics).

Observations are functions of the Mazurkiewicz trace only: a counter is read/incremented only while its mutex (or
binary-disciplined semaphore) is held - the VM enforces it dynamically (O/o are skipped when the object is not held),
try_lock answers, received values, MC_random values and timed-wait answers are results of visible transitions.
Programs respect the API contract by construction *and* by the VM's guards (unlock / cond-wait only when the mutex is
held, binary semaphores released only by their holder, everything held is released when an actor ends, joins only on
created actors, each dyn actor created once).  Deadlocks (lock-order inversions, missing posts, unmatched receives,
barriers that never fill) and MC_assert failures are legitimate and wanted behaviours.
"""
from verif.oracles.cex_ref import Program, Ref, parse

FAMILIES = ["mutex", "sem", "cond", "barrier", "mbox", "join", "create", "random"]


def _cs(rng, p, m):
    """critical section on mutex m with an observation, maybe something nested inside"""
    inner = [("O", m, 0)]
    r = rng.random()
    if r < 0.25 and p.nmutex > 1:
        m2 = rng.choice([x for x in range(p.nmutex) if x != m])
        inner += [("L", m2, 0), ("O", m2, 0), ("U", m2, 0)]
    elif r < 0.35 and p.sems:
        s = rng.randrange(len(p.sems))
        inner += [("P", s, 0)] if rng.random() < 0.5 else [("V", s, 0)]
    elif r < 0.45 and p.ncond:
        inner += [("N", rng.randrange(p.ncond), 0)]
    return [("L", m, 0)] + inner + [("U", m, 0)]


def _snippet(rng, p, fam, me, nact, dyn_of):
    if fam == "mutex":
        m = rng.randrange(p.nmutex)
        r = rng.random()
        if r < 0.55:
            return _cs(rng, p, m)
        if r < 0.80:
            # try_lock: observe the answer, and enter the section only when it succeeded
            return [("T", m, 0), ("I", 2, 0), ("O", m, 0), ("U", m, 0)]
        if r < 0.90:
            return [("T", m, 0), ("O", m, 0), ("U", m, 0)]
        return [("L", m, 0), ("O", m, 0)]          # released by the epilogue
    if fam == "sem":
        s = rng.randrange(len(p.sems))
        if p.sems[s][1]:
            return [("P", s, 0), ("o", s, 0), ("V", s, 0)]
        r = rng.random()
        if r < 0.45:
            return [("P", s, 0)]
        if r < 0.9:
            return [("V", s, 0)]
        return [("P", s, 0), ("V", s, 0)]
    if fam == "cond":
        c = rng.randrange(p.ncond)
        m = rng.randrange(p.nmutex)
        r = rng.random()
        if r < 0.40:
            return [("L", m, 0), ("W", c, m), ("O", m, 0), ("U", m, 0)]
        if r < 0.50:
            return [("L", m, 0), ("w", c, m), ("O", m, 0), ("U", m, 0)]
        if r < 0.75:
            return [("L", m, 0), ("O", m, 0), ("N" if rng.random() < 0.6 else "A", c, 0), ("U", m, 0)]
        return [("N" if rng.random() < 0.5 else "A", c, 0)]
    if fam == "barrier":
        return [("R", rng.randrange(len(p.barriers)), 0)]
    if fam == "mbox":
        x = rng.randrange(p.nmbox)
        if rng.random() < 0.5:
            return [("S", x, 10 * me + rng.randrange(3))]
        return [("G", x, 0)]
    if fam == "join":
        others = [a for a in range(nact) if a != me and a not in dyn_of]
        if not others:
            return [("Y", 0, 0)]
        return [("J", rng.choice(others), 0)]
    if fam == "random":
        hi = rng.choice([1, 1, 2])
        return [("Q", 0, hi), ("I", rng.choice([1, 2]), 0)]
    return [("Y", 0, 0)]


def generate(rng, max_actors=4, max_ops=8, families=None, want_failure=None):
    """Returns (Program, families-string). families: iterable restricting the object families."""
    fams = list(families) if families else rng.sample(FAMILIES, rng.choice([1, 1, 2, 2, 3]))
    if "cond" in fams and "mutex" not in fams:
        fams.append("mutex")
    p = Program()
    nact = rng.randint(2, max_actors)
    ndyn = 0
    if "create" in fams:
        ndyn = 1 if nact <= 3 or rng.random() < 0.7 else 2
        nact = max(2, nact - ndyn) + ndyn
    ninit = nact - ndyn
    if "mutex" in fams:
        p.nmutex = rng.choice([1, 1, 2, 2, 3])
    if "sem" in fams:
        for _ in range(rng.choice([1, 1, 2])):
            b = rng.random() < 0.5
            p.sems.append((1, True) if b else (rng.choice([0, 0, 1, 2]), False))
    if "cond" in fams:
        p.ncond = rng.choice([1, 1, 2])
    if "barrier" in fams:
        for _ in range(rng.choice([1, 1, 2])):
            p.barriers.append(rng.choice([2, 2, ninit, max(1, ninit - 1), nact, 1]))
    if "mbox" in fams:
        p.nmbox = rng.choice([1, 1, 2])
    body_fams = [f for f in fams if f != "create"] or ["join"]
    dyn_of = {}                       # dyn actor index -> creator
    for d in range(ninit, nact):
        dyn_of[d] = rng.randrange(ninit)
    actors = []
    for a in range(nact):
        ops = []
        budget = rng.randint(2, max_ops)
        created = [d for d, c in dyn_of.items() if c == a]
        rng.shuffle(created)
        tries = 0
        while len(ops) < budget and tries < 20:
            tries += 1
            if created and rng.random() < 0.5:
                d = created.pop()
                sn = [("K", d, 0)]
            elif rng.random() < 0.06:
                sn = [("Y", 0, 0)]
            else:
                sn = _snippet(rng, p, rng.choice(body_fams), a, nact, dyn_of)
            if len(ops) + len(sn) <= max_ops:
                ops += sn
        for d in created:             # every dyn actor is created
            if len(ops) < max_ops:
                ops.append(("K", d, 0))
            else:
                ops[-1] = ("K", d, 0)
        # the creator may join its child after the creation
        for d, c in dyn_of.items():
            if c == a and len(ops) < max_ops and rng.random() < 0.5:
                ops.append(("J", d, 0))
        # an assertion on the last observation, sometimes
        if rng.random() < (0.25 if want_failure is None else (0.6 if want_failure else 0.0)):
            obs_pos = [i for i, o in enumerate(ops) if o[0] in "OoTGQw"]
            if obs_pos and len(ops) < max_ops:
                i = rng.choice(obs_pos)
                k = ops[i][0]
                v = rng.choice([0, 1, 1, 2]) if k in "Oo" else (rng.choice([0, 1]) if k in "TQw" else rng.choice([0, 10, 11, 20]))
                ops.insert(i + 1, ("E", v, 0))
        if rng.random() < 0.04 and len(ops) < max_ops:
            ops.insert(rng.randrange(len(ops) + 1), ("X", 0, 0))
        actors.append((a >= ninit, ops))
    # a hostile touch: sometimes replace one op by a random one of the same families
    if rng.random() < 0.15:
        a = rng.randrange(nact)
        if actors[a][1]:
            i = rng.randrange(len(actors[a][1]))
            sn = _snippet(rng, p, rng.choice(body_fams), a, nact, dyn_of)
            if actors[a][1][i][0] != "K":
                actors[a][1][i] = sn[0]
    p.actors = actors
    return p, "+".join(sorted(set(fams)))


def families_of(p):
    """Object families actually used by the ops of a program (for violation keys)."""
    f = set()
    for _, ops in p.actors:
        for k, _, _ in ops:
            if k in "LUTO":
                f.add("mutex")
            elif k in "PVo":
                f.add("sem")
            elif k in "WwNA":
                f.add("cond")
            elif k == "R":
                f.add("barrier")
            elif k in "SG":
                f.add("mbox")
            elif k == "J":
                f.add("join")
            elif k == "K":
                f.add("create")
            elif k == "Q":
                f.add("random")
            elif k == "E":
                f.add("assert")
            elif k == "X":
                f.add("exit")
            elif k == "Y":
                f.add("sleep")
    return "+".join(sorted(f))


def sized(rng, max_states=3000, max_paths=None, min_states=8, tries=200, **kw):
    """Generate until the reference state space fits: returns (Program, families, reference-result)."""
    for _ in range(tries):
        p, fam = generate(rng, **kw)
        r = Ref(p).explore(max_states=max_states)
        if not r["complete"] or r["states"] < min_states:
            continue
        if max_paths is not None and (r["paths"] is None or r["paths"] > max_paths):
            continue
        return p, families_of(p), r
    raise RuntimeError("generator could not produce a program within the size bounds")


def sized_failing(rng, want="any", max_states=3000, tries=400, max_clean_paths=2000, max_paths=30000, **kw):
    """A program whose reference state space is complete and contains a reachable failure (want: 'deadlock', 'assert',
    'any') - or none at all (want='clean': simgrid-mc has to explore those completely, so the number of maximal
    interleavings is bounded as well). Returns (Program, families, reference-result) or None."""
    for _ in range(tries):
        p, fam = generate(rng, want_failure=(want != "clean"), **kw)
        r = Ref(p).explore(max_states=max_states)
        if not r["complete"] or r["states"] < 2 or r["paths"] > max_paths:
            continue            # (max_paths: the reductions explore up to one trace per interleaving, e.g. on barriers)
        d, a = bool(r["deadlock"]), bool(r["assert"])
        if want == "clean":
            if not d and not a and r["states"] >= 8 and r["paths"] <= max_clean_paths:
                return p, families_of(p), r
            continue
        if want == "deadlock" and d or want == "assert" and a or want == "any" and (d or a):
            return p, families_of(p), r
    return None


# Hand-written programs that every run executes: (name, spec text).
DIRECTED = [
    ("lock-order", "mutex 2\nactor L0 L1 O1 U1 U0\nactor L1 L0 O0 U0 U1\n"),
    ("lock-order-3", "mutex 3\nactor L0 L1 O1 U1 U0\nactor L1 L2 O2 U2 U1\nactor L2 L0 O0 U0 U2\n"),
    ("first-step-assert", "actor Q0.1 E0\nactor Y\n"),
    ("first-step-assert-times1", "actor Q0.1 E1\nactor Y\n"),
    ("second-step-assert", "actor Y Q0.2 E2\nactor Y\n"),
    ("counter-assert", "mutex 1\nactor L0 O0 E1 U0\nactor L0 O0 E1 U0\n"),
    ("sem-missing-post", "sem 0\nactor P0 V0\nactor P0\nactor V0\n"),
    ("lost-signal", "mutex 1\ncond 1\nactor L0 W0.0 O0 U0\nactor L0 O0 N0 U0\n"),
    ("timed-wait", "mutex 1\ncond 1\nactor L0 w0.0 E1 O0 U0\nactor L0 O0 N0 U0\n"),
    ("barrier-short", "barrier 3\nactor R0 R0\nactor R0\nactor R0 R0\n"),
    ("mbox-unmatched", "mbox 1\nactor S0.7 S0.8\nactor G0 E8\nactor G0 E8 G0\n"),
    ("join-create", "mutex 1\nactor K2 L0 O0 U0 J2 J1\nactor L0 O0 E1 U0\ndyn L0 O0 E2 U0\n"),
    ("trylock", "mutex 1\nactor T0 I2 O0 U0 L0 O0 E1 U0\nactor T0 E0 O0 U0\n"),
    ("binary-sem", "sem 1b\nactor P0 o0 E1 V0\nactor P0 o0 E1 V0\nactor P0 P0\n"),
]


def directed():
    return [(name, parse(text)) for name, text in DIRECTED]
