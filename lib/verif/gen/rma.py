"""Generator of valid MPI one-sided programs for C34 (see verif.oracles.rma for the program format).

Only programs whose outcome MPI defines are produced:
 * fence / PSCW epochs: within an epoch a window element is either read by Gets only, or written by exactly one Put, or
   updated by Accumulates that all use the same operator, or owned by one origin that issues accumulate-family calls
   (ordered by MPI for one origin and one location);
 * exclusive-lock sections: between two MPI_Win_flush a location is not both put/got and accumulated, nor put twice, nor put
   and got (Get -> flush_local/Rget+Wait -> Put of the same location is fine: the Get is complete);
 * shared locks / lock_all: every hot element has a class for the phase: accumulate-family with one operator (+NO_OP),
   Compare_and_swap (+NO_OP fetches), read-only, or private to one origin;
 * no local load/store of a window inside a phase; windows are dumped between two barriers after the closing synchronisation.
Values are kept small enough that signed types never overflow (unsigned types wrap, as in C)."""
from verif.oracles.rma import ESIZE, typemap, type_elem, span

OPS_INT = ["SUM", "MAX", "MIN", "BAND", "BOR", "BXOR", "LAND", "LOR", "LXOR"]
OPS_UNS = OPS_INT + ["PROD"]
OPS_DBL = ["SUM", "MAX", "MIN", "PROD"]
# profiles that allow exactly one of the constructs for which SMPI has a known defect ("clean" allows none of them)
TRIGGERS = ["t-unlock", "t-cas", "t-mixed", "t-vecacc", "t-gaccrep", "t-fencepscw"]


class G:
    def __init__(self, rng, profile, np_=None):
        self.rng = rng
        self.profile = profile
        self.uid = 0
        self.next_id = {}
        self.next_rq = {}
        self.np = np_ or rng.choice([2, 2, 3, 3, 4, 4, 5, 6, 7, 8])
        self.prog = {"np": self.np, "types": [], "wins": [], "phases": [], "profile": profile}
        # one known-defect trigger at most per program (profiles t-*), so that violation keys name one root cause
        self.unl_flush = profile != "t-unlock"       # flush pending Puts before MPI_Win_unlock
        self.cas_safe = profile != "t-cas"           # flush after every Compare_and_swap before the location is used again
        self.contig_vec = profile == "t-vecacc"      # vector types with stride == blocklength

    # ------------------------------------------------------------------ values
    def uniq(self, et):
        self.uid += 1
        if et == "b":
            return (self.uid * 7 + 1) & 0xff
        return 10000 + 13 * self.uid

    def operand(self, et, op):
        r = self.rng
        if op == "SUM":
            x = r.randint(1, 999)
            return x if et in ("u", "b") or r.random() < 0.7 else -x
        if op == "PROD":
            if et == "d":
                return r.choice([1, -1, 2])
            return r.choice([3, 5, 7, 2, 1, 0]) if r.random() < 0.9 else 0
        if op in ("MAX", "MIN"):
            return r.randint(0, 255) if et == "b" else r.randint(0, 9000)
        if op in ("BAND", "BOR", "BXOR"):
            return r.randint(0, 255) if et == "b" else r.randint(0, 0xffff)
        if op in ("LAND", "LOR", "LXOR"):
            return r.choice([0, 0, 1, 5])
        return self.uniq(et)     # REPLACE / NO_OP

    def ops_for(self, et):
        return {"i": OPS_INT, "l": OPS_INT, "u": OPS_UNS, "b": OPS_UNS, "d": OPS_DBL}[et]

    def new_id(self, r):
        self.next_id[r] = self.next_id.get(r, 0) + 1
        return self.next_id[r]

    def new_rq(self, r):
        self.next_rq[r] = (self.next_rq.get(r, 0) + 1) % 60
        return self.next_rq[r]

    # ------------------------------------------------------------------ windows and types
    def make_windows(self):
        r = self.rng
        for _ in range(r.choice([1, 1, 2, 2, 3])):
            et = r.choice(["i", "i", "l", "d", "b", "u"])
            kind = r.choice(["c", "c", "a", "a", "d"])
            base_n = r.randint(6, 20)
            nelem, du = [], []
            es = ESIZE[et]
            du_all = r.choice([None, None, 1, es])
            for k in range(self.np):
                n = base_n if r.random() < 0.6 else r.randint(4, 24)
                if r.random() < 0.05 and self.np > 2:
                    n = 0
                nelem.append(n)
                if kind == "d":
                    du.append(1)
                elif du_all:
                    du.append(du_all)
                else:
                    du.append(r.choice({1: [1, 1, 2, 4], 4: [1, 4, 4, 2, 8], 8: [1, 8, 8, 4, 2, 16]}[es]))
            if all(n == 0 for n in nelem):
                nelem[0] = 8
            self.prog["wins"].append({"kind": kind, "et": et, "iv": r.randint(1, 500), "nelem": nelem, "du": du})
        for _ in range(r.randint(0, 4)):
            base = r.choice(self.prog["wins"])["et"]
            k = r.choice(["contig", "vector", "vector", "indexed"])
            if k == "contig":
                a = [r.randint(1, 4)]
            elif k == "vector":
                b = r.randint(1, 2)
                a = [r.randint(1, 3), b, b + r.randint(0 if self.contig_vec else 1, 2)]
            else:
                a, d = [], 0
                for _ in range(r.randint(1, 3)):
                    bl = r.randint(1, 2)
                    a.append([bl, d])
                    d += bl + r.randint(0, 2)
            self.prog["types"].append({"base": base, "kind": k, "args": a})
        if self.contig_vec:
            self.prog["types"].append({"base": self.prog["wins"][0]["et"], "kind": "vector", "args": [r.randint(1, 2), 2, 2]})

    def trefs(self, et, allow_bytes):
        out = ["e", "e", "e"]
        out += [str(i) for i, t in enumerate(self.prog["types"]) if t["base"] == et]
        if allow_bytes:
            out.append("y")
        return out

    def aligned(self, w, t, idx):
        win = self.prog["wins"][w]
        return (idx * ESIZE[win["et"]]) % win["du"][t] == 0

    def region(self, w, t, allow_bytes=False, near=None, maxn=6, want1=False):
        """Pick (idx, tt, tc, locs): a typed region inside the window of rank t; None if impossible."""
        r = self.rng
        win = self.prog["wins"][w]
        et, n = win["et"], win["nelem"][t]
        for _ in range(12):
            tt = "e" if want1 else r.choice(self.trefs(et, allow_bytes))
            if want1:
                tc = 1
            elif tt == "y":
                tc = ESIZE[et] * r.randint(0, 3)
            elif tt == "e":
                tc = r.choice([0, 1, 1, 1, 2, 3, 4])
            else:
                tc = r.choice([0, 1, 1, 1, 2])
            offs = typemap(self.prog["types"], tt, tc, et)
            if len(offs) > maxn:
                continue
            sp = span(offs)
            if sp > n or (n == 0 and tc != 0):
                continue
            if n == 0:
                cands = [0]
            else:
                cands = [i for i in range(0, n - sp + 1) if self.aligned(w, t, i)]
            if near is not None and offs:
                c2 = [i for i in cands if any(i + o == near for o in offs)]
                cands = c2 or cands
            if not cands:
                continue
            idx = r.choice(cands)
            return idx, tt, tc, [idx + o for o in offs]
        return None

    def origin(self, et, tt, nloc):
        """(ot, oc, map, olen) for an origin/result buffer carrying nloc elements."""
        r = self.rng
        if tt == "y":
            return "y", nloc * ESIZE[et], list(range(nloc)), nloc + r.randint(0, 2)
        cands = [("e", nloc)]
        for i, t in enumerate(self.prog["types"]):
            if t["base"] != et:
                continue
            one, _ = type_elem(self.prog["types"], str(i))
            if nloc and len(one) and nloc % len(one) == 0 and nloc // len(one) <= 3:
                cands.append((str(i), nloc // len(one)))
            if nloc == 0:
                cands.append((str(i), 0))
        ot, oc = r.choice(cands)
        m = typemap(self.prog["types"], ot, oc, et)
        return ot, oc, m, span(m) + r.randint(0, 2)

    # ------------------------------------------------------------------ single calls
    def mk_put(self, rank, w, t, reg, vals_for=None):
        idx, tt, tc, locs = reg
        et = self.prog["wins"][w]["et"]
        ot, oc, m, olen = self.origin(et, tt, len(locs))
        vals = [self.uniq(et) for _ in range(olen)]
        if vals_for:
            for j, x in enumerate(m):
                vals[x] = vals_for[j]
        return {"o": "PUT", "w": w, "t": t, "idx": idx, "tc": tc, "tt": tt, "oc": oc, "ot": ot, "vals": vals}

    def mk_get(self, rank, w, t, reg):
        idx, tt, tc, locs = reg
        et = self.prog["wins"][w]["et"]
        ot, oc, m, rlen = self.origin(et, tt, len(locs))
        return {"o": "GET", "id": self.new_id(rank), "w": w, "t": t, "idx": idx, "tc": tc, "tt": tt, "oc": oc, "ot": ot,
                "rlen": rlen, "_map": m}

    def mk_acc(self, rank, w, t, reg, op):
        idx, tt, tc, locs = reg
        et = self.prog["wins"][w]["et"]
        ot, oc, m, olen = self.origin(et, tt, len(locs))
        vals = [self.operand(et, op) for _ in range(olen)]
        return {"o": "ACC", "w": w, "t": t, "idx": idx, "tc": tc, "tt": tt, "oc": oc, "ot": ot, "op": op, "vals": vals}

    def mk_gacc(self, rank, w, t, reg, op):
        idx, tt, tc, locs = reg
        et = self.prog["wins"][w]["et"]
        ot, oc, m, olen = self.origin(et, tt, len(locs))
        rt, rc, rm, rlen = self.origin(et, tt, len(locs))
        vals = [self.operand(et, op) for _ in range(olen)]
        if op == "NO_OP" and self.rng.random() < 0.5:
            oc, vals = 0, []      # MPI: origin arguments are ignored with MPI_NO_OP
        return {"o": "GACC", "id": self.new_id(rank), "w": w, "t": t, "idx": idx, "tc": tc, "tt": tt, "oc": oc, "ot": ot,
                "rc": rc, "rt": rt, "rlen": rlen, "op": op, "vals": vals, "_map": rm}

    def mk_fop(self, rank, w, t, idx, op):
        et = self.prog["wins"][w]["et"]
        return {"o": "FOP", "id": self.new_id(rank), "w": w, "t": t, "idx": idx, "op": op, "val": self.operand(et, op)}

    def mk_cas(self, rank, w, t, idx, cmp):
        et = self.prog["wins"][w]["et"]
        return {"o": "CAS", "id": self.new_id(rank), "w": w, "t": t, "idx": idx, "new": self.uniq(et), "cmp": cmp}

    def shows(self, ops):
        return [{"o": "SHOW", "id": o["id"]} for o in ops if "id" in o and o["o"] in ("GET", "GACC", "FOP", "CAS")]

    def targets(self, w):
        return [t for t in range(self.np) if self.prog["wins"][w]["nelem"][t] > 0]

    # ------------------------------------------------------------------ conflict-free epoch (fence, pscw)
    def epoch_ops(self, w, pairs, nops):
        """Random conflict-free calls; pairs = allowed (origin, target) couples.  Returns {origin: [ops]}."""
        r = self.rng
        win = self.prog["wins"][w]
        et = win["et"]
        use = {}
        out = {}
        hot = {}
        for _ in range(nops):
            o, t = r.choice(pairs)
            kind = r.choice(["PUT", "PUT", "GET", "GET", "ACC", "ACC", "GACC", "FOP", "CAS"])
            if kind == "CAS" and et == "d":
                kind = "FOP"
            near = hot.get(t) if r.random() < 0.6 else None
            if kind in ("FOP", "CAS"):
                reg = self.region(w, t, near=near, want1=True)
            else:
                reg = self.region(w, t, allow_bytes=kind in ("PUT", "GET"), near=near)
            if reg is None:
                continue
            locs = [(t, e) for e in reg[3]]
            if locs and t not in hot:
                hot[t] = reg[3][0]
            st = [use.get(l) for l in locs]
            if kind == "PUT":
                if any(s is not None for s in st) or len(set(locs)) != len(locs):
                    continue
                for l in locs:
                    use[l] = ("W",)
                op = self.mk_put(o, w, t, reg)
            elif kind == "GET":
                if any(s not in (None, ("R",)) for s in st):
                    continue
                for l in locs:
                    use[l] = ("R",)
                op = self.mk_get(o, w, t, reg)
            elif kind == "ACC":
                opn = r.choice(self.ops_for(et) + ["REPLACE"])
                # same operator from anybody (commutative), or an origin that owns the location
                want = ("A", opn) if opn != "REPLACE" else ("O", o)
                own = ("O", o)
                if all(s in (None, want) for s in st):
                    tag = want
                elif all(s in (None, own) for s in st):
                    tag = own
                else:
                    continue
                if len(set(locs)) != len(locs):
                    continue
                for l in locs:
                    use[l] = tag
                op = self.mk_acc(o, w, t, reg, opn)
            else:
                own = ("O", o)
                if any(s not in (None, own) for s in st):
                    continue
                for l in locs:
                    use[l] = own
                if kind == "GACC":
                    op = self.mk_gacc(o, w, t, reg, r.choice(self.ops_for(et) + ["REPLACE", "NO_OP", "NO_OP"]))
                elif kind == "FOP":
                    op = self.mk_fop(o, w, t, reg[0], r.choice(self.ops_for(et) + ["REPLACE", "NO_OP"]))
                else:
                    cur = r.choice([self.uniq(et), None])
                    op = self.mk_cas(o, w, t, reg[0], cur if cur is not None else self.guess(w, t, reg[0]))
                    for l in locs:
                        use[l] = ("X",)      # nothing else on this element in the epoch
            out.setdefault(o, []).append(op)
        return out

    def guess(self, w, t, idx):
        """A compare value that often matches: the initial content of the element."""
        from verif.oracles.rma import initval
        return initval(self.prog["wins"][w], t, idx)

    def phase_fence(self, w, nep=None, last=None):
        r = self.rng
        tg = self.targets(w)
        pairs = [(o, t) for o in range(self.np) for t in tg]
        nep = nep or r.choice([1, 1, 2, 2, 3])
        first = 4 if r.random() < 0.4 else 0          # MPI_MODE_NOPRECEDE
        if last is None:
            last = 8 if r.random() < 0.4 else 0       # MPI_MODE_NOSUCCEED
        ranks = {q: [{"o": "FENCE", "w": w, "a": first}] for q in range(self.np)}
        for e in range(nep):
            ops = self.epoch_ops(w, pairs, r.randint(2, 3 * self.np))
            for q in range(self.np):
                ranks[q] += ops.get(q, [])
                ranks[q].append({"o": "FENCE", "w": w, "a": last if e == nep - 1 else 0})
        for q in range(self.np):
            ranks[q] += self.shows(ranks[q])
        return {"kind": "fence", "w": w, "ranks": {str(q): ranks[q] for q in ranks}}

    def phase_pscw(self, w, both=False):
        r = self.rng
        tg = self.targets(w)
        origins = [q for q in range(self.np) if r.random() < 0.6] or [r.randrange(self.np)]
        acc = {}
        for o in origins:
            k = r.randint(1, min(3, len(tg)))
            acc[o] = sorted(r.sample(tg, k))
            if r.random() < 0.8 and len(tg) > 1:
                acc[o] = [t for t in acc[o] if t != o] or acc[o]
        if both:      # two ranks exposing their window to each other
            a, b = r.sample(tg, 2) if len(tg) >= 2 else (tg[0], tg[0])
            acc[a] = sorted(set(acc.get(a, []) + [b]))
            acc[b] = sorted(set(acc.get(b, []) + [a]))
        exp = {}
        for o, ts in acc.items():
            for t in ts:
                exp.setdefault(t, []).append(o)
        pairs = [(o, t) for o, ts in acc.items() for t in ts]
        ops = self.epoch_ops(w, pairs, r.randint(2, 3 * len(pairs) + 2))
        ranks = {}
        for q in range(self.np):
            l = []
            if q in exp:
                g = list(exp[q])
                r.shuffle(g)
                l.append({"o": "POST", "w": w, "g": g})
            if q in acc:
                g = list(acc[q])
                r.shuffle(g)
                l.append({"o": "START", "w": w, "g": g})
                l += ops.get(q, [])
                l.append({"o": "COMPLETE", "w": w})
            if q in exp:
                l.append({"o": "WAIT", "w": w})
            l += self.shows(l)
            if l:
                ranks[str(q)] = l
        return {"kind": "pscw", "w": w, "ranks": ranks}

    # ------------------------------------------------------------------ exclusive sections
    def hot_elems(self, w, t, k):
        n = self.prog["wins"][w]["nelem"][t]
        c = [i for i in range(n) if self.aligned(w, t, i)]
        self.rng.shuffle(c)
        return sorted(c[:k])

    def section(self, rank, w, t, hot, force_flush=None):
        """Body of one exclusive section on target t (without lock/unlock)."""
        r = self.rng
        et = self.prog["wins"][w]["et"]
        ops = []
        use = {}        # element -> 'pg' | 'acc' since the last flush
        unflushed = False

        def need(elems, cls):
            nonlocal use
            if any(use.get(e) not in (None,) and not (cls == "acc" and use.get(e) == "acc") for e in elems):
                ops.append({"o": "FLUSH", "w": w, "t": t})
                use = {}
            for e in elems:
                use[e] = cls

        for _ in range(r.choice([1, 1, 2, 2, 3])):
            h = r.choice(hot)
            tpl = r.choice(["rmw", "rmw", "rmw", "fop", "gacc", "cas", "blind", "acc", "casf"])
            if et == "d" and tpl in ("cas", "casf"):
                tpl = "fop"
            if tpl == "rmw":
                reg = self.region(w, t, near=h, maxn=4)
                if reg is None or not reg[3] or len(set(reg[3])) != len(reg[3]):
                    continue
                need(reg[3], "pg")
                g = self.mk_get(rank, w, t, reg)
                how = r.choice(["FLUSH", "FLUSHL", "RGET", "FLUSHALL", "FLUSHLALL"])
                if how == "RGET":
                    g["rq"] = self.new_rq(rank)
                    ops += [g, {"o": "WAITRQ", "rq": g["rq"]}]
                elif how in ("FLUSH", "FLUSHL"):
                    ops += [g, {"o": how, "w": w, "t": t}]
                else:
                    ops += [g, {"o": how, "w": w}]
                c = r.randint(1, 500)
                newv = [["@", g["id"], g["_map"][j], c] for j in range(len(reg[3]))]
                p = self.mk_put(rank, w, t, (reg[0], reg[1], reg[2], reg[3]), vals_for=newv)
                if r.random() < 0.2:
                    p["rq"] = self.new_rq(rank)
                    ops += [p, {"o": "WAITRQ", "rq": p["rq"]}]
                else:
                    ops.append(p)
                unflushed = True
            elif tpl == "fop":
                need([h], "acc")
                ops.append(self.mk_fop(rank, w, t, h, r.choice(self.ops_for(et) + ["REPLACE", "REPLACE", "SUM", "NO_OP"])))
            elif tpl == "gacc":
                reg = self.region(w, t, near=h, maxn=4)
                if reg is None or len(set(reg[3])) != len(reg[3]):
                    continue
                need(reg[3], "acc")
                ops.append(self.mk_gacc(rank, w, t, reg, r.choice(self.ops_for(et) + ["REPLACE", "REPLACE", "NO_OP"])))
            elif tpl == "acc":
                reg = self.region(w, t, near=h, maxn=4)
                if reg is None or len(set(reg[3])) != len(reg[3]):
                    continue
                need(reg[3], "acc")
                ops.append(self.mk_acc(rank, w, t, reg, r.choice(self.ops_for(et) + ["REPLACE"])))
            elif tpl == "cas":
                need([h], "acc")
                ops.append(self.mk_cas(rank, w, t, h, self.guess(w, t, h)))
                unflushed = True
                if self.cas_safe:
                    use[h] = "cas"
            elif tpl == "casf":     # fetch with NO_OP, then compare-and-swap with the fetched value: always succeeds
                need([h], "acc")
                f = self.mk_fop(rank, w, t, h, "NO_OP")
                ops += [f, {"o": "FLUSHL", "w": w, "t": t}, self.mk_cas(rank, w, t, h, ["@", f["id"], 0, 0])]
                unflushed = True
                if self.cas_safe:
                    use[h] = "cas"
            else:                   # blind put of fresh values + get of another element
                reg = self.region(w, t, near=h, maxn=3)
                if reg is None or len(set(reg[3])) != len(reg[3]):
                    continue
                need(reg[3], "pg")
                ops.append(self.mk_put(rank, w, t, reg))
                unflushed = True
                others = [e for e in hot if e not in reg[3] and use.get(e) in (None,)]
                if others:
                    e = r.choice(others)
                    use[e] = "pg"
                    ops.append(self.mk_get(rank, w, t, (e, "e", 1, [e])))
        flush = self.unl_flush if force_flush is None else force_flush
        if flush and unflushed:
            ops.append({"o": r.choice(["FLUSH", "FLUSH", "FLUSHALL"]), "w": w, "t": t})
        elif r.random() < 0.2:
            ops.append({"o": "FLUSHL", "w": w, "t": t})
        return ops

    def phase_excl(self, w):
        r = self.rng
        tg = self.targets(w)
        hot_t = r.sample(tg, min(len(tg), r.choice([1, 1, 2])))
        hot = {t: self.hot_elems(w, t, r.choice([1, 2, 3])) for t in hot_t}
        ranks = {}
        for q in range(self.np):
            if r.random() < 0.15 and self.np > 2:
                continue
            l = []
            for _ in range(r.choice([1, 1, 2, 3])):
                if r.random() < 0.5:
                    l.append({"o": "DELAY", "us": r.choice([10, 500, 2000, 5000, 10000, 30000])})
                ts = [r.choice(hot_t)]
                if len(hot_t) > 1 and r.random() < 0.15:
                    ts = sorted(hot_t)          # two locks held, ascending order: no deadlock
                for t in ts:
                    l.append({"o": "LOCK", "w": w, "lt": "x", "t": t})
                for t in ts:
                    l += self.section(q, w, t, hot[t])
                for t in reversed(ts):
                    l.append({"o": "UNLOCK", "w": w, "t": t})
            l += self.shows(l)
            ranks[str(q)] = l
        return {"kind": "excl", "w": w, "ranks": ranks}

    # ------------------------------------------------------------------ shared locks
    def phase_shared(self, w):
        r = self.rng
        et = self.prog["wins"][w]["et"]
        tg = self.targets(w)
        hot_t = r.sample(tg, min(len(tg), r.choice([1, 2, 2])))
        part = [q for q in range(self.np) if r.random() < 0.85] or [0]
        cls = {}
        for t in hot_t:
            for e in self.hot_elems(w, t, r.choice([2, 3, 4])):
                c = r.choice(["A", "A", "A", "REP", "CAS", "R", "W"] if self.profile != "t-gaccrep" else ["REP", "REP", "A"])
                if c == "CAS" and (et == "d" or (self.cas_safe and len(part) > 1)):
                    c = "A"
                if c == "A":
                    cls[(t, e)] = ("A", r.choice(self.ops_for(et)))
                elif c == "REP":
                    # MPI_REPLACE is the one non-commutative operator: plain accumulates and fetching ones together only in t-gaccrep
                    cls[(t, e)] = ("A", "REPLACE", "both" if self.profile == "t-gaccrep" else r.choice(["acc", "fetch"]))
                elif c == "W":
                    cls[(t, e)] = ("W", r.choice(part))
                else:
                    cls[(t, e)] = (c,)
        ranks = {}
        for q in part:
            l = []
            if r.random() < 0.5:
                l.append({"o": "DELAY", "us": r.choice([10, 500, 2000, 5000, 10000])})
            lockall = r.random() < 0.4
            if lockall:
                l.append({"o": "LOCKALL", "w": w})
            else:
                for t in hot_t:
                    l.append({"o": "LOCK", "w": w, "lt": "s", "t": t})
            wstate = {}
            for _ in range(r.randint(1, 6)):
                (t, e), c = r.choice(sorted(cls.items()))
                if c[0] == "A":
                    opn = c[1]
                    k = r.choice(["ACC", "ACC", "FOP", "FOP", "GACC", "NOOP", "MULTI"])
                    mode = c[2] if len(c) > 2 else "both"
                    if mode == "acc":
                        k = r.choice(["ACC", "MULTIA"])
                    elif mode == "fetch":
                        k = r.choice(["FOP", "GACC", "NOOP", "MULTIG"])
                    if k == "ACC":
                        l.append(self.mk_acc(q, w, t, (e, "e", 1, [e]), opn))
                    elif k == "FOP":
                        l.append(self.mk_fop(q, w, t, e, opn))
                    elif k == "GACC":
                        l.append(self.mk_gacc(q, w, t, (e, "e", 1, [e]), opn))
                    elif k == "NOOP":
                        l.append(self.mk_fop(q, w, t, e, "NO_OP"))
                    else:
                        # multi-element accumulate over neighbouring elements of the same class
                        run = [e]
                        while (t, run[-1] + 1) in cls and cls[(t, run[-1] + 1)] == c and len(run) < 3:
                            run.append(run[-1] + 1)
                        reg = (e, "e", len(run), run)
                        if k == "MULTIA" or (k == "MULTI" and r.random() < 0.5):
                            l.append(self.mk_acc(q, w, t, reg, opn))
                        else:
                            l.append(self.mk_gacc(q, w, t, reg, opn))
                elif c[0] == "CAS":
                    if r.random() < 0.3:
                        l.append(self.mk_fop(q, w, t, e, "NO_OP"))
                    else:
                        l.append(self.mk_cas(q, w, t, e, self.guess(w, t, e)))
                        if self.cas_safe:
                            l.append({"o": "FLUSH", "w": w, "t": t})
                elif c[0] == "R":
                    l.append(self.mk_get(q, w, t, (e, "e", 1, [e])))
                elif c[0] == "W" and c[1] == q:
                    if wstate.get((t, e)):
                        l.append({"o": "FLUSH", "w": w, "t": t})
                    wstate[(t, e)] = True
                    if r.random() < 0.5:
                        l.append(self.mk_put(q, w, t, (e, "e", 1, [e])))
                    else:
                        l.append(self.mk_get(q, w, t, (e, "e", 1, [e])))
                if r.random() < 0.2:
                    l.append({"o": r.choice(["FLUSH", "FLUSHL"]), "w": w, "t": r.choice(hot_t)})
                elif r.random() < 0.1:
                    l.append({"o": r.choice(["FLUSHALL", "FLUSHLALL"]), "w": w})
            if lockall:
                l.append({"o": "UNLOCKALL", "w": w})
            else:
                for t in hot_t:
                    l.append({"o": "UNLOCK", "w": w, "t": t})
            l += self.shows(l)
            ranks[str(q)] = l
        return {"kind": "shared", "w": w, "ranks": ranks}

    # ------------------------------------------------------------------ exclusive sections against shared accumulators
    def phase_mixed(self, w):
        r = self.rng
        et = self.prog["wins"][w]["et"]
        tg = self.targets(w)
        t = r.choice(tg)
        hot = self.hot_elems(w, t, r.choice([1, 2]))
        ranks = {}
        roles = [r.choice(["x", "s", "s"]) for _ in range(self.np)]
        if "x" not in roles:
            roles[r.randrange(self.np)] = "x"
        for q in range(self.np):
            l = []
            if r.random() < 0.7:
                l.append({"o": "DELAY", "us": r.choice([10, 500, 2000, 5000, 10000, 30000])})
            if roles[q] == "x":
                for _ in range(r.choice([1, 2])):
                    l.append({"o": "LOCK", "w": w, "lt": "x", "t": t})
                    h = r.choice(hot)
                    g = self.mk_get(q, w, t, (h, "e", 1, [h]))
                    l += [g, {"o": "FLUSH", "w": w, "t": t}]
                    l.append(self.mk_put(q, w, t, (h, "e", 1, [h]), vals_for=[["@", g["id"], g["_map"][0], r.randint(1, 500)]]))
                    l += [{"o": "FLUSH", "w": w, "t": t}, {"o": "UNLOCK", "w": w, "t": t}]
                    if r.random() < 0.5:
                        l.append({"o": "DELAY", "us": r.choice([500, 5000, 20000])})
            else:
                la = r.random() < 0.3
                l.append({"o": "LOCKALL", "w": w} if la else {"o": "LOCK", "w": w, "lt": "s", "t": t})
                for _ in range(r.randint(2, 6)):
                    h = r.choice(hot)
                    l.append(self.mk_acc(q, w, t, (h, "e", 1, [h]), "SUM"))
                l.append({"o": "UNLOCKALL", "w": w} if la else {"o": "UNLOCK", "w": w, "t": t})
            l += self.shows(l)
            ranks[str(q)] = l
        return {"kind": "mixed", "w": w, "ranks": ranks}

    # ------------------------------------------------------------------ whole program
    def program(self, kinds=None):
        self.make_windows()
        r = self.rng
        if kinds is None:
            pool = {"clean": ["fence", "fence", "pscw", "excl", "excl", "shared", "shared"],
                    "t-unlock": ["excl"], "t-cas": ["excl", "shared"], "t-mixed": ["mixed"],
                    "t-vecacc": ["fence", "pscw", "excl", "shared"], "t-gaccrep": ["shared"], "t-fencepscw": []}[self.profile]
            kinds = [r.choice(pool) for _ in range(r.choice([1, 2, 2, 3, 4] if self.profile == "clean" else [1, 1, 2]))] if pool else []
        for k in kinds:
            w = r.randrange(len(self.prog["wins"]))
            self.prog["phases"].append(getattr(self, "phase_" + k)(w))
        if self.profile == "t-fencepscw":
            # fence epochs closed without MPI_MODE_NOSUCCEED, then post/start/complete/wait on the same window
            w = r.randrange(len(self.prog["wins"]))
            self.prog["phases"] = [self.phase_fence(w, nep=1, last=0), self.phase_pscw(w, both=True)]
        else:
            # elsewhere the fence that precedes a PSCW use of the window carries MPI_MODE_NOSUCCEED
            for i, ph in enumerate(self.prog["phases"]):
                if ph["kind"] == "fence" and any(p["kind"] == "pscw" and p["w"] == ph["w"] for p in self.prog["phases"][i + 1:]):
                    for ops in ph["ranks"].values():
                        [o for o in ops if o["o"] == "FENCE"][-1]["a"] = 8
        strip(self.prog)
        return self.prog


def strip(prog):
    for ph in prog["phases"]:
        for ops in ph["ranks"].values():
            for o in ops:
                o.pop("_map", None)


def generate(rng, profile="clean", np_=None, kinds=None):
    return G(rng, profile, np_).program(kinds)
