"""Scenario and fault-schedule generator for C10 (resource failures reach every live participant).

A scenario = platform (2-5 hosts, 1-4 shared links, symmetric routes of 1-3 links, optional disks) + 2-6 scripted actors.
Scripts are produced from a *global* sequence of events appended to the participants' scripts in that order, which makes the
fault-free run deadlock-free (rendez-vous happen in a consistent order; critical sections contain no communication; joins are the
last operation of an actor and only target higher-numbered actors).  The check verifies this on the fault-free run and discards
a scenario whose base run does not terminate cleanly.
"""

EPS = 1e-6
PATHS = "ATMP"       # injector actor, kernel timer, maestro between run_until() calls, state profile


def gen(rng, small=False):
    nh = rng.randint(2, 3 if small else 5)
    nl = rng.randint(1, 3 if small else 4)
    hosts = [{"speed": rng.choice([1e9, 1e9, 2e9]), "disk": 1 if rng.random() < 0.6 else 0} for _ in range(nh)]
    links = [{"bw": rng.choice([1e6, 2e6, 1e7]), "lat": rng.choice([0.0, 1e-3, 1e-3, 0.25])} for _ in range(nl)]
    routes = []
    for a in range(nh):
        for b in range(a + 1, nh):
            k = min(nl, rng.choice([1, 1, 2, 3]))
            routes.append([a, b, rng.sample(range(nl), k)])
    na = rng.randint(2, 4 if small else 6)
    ahost = [rng.randrange(nh) for _ in range(na)]
    if len(set(ahost)) == 1:
        ahost[-1] = (ahost[0] + 1) % nh
    scripts = [[] for _ in range(na)]
    pending = [[] for _ in range(na)]      # handles (op indices) not yet waited for
    insec = [False] * na
    nmutex = rng.choice([0, 1, 1, 2])
    disks = [i for i in range(nh) if hosts[i]["disk"]]

    def flops():
        return rng.choice([5e8, 1e9, 1e9, 2e9, 3e9])

    def nbytes():
        return rng.choice([0, 1, 1e5, 1e6, 1e6, 3e6])

    def iosize():
        return rng.choice([1e6, 5e7, 1e8])

    def local_op(a):
        """exec / sleep / io operation without rendez-vous (usable inside a critical section)"""
        r = rng.random()
        if r < 0.30:
            scripts[a].append(["exec", "%g" % flops()])
        elif r < 0.45:
            scripts[a].append(["rexec", str(rng.randrange(nh)), "%g" % flops()])
        elif r < 0.70 or not disks:
            scripts[a].append(["sleep", "%g" % rng.choice([0.5, 1, 1, 1.5, 2])])
        else:
            scripts[a].append([rng.choice(["read", "write"]), str(rng.choice(disks)), "%g" % iosize()])

    def drain(a, final=False):
        """maybe wait / test / waitany some of the pending handles of actor a"""
        if insec[a]:
            return
        p = pending[a]
        while p:
            r = rng.random()
            if final or r < 0.30:
                if len(p) >= 2 and rng.random() < 0.4:
                    scripts[a].append(["waitany"] + [str(x) for x in p])
                    if final:
                        # we cannot know which one wait_any consumes: wait for each afterwards (consumed handles are skipped)
                        for x in p:
                            scripts[a].append(["wait", str(x)])
                        del p[:]
                    # not final: handles stay pending, the harness skips the consumed one later
                else:
                    x = p.pop(rng.randrange(len(p)))
                    scripts[a].append(["wait", str(x)])
            elif r < 0.45:
                scripts[a].append(["test", str(rng.choice(p))])
                break
            else:
                break
            if not final and rng.random() < 0.5:
                break

    nev = rng.randint(3, 6 if small else 11)
    for _ in range(nev):
        r = rng.random()
        if r < 0.50:
            s, d = rng.sample(range(na), 2)
            mb = "p%d_%d" % (s, d) if rng.random() < 0.7 else "r%d" % d
            if insec[s] or insec[d]:
                continue
            size = "%g" % nbytes()
            ks = rng.choice(["put", "put", "aput", "aput", "dput"])
            kr = rng.choice(["get", "get", "aget"])
            scripts[s].append([ks, mb, size])
            if ks == "aput":
                pending[s].append(len(scripts[s]) - 1)
            scripts[d].append([kr, mb])
            if kr == "aget":
                pending[d].append(len(scripts[d]) - 1)
            drain(s)
            drain(d)
        elif r < 0.62:
            a = rng.randrange(na)
            h = rng.randrange(nh)
            scripts[a].append(["aexec", str(h), "%g" % flops()])
            pending[a].append(len(scripts[a]) - 1)
            drain(a)
        elif r < 0.70 and disks:
            a = rng.randrange(na)
            scripts[a].append([rng.choice(["aread", "awrite"]), str(rng.choice(disks)), "%g" % iosize()])
            pending[a].append(len(scripts[a]) - 1)
            drain(a)
        elif r < 0.80 and nmutex:
            a = rng.randrange(na)
            x = rng.randrange(nmutex)
            scripts[a].append(["lock", str(x)])
            insec[a] = True
            for _ in range(rng.randint(1, 2)):
                local_op(a)
            scripts[a].append(["unlock", str(x)])
            insec[a] = False
            drain(a)
        else:
            a = rng.randrange(na)
            local_op(a)
            drain(a)
    for a in range(na):
        drain(a, final=True)
        if rng.random() < 0.12:
            scripts[a].append(["yield"])
    for a in range(na - 1):
        if rng.random() < 0.25:
            scripts[a].append(["join", str(rng.randrange(a + 1, na))])
    for a in range(na):
        if not scripts[a]:
            scripts[a].append(["sleep", "1"])
    return {"net": rng.choice(["default", "default", "CM02"]), "hosts": hosts, "links": links, "routes": routes, "nmutex": nmutex,
            "actors": [{"host": ahost[a], "ops": scripts[a]} for a in range(na)]}


def to_text(sc, runs):
    out = ["net %s" % sc["net"]]
    for h in sc["hosts"]:
        out.append("host %.17g %d" % (h["speed"], h["disk"]))
    for l in sc["links"]:
        out.append("link %.17g %.17g" % (l["bw"], l["lat"]))
    for a, b, ls in sc["routes"]:
        out.append("route %d %d %s" % (a, b, ",".join(map(str, ls))))
    out.append("mutex %d" % sc["nmutex"])
    for a in sc["actors"]:
        out.append("actor %d" % a["host"])
        for op in a["ops"]:
            out.append(" ".join(op))
        out.append("end")
    for r in runs:
        t = ["run", r["id"], r["path"], str(len(r["faults"]))]
        for f in r["faults"]:
            t += [f["kind"], str(f["idx"]), "%.17g" % f["t_off"], "%.17g" % f["t_on"]]
        out.append(" ".join(t))
    return "\n".join(out) + "\n"


def fault_points(dates):
    """The distinct dates of interest: every event date of the fault-free run, just before, just after, and the middle of
    every interval between two consecutive event dates (mid-activity)."""
    ds = sorted(set(dates))
    pts = set()
    for i, d in enumerate(ds):
        for x in (d - EPS, d, d + EPS):
            if x >= 0:
                pts.add(x)
        if i + 1 < len(ds):
            pts.add((d + ds[i + 1]) / 2)
    return sorted(pts)


def resources(sc):
    return [("H", i) for i in range(len(sc["hosts"]))] + [("L", i) for i in range(len(sc["links"]))]


def single_faults(sc, dates, rng, all_paths, limit=None):
    """Every resource x every fault point. all_paths: one run per injection path; otherwise the path rotates over the enumeration."""
    pts = fault_points(dates)
    runs = []
    n = 0
    for (kind, idx) in resources(sc):
        for t in pts:
            # one fault point in four also turns the resource back on a little later
            t_on = -1.0
            if rng.random() < 0.25:
                later = [d for d in pts if d > t]
                t_on = rng.choice([t + EPS, t + 0.25, t + 1.0] + later[:3])
            for p in (PATHS if all_paths else PATHS[n % len(PATHS)]):
                runs.append({"id": "s%d%s" % (n, p), "path": p, "faults": [{"kind": kind, "idx": idx, "t_off": t, "t_on": t_on}]})
            n += 1
    if limit is not None and len(runs) > limit:
        # deterministic thinning that keeps every resource and every path represented: take every k-th run
        k = len(runs) / float(limit)
        runs = [runs[int(i * k)] for i in range(limit)]
    return runs


def pair_faults(sc, dates, rng, count):
    pts = fault_points(dates)
    res = resources(sc)
    runs = []
    for n in range(count):
        fs = []
        for _ in range(2):
            kind, idx = rng.choice(res)
            t = rng.choice(pts)
            t_on = -1.0
            if rng.random() < 0.3:
                t_on = t + rng.choice([EPS, 0.25, 1.0])
            fs.append({"kind": kind, "idx": idx, "t_off": t, "t_on": t_on})
        if fs[0]["kind"] == fs[1]["kind"] and fs[0]["idx"] == fs[1]["idx"]:
            # same resource twice: keep the intervals disjoint and ordered so that the schedule is meaningful for every path
            fs.sort(key=lambda f: f["t_off"])
            if fs[0]["t_on"] < 0 or fs[0]["t_on"] >= fs[1]["t_off"]:
                fs[0]["t_on"] = (fs[0]["t_off"] + fs[1]["t_off"]) / 2 if fs[1]["t_off"] > fs[0]["t_off"] else -1.0
                if fs[0]["t_on"] < 0:
                    fs = fs[:1]
        p = PATHS[n % len(PATHS)]
        runs.append({"id": "p%d%s" % (n, p), "path": p, "faults": fs})
    return runs


# -- directed cases --------------------------------------------------------------------------------------------------------------
def _sc(hosts, links, routes, actors, nmutex=0, net="default"):
    return {"net": net, "hosts": [{"speed": s, "disk": d} for s, d in hosts], "links": [{"bw": b, "lat": l} for b, l in links],
            "routes": routes, "nmutex": nmutex, "actors": [{"host": h, "ops": [o.split() for o in ops]} for h, ops in actors]}


def _f(kind, idx, t_off, t_on=-1.0):
    return {"kind": kind, "idx": idx, "t_off": t_off, "t_on": t_on}


def _runs(prefix, schedules, paths=PATHS):
    return [{"id": "%s%d%s" % (prefix, i, p), "path": p, "faults": fs} for i, fs in enumerate(schedules) for p in paths]


TWO = ([(1e9, 1), (1e9, 1)], [(1e6, 0.001)], [[0, 1, [0]]])

# (name, scenario, explicit runs or None = full enumeration, flavours)
DIRECTED = [
    # the scenario of design-probes/fail.cpp: blocking put/get, exec, sleep, async put waited later, remote exec, remote disk
    ("probe", _sc([(1e9, 1), (1e9, 1), (1e9, 0)], [(1e6, 0.001), (1e6, 0.001)], [[0, 1, [0]], [0, 2, [1]], [1, 2, [0, 1]]],
                  [(0, ["put m 5e6", "aput m2 3e6", "sleep 1", "wait 1"]), (1, ["get m"]), (1, ["exec 8e9"]), (1, ["sleep 7"]),
                   (2, ["aget m2", "rexec 1 4e9", "wait 0"])]), None, ("hooks", "asan")),
    # wait_any over a comm, a remote exec and a remote read while each of their resources fails
    ("waitany", _sc([(1e9, 1), (1e9, 1), (1e9, 1)], [(1e6, 0.001), (2e6, 0.0)], [[0, 1, [0]], [0, 2, [1]], [1, 2, [0, 1]]],
                    [(0, ["aget a", "aexec 1 2e9", "aexec 2 1e9", "waitany 0 1 2", "waitany 0 1 2", "waitany 0 1 2", "join 1"]),
                     (1, ["sleep 0.5", "put a 1e6", "sleep 1"]), (2, ["lock 0", "sleep 1", "unlock 0"]), (0, ["sleep 0.25", "lock 0", "exec 5e8", "unlock 0"])],
                    nmutex=1), None, ("hooks", "asan")),
    # I/O on the disk of another host which fails during the transfer (and an asynchronous one waited later)
    ("remote-io", _sc(*TWO, actors=[(0, ["read 1 1e8", "sleep 1"]), (0, ["awrite 1 1e8", "sleep 3", "wait 0"])]),
     _runs("io", [[_f("H", 1, 0.5)], [_f("H", 1, 0.5, 0.75)]]), ("hooks",)),
    # a comm that completed before the host of one side failed, waited for afterwards by the other side
    ("completed-comm", _sc(*TWO, actors=[(0, ["aput m 1e5", "sleep 3", "wait 0"]), (1, ["get m"]), (1, ["aget n", "sleep 3", "wait 0"]), (0, ["put n 1e5"])]),
     _runs("cc", [[_f("H", 1, 2.0)], [_f("H", 0, 2.0)], [_f("H", 1, 2.0, 2.5)]]), ("hooks",)),
    # the receiver (last to post, so that the kernel comm points to its s4u::Comm) dies with its host while the comm is running
    ("dangling-iface", _sc(*TWO, actors=[(0, ["aput m 1e6", "sleep 4", "wait 0"]), (1, ["sleep 0.1", "aget m", "sleep 4", "wait 1"])]),
     _runs("di", [[_f("H", 1, 0.5)]]), ("hooks", "asan")),
    # link / host turned off by maestro between two run_until() while one or two comms use it
    ("outside-run", _sc(*TWO, actors=[(0, ["put m 1e6"]), (1, ["get m"]), (0, ["aget n", "wait 0"]), (1, ["put n 1e6"])]),
     _runs("or", [[_f("L", 0, 0.5)], [_f("L", 0, 1.0, 1.5)]], paths="M"), ("hooks",)),
    # test() on activities that failed
    ("test-failed", _sc(*TWO, actors=[(0, ["aput m 1e6", "sleep 2", "test 0", "wait 0"]), (1, ["aget m", "sleep 2", "test 0", "wait 0"]),
                                      (0, ["aexec 1 3e9", "sleep 2", "test 0"]), (0, ["aread 1 1e9", "sleep 2", "test 0"])]),
     _runs("tf", [[_f("L", 0, 0.5)], [_f("H", 1, 0.5)]], paths="AP"), ("hooks",)),
    # detached send in flight when its source host fails (and comes back before the natural end of the transfer)
    ("detached-inflight", _sc(*TWO, actors=[(0, ["dput m 1e6", "sleep 5"]), (1, ["get m"])]),
     _runs("df", [[_f("H", 0, 0.5)], [_f("H", 0, 0.5, 0.6)]], paths="AP"), ("hooks",)),
    # two actors of the failed host blocked on the same comm: both must be killed (the first kill finishes the comm of the second)
    ("same-host-comm", _sc(*TWO, actors=[(1, ["put m 1e5", "sleep 1"]), (1, ["get m", "sleep 1"]), (0, ["sleep 2"])]),
     _runs("sh", [[_f("H", 1, 0.0)], [_f("H", 1, 1e-6)]], paths="TPA"), ("hooks",)),
    # wait_any right after calls that ended with an exception (witness found by the enumeration on seed 3, kept as it is: the crash
    # depends on what the stack contains where the observer of the failed call used to be)
    ("call-after-failed-call",
     {"net": "default", "hosts": [{"speed": 2e9, "disk": 1}, {"speed": 1e9, "disk": 1}], "links": [{"bw": 2e6, "lat": 0.0}], "routes": [[0, 1, [0]]], "nmutex": 1,
      "actors": [{"host": 1, "ops": [["put", "p0_1", "100000"], ["aget", "r0"], ["dput", "p0_1", "1e+06"], ["wait", "1"]]},
                 {"host": 0, "ops": [["get", "p0_1"], ["aexec", "1", "3e+09"], ["put", "r0", "1e+06"], ["aput", "r2", "1e+06"], ["aput", "r2", "1"], ["test", "3"],
                                     ["get", "p0_1"], ["wait", "3"], ["waitany", "1", "4"], ["wait", "1"], ["wait", "4"]]},
                 {"host": 1, "ops": [["aget", "r2"], ["get", "r2"], ["wait", "0"]]}]},
     [{"id": "cfT", "path": "T", "faults": [_f("L", 0, 0.5953614484536083)]}], ("hooks",)),
    # detached send not yet matched when its source host fails; a get comes later
    ("detached-leftover", _sc(*TWO, actors=[(0, ["dput m 1e6", "sleep 5"]), (1, ["sleep 1", "get m"])]),
     _runs("dl", [[_f("H", 0, 0.5)]], paths="AT"), ("hooks",)),
]
