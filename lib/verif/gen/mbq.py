"""Scenario generator for harness/mbq.cpp (C08 mailboxes, C09 message queues).

A scenario = {"family", "plat": {"nh", "links": [[bw, lat], ...]}, "mb": "PPB" (one letter per mailbox), "nq", "scripts": [[op, ...], ...]}
A batch (one process, one platform) = list of scenarios run one after the other in simulated time (see the harness).
Ops (fields separated by ':'):
  pointer mailboxes  put:m:size  putT:m:size (put with a timeout that never fires)  putw:m:size[:rate] (wait() on an unstarted comm)
                     puta:m:size[:rate]  putd:m:size (put_init+detach)  putf:m:size:tag:fk:want (Comm::send with match data/filter)
                     get:m  getT:m  getw:m  geta:m (slot)  getp:m (get_async() + get_payload)  getf:m:tag:fk:want (Comm::recv)
  buffer mailboxes   bput:m:n:size  bputs:m:n:size  bputa:m:n:size  bputd:m:n:size   bget:m:cap  bgets:m:cap  bgeta:m:cap
  message queues     qput:q  qputt:q:timeout_us  qputa:q  qputd:q   qget:q  qgett:q:timeout_us  qgeta:q  qgetp:q  qgetw:q
                     qgets:q / qgetts:q:timeout_us = the bodies of MessageQueue::get<T>() / get<T>(timeout) with the result slot on the heap
  handles            wait:k[:timeout_us] (on timeout: cancel, as wait_for_or_cancel)  test:k  wany[:timeout_us]  cancel:k
                     waitk:k:timeout_us (message-queue handles: plain wait_for, the handle stays usable after a timeout)
  others             setr:m:0|1 (set_receiver(self) / set_receiver(nullptr))  sleep:us  yield
The generator stays inside the API contract: a mailbox is used either with pointer payloads or with buffer copies (both sides install
the same copy callback), cancel / timeouts are not mixed with permanent receivers, buffers outlive their communications (the harness
never frees), every started handle is waited for in the actor's epilogue.
"""

SIZES = [0, 0, 1, 8, 1000, 1000, 65536, 10 ** 6, 10 ** 6, 10 ** 9]
# every transfer of a scenario is over after << 1e6 simulated seconds (slowest link 1e5 B/s: sizes <= 1e6 there, see platform();
# rate-limited sends <= 1e6 bytes): the API timeouts of 1e6 s used by putT/getT fire only when nothing else can happen, and a
# scenario is over long before the next one of its batch starts (GAP = 1e7 s in the harness)
SLEEPS = [0, 1, 1, 10, 100, 1000, 1000, 10000, 100000]
BW = [1e5, 1e6, 1e7, 1e8, 1.25e9]
LAT = [0, 1e-6, 1e-4, 1e-3, 1e-2]
BUF_N = [0, 1, 11, 12, 13, 64, 64, 1000, 70000]
BUF_CAP = [0, 5, 12, 13, 64, 64, 1000, 100000]


def to_input(plat, scs):
    """stdin of the harness for a batch of scenarios run on one platform"""
    out = ["P %d %s" % (plat["nh"], " ".join("%r,%r" % (bw, lat) for bw, lat in plat["links"]))]
    for sc in scs:
        out += ["N", "M " + " ".join(sc["mb"]) if sc["mb"] else "M", "Q %d" % sc["nq"]]
        for s in sc["scripts"]:
            out.append("A " + " ".join(s))
    return "\n".join(out) + "\n"


def platform(rng):
    return {"nh": rng.randint(2, 6), "links": [[rng.choice(BW), rng.choice(LAT)] for _ in range(rng.randint(1, 4))]}


def _slow(plat):
    return min(bw for bw, _ in plat["links"]) < 1e6


def tame(sc, plat=None):
    """keep simulated durations far below the 1e6 s API timeouts: no 1e9-byte message over a 1e5 B/s link or under a rate limit
    (plat = the platform of the batch the scenario is run in)"""
    slow = _slow(plat or sc["plat"])
    for ops in sc["scripts"]:
        for k, o in enumerate(ops):
            t = o.split(":")
            if t[0] in ("put", "putT", "putw", "puta", "putd", "putf") and int(t[2]) > 10 ** 6:
                if slow or (t[0] in ("putw", "puta") and len(t) > 3):
                    t[2] = str(10 ** 6)
                    ops[k] = ":".join(t)
            elif t[0] in ("bput", "bputs", "bputa", "bputd") and int(t[3]) > 10 ** 6 and slow:
                t[3] = str(10 ** 6)
                ops[k] = ":".join(t)
    return sc


def _noise(rng, ops, handles=True, cancel=False, timeouts=False):
    """interleave sleeps / yields / handle operations"""
    r = rng.random()
    if r < 0.30:
        ops.append("sleep:%d" % rng.choice(SLEEPS))
    elif r < 0.36:
        ops.append("yield")
    elif not handles:
        return
    elif r < 0.52:
        if timeouts and rng.random() < 0.4:
            ops.append("wait:%d:%d" % (rng.randint(0, 5), rng.choice([0, 1, 100, 1000, 100000])))
        else:
            ops.append("wait:%d" % rng.randint(0, 5))
    elif r < 0.62:
        ops.append("test:%d" % rng.randint(0, 5))
    elif r < 0.70:
        if timeouts and rng.random() < 0.4:
            ops.append("wany:%d" % rng.choice([0, 10, 1000, 100000]))
        else:
            ops.append("wany")
    elif r < 0.75 and cancel:
        ops.append("cancel:%d" % rng.randint(0, 5))


def _put(rng, m, kinds):
    k = rng.choice(kinds)
    size = rng.choice(SIZES)
    if k in ("puta", "putw") and rng.random() < 0.25:
        return "%s:%d:%d:%d" % (k, m, size, rng.choice([1000, 10 ** 5, 10 ** 7]))
    return "%s:%d:%d" % (k, m, size)


def _roles(rng):
    na = rng.randint(2, 6)
    np_ = rng.randint(1, na - 1)
    return na, list(range(np_)), list(range(np_, na))


def _spread(rng, total, parts):
    out = [0] * parts
    for _ in range(total):
        out[rng.randrange(parts)] += 1
    return out


def pipeline(rng, perm=False, mixed=None):
    """producers -> consumers on 1..3 pointer mailboxes, as many gets as puts per mailbox"""
    na, prod, cons = _roles(rng)
    nm = rng.randint(1, 3)
    scripts = [[] for _ in range(na)]
    per_mb = [0] * nm
    pk = ["put", "put", "putw", "puta", "puta", "puta", "putd", "putd", "putT"]
    gk = ["get", "get", "getw", "geta", "geta", "getp", "getT"]
    cancel = timeouts = (not perm) and rng.random() < 0.3
    for a in prod:
        ops = scripts[a]
        if perm:
            ops.append("sleep:%d" % rng.choice([1, 10, 1000]))     # every send comes after the set_receiver of round 0
        for _ in range(rng.randint(2, 10)):
            m = rng.randrange(nm)
            ops.append(_put(rng, m, pk))
            per_mb[m] += 1
            _noise(rng, ops, cancel=cancel, timeouts=timeouts)
    owners = {}
    for m in range(nm):
        owners[m] = rng.choice(cons)
        if perm:
            scripts[owners[m]].append("setr:%d:1" % m)
    todo = []
    for m in range(nm):
        share = _spread(rng, per_mb[m], len(cons)) if not (perm and rng.random() < 0.6) else None
        for ci, c in enumerate(cons):
            n = share[ci] if share is not None else (per_mb[m] if c == owners[m] else 0)
            todo += [(c, m)] * n
    rng.shuffle(todo)
    for c, m in todo:
        ops = scripts[c]
        ops.append("%s:%d" % (rng.choice(gk), m))
        _noise(rng, ops, cancel=cancel, timeouts=timeouts)
    if mixed if mixed is not None else rng.random() < 0.3:       # one extra exchange in the reverse direction
        m = rng.randrange(nm)
        c = rng.choice(cons)
        if perm:
            scripts[c] += ["sleep:10", _put(rng, m, ["puta", "putd"])]
        else:
            scripts[c].insert(rng.randint(0, 3), _put(rng, m, ["puta", "putd"]))
        scripts[rng.choice(prod)].append("%s:%d" % (rng.choice(gk), m))
    return {"family": "permanent-clean" if perm else "pipeline", "plat": platform(rng), "mb": "P" * nm, "nq": 0, "scripts": scripts}


def buffers(rng):
    na, prod, cons = _roles(rng)
    nm = rng.randint(1, 2)
    scripts = [[] for _ in range(na)]
    per_mb = [0] * nm
    for a in prod:
        for _ in range(rng.randint(2, 8)):
            m = rng.randrange(nm)
            scripts[a].append("%s:%d:%d:%d" % (rng.choice(["bput", "bputs", "bputa", "bputa", "bputd"]), m, rng.choice(BUF_N), rng.choice(SIZES)))
            per_mb[m] += 1
            _noise(rng, scripts[a])
    todo = []
    for m in range(nm):
        for ci, n in enumerate(_spread(rng, per_mb[m], len(cons))):
            todo += [(cons[ci], m)] * n
    rng.shuffle(todo)
    for c, m in todo:
        scripts[c].append("%s:%d:%d" % (rng.choice(["bget", "bgets", "bgeta", "bgeta"]), m, rng.choice(BUF_CAP)))
        _noise(rng, scripts[c])
    return {"family": "buffers", "plat": platform(rng), "mb": "B" * nm, "nq": 0, "scripts": scripts}


def filters(rng):
    na = rng.randint(2, 6)
    nm = rng.randint(1, 2)
    scripts = [[] for _ in range(na)]
    for a in range(na):
        ops = scripts[a]
        sender = a % 2 == 0 if rng.random() < 0.8 else rng.random() < 0.5
        for _ in range(rng.randint(3, 9)):
            m = rng.randrange(nm)
            tag = rng.randint(0, 2)
            fk = rng.choice([0, 0, 1, 2, 3])
            want = rng.randint(0, 1) if fk == 2 else rng.randint(0, 2)
            r = rng.random()
            if sender:
                if r < 0.6:
                    ops.append("putf:%d:%d:%d:%d:%d" % (m, rng.choice(SIZES[:8]), tag, rng.choice([0, 0, 0, fk]), want))
                else:
                    ops.append(_put(rng, m, ["puta", "putd", "puta"]))
            else:
                if r < 0.7:
                    ops.append("getf:%d:%d:%d:%d" % (m, tag, fk, want))
                else:
                    ops.append("%s:%d" % (rng.choice(["geta", "getp", "get"]), m))
            _noise(rng, ops)
    return {"family": "filters", "plat": platform(rng), "mb": "P" * nm, "nq": 0, "scripts": scripts}


def random_mix(rng, perm=False):
    """unstructured scripts: every actor puts and gets (deadlocks are legitimate ends)"""
    na = rng.randint(2, 6)
    mb = "".join(rng.choice("PPB") for _ in range(rng.randint(1, 3)))
    scripts = [[] for _ in range(na)]
    cancel = timeouts = not perm
    for a in range(na):
        ops = scripts[a]
        for _ in range(rng.randint(4, 16)):
            m = rng.randrange(len(mb))
            r = rng.random()
            if mb[m] == "B":
                if r < 0.5:
                    ops.append("%s:%d:%d:%d" % (rng.choice(["bputa", "bputd", "bputa", "bput", "bputs"]), m, rng.choice(BUF_N), rng.choice(SIZES)))
                else:
                    ops.append("%s:%d:%d" % (rng.choice(["bgeta", "bgeta", "bget", "bgets"]), m, rng.choice(BUF_CAP)))
            elif perm and r < 0.12:
                ops.append("setr:%d:%d" % (m, rng.choice([1, 1, 0])))
            elif r < 0.55:
                ops.append(_put(rng, m, ["puta", "puta", "putd", "putd", "put", "putw"]))
            else:
                ops.append("%s:%d" % (rng.choice(["geta", "geta", "getp", "get", "getw"]), m))
            _noise(rng, ops, cancel=cancel, timeouts=timeouts)
    return {"family": "permanent-hostile" if perm else "random", "plat": platform(rng), "mb": mb, "nq": 0, "scripts": scripts}


def gen_c08(rng, plat=None):
    r = rng.random()
    if r < 0.30:
        return tame(pipeline(rng), plat)
    if r < 0.46:
        return tame(pipeline(rng, perm=True), plat)
    if r < 0.61:
        return tame(buffers(rng), plat)
    if r < 0.78:
        return tame(filters(rng), plat)
    if r < 0.95:
        return tame(random_mix(rng), plat)
    return tame(random_mix(rng, perm=True), plat)


# ------------------------------------------------------------------------------------------------ message queues
# Blocking receptions: "qget" is the real MessageQueue::get<T>() (result in a local variable of the API). While the known finding
# C09:payload-rewritten-after-delivery is open, a later wait()/test() of the *sender* on its put handle writes the payload again
# through that pointer, i.e. into a dead stack frame: families in which senders keep put handles use "qgets" (same calls, result
# slot on the heap, watched until the end) so that the defect is observed instead of corrupting the process; the family whose
# senders only use detached puts (no second delivery possible) uses the real get<T>().
def qpipeline(rng, family="queue-pipeline"):
    """producers -> consumers on 1..3 queues, as many gets as puts per queue.
    queue-detached: detached puts only, real get<T>(); queue-timeouts: the same plus the real get<T>(timeout) and wait_for() that keeps
    the handle (run in batches of their own: while the known findings about timeouts are open they write into dead stack frames)"""
    na, prod, cons = _roles(rng)
    nq = rng.randint(1, 3)
    scripts = [[] for _ in range(na)]
    per_q = [0] * nq
    tmo = family == "queue-timeouts"
    detached = family == "queue-detached" or tmo     # no put handle: the payload cannot be delivered a second time
    cancel = timeouts = rng.random() < 0.3
    pk = ["qputd"] if detached else ["qput", "qputa", "qputa", "qputa", "qputd"]
    gk = ["qget", "qget", "qgeta", "qgeta", "qgetp"] if detached else ["qgets", "qgets", "qgeta", "qgeta", "qgetp"]
    for a in prod:
        ops = scripts[a]
        for _ in range(rng.randint(2, 12)):
            q = rng.randrange(nq)
            ops.append("%s:%d" % (rng.choice(pk), q))
            per_q[q] += 1
            _noise(rng, ops, cancel=cancel, timeouts=timeouts)
    todo = []
    for q in range(nq):
        for ci, n in enumerate(_spread(rng, per_q[q], len(cons))):
            todo += [(cons[ci], q)] * n
    rng.shuffle(todo)
    for c, q in todo:
        ops = scripts[c]
        if tmo and rng.random() < 0.3:
            ops.append("qgett:%d:%d" % (q, rng.choice([0, 1, 100, 10000])))
        else:
            ops.append("%s:%d" % (rng.choice(gk), q))
        if tmo and rng.random() < 0.25:
            ops.append("waitk:%d:%d" % (rng.randint(0, 5), rng.choice([0, 1, 100, 10000])))
        _noise(rng, ops, cancel=cancel, timeouts=timeouts)
    return {"family": family, "plat": platform(rng), "mb": "", "nq": nq, "scripts": scripts}


def qrandom(rng):
    """unstructured scripts: every actor puts and gets (deadlocks are legitimate ends)"""
    na = rng.randint(2, 6)
    nq = rng.randint(1, 3)
    scripts = [[] for _ in range(na)]
    for a in range(na):
        ops = scripts[a]
        for _ in range(rng.randint(4, 18)):
            q = rng.randrange(nq)
            if rng.random() < 0.5:
                ops.append("%s:%d" % (rng.choice(["qputa", "qputa", "qputd", "qput"]), q))
            else:
                ops.append("%s:%d" % (rng.choice(["qgeta", "qgeta", "qgetp", "qgets"]), q))
            _noise(rng, ops, cancel=True, timeouts=True)
    return {"family": "queue-random", "plat": platform(rng), "mb": "", "nq": nq, "scripts": scripts}


def gen_c09(rng, plat=None, timeouts=False):
    if timeouts:
        return qpipeline(rng, "queue-timeouts")
    r = rng.random()
    if r < 0.34:
        return qpipeline(rng, "queue-detached")
    if r < 0.62:
        return qpipeline(rng)
    return qrandom(rng)
