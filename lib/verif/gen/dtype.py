"""Random MPI derived-datatype trees for C30 and their reference layout (type map) computed from the MPI standard's definitions.

Reference (MPI-3.1 section 4.1): a datatype is a type map = sequence of (basic type, displacement). Every constructor places copies
of the old type(s) at displacements D_k (in a defined order); the new type map is the concatenation of the displaced old type
maps in that order; lb = min_k(D_k + lb(old)), ub = max_k(D_k + ub(old)) (explicit bounds set by MPI_Type_create_resized /
subarray travel with the copies in the same way); extent = ub - lb; size = sum of the basic sizes. Blocks of length 0 contribute
no copy. An empty type map has lb = ub = 0.

The alignment padding "epsilon" of the standard is implementation-defined: for a type without explicit bounds whose span is not a
multiple of the strictest alignment of its basic types two extents are acceptable (ext0 = span, ext1 = span rounded up); the
generator only lets such types appear as roots (never as the old type of another constructor).

Here a type map is kept as a list of byte segments (offset, length) in type-map order, consecutive adjacent bytes merged.
"""

BASIC = {-1: ("MPI_CHAR", 1), -2: ("MPI_SHORT", 2), -3: ("MPI_INT", 4), -4: ("MPI_DOUBLE", 8), -5: ("MPI_BYTE", 1),
         -6: ("MPI_LONG_LONG", 8), -7: ("MPI_FLOAT", 4)}
KINDS = {1: "contiguous", 2: "vector", 3: "hvector", 4: "indexed", 5: "hindexed", 6: "indexed_block", 7: "struct", 8: "resized",
         9: "subarray"}


class Ty:
    __slots__ = ("id", "kind", "args", "kids", "segs", "size", "lb", "ub", "explicit", "align", "depth", "feat", "ambiguous")

    def __init__(self):
        self.feat = set()
        self.ambiguous = False

    @property
    def extent(self):
        return self.ub - self.lb

    @property
    def ext1(self):
        if self.explicit or self.align <= 1 or not self.segs:
            return self.extent
        e = self.extent
        return (e + self.align - 1) // self.align * self.align

    @property
    def name(self):
        return BASIC[self.id][0] if self.kind == 0 else KINDS[self.kind]

    def cls(self):
        """Class of this type when used as an old type."""
        if self.kind == 0:
            return "basic"
        if self.explicit:
            return "resized"
        return "derived"


def basic(bid):
    t = Ty()
    t.id, t.kind, t.args, t.kids = bid, 0, [], []
    t.size = BASIC[bid][1]
    t.segs = [(0, t.size)]
    t.lb, t.ub, t.explicit, t.align, t.depth = 0, t.size, False, t.size, 0
    return t


def _merge(segs):
    out = []
    for o, l in segs:
        if l == 0:
            continue
        if out and out[-1][0] + out[-1][1] == o:
            out[-1] = (out[-1][0], out[-1][1] + l)
        else:
            out.append((o, l))
    return out


def _place(t, copies, explicit_bounds=None):
    """copies: list of (displacement, old type) in type-map order."""
    segs, lbs, ubs = [], [], []
    for d, c in copies:
        segs += [(d + o, l) for o, l in c.segs]
        lbs.append(d + c.lb)
        ubs.append(d + c.ub)
    t.segs = _merge(segs)
    t.size = sum(l for _, l in t.segs)
    t.explicit = any(c.explicit for _, c in copies)
    t.align = max([c.align for _, c in copies] + [1])
    if explicit_bounds is not None:
        t.lb, t.ub = explicit_bounds
        t.explicit = True
    elif copies:
        t.lb, t.ub = min(lbs), max(ubs)
        # MPI's bound markers are "sticky" (MPI-3.1 4.1.6: when some entry of the type map is a marker, only the markers define the
        # bound); MPICH dropped that rule with MPI_LB/MPI_UB. The two readings differ only when copies with explicit bounds
        # (resized/subarray) are mixed with copies without: such a type is flagged and never generated (not judged).
        ex = [i for i, (_, c) in enumerate(copies) if c.explicit]
        if ex and (min(lbs[i] for i in ex), max(ubs[i] for i in ex)) != (t.lb, t.ub):
            t.ambiguous = True
    else:
        t.lb = t.ub = 0
    if any(c.ambiguous for _, c in copies):
        t.ambiguous = True
    return t


def build(tid, kind, args, kids):
    """Reference semantics of the constructors. args as passed to MPI (see p2p of each kind below)."""
    t = Ty()
    t.id, t.kind, t.args, t.kids = tid, kind, args, kids
    t.depth = 1 + max(k.depth for k in kids)
    c = kids[0]
    ex = c.extent
    copies = []
    if kind == 1:      # contiguous(count)
        copies = [(i * ex, c) for i in range(args[0])]
    elif kind == 2:    # vector(count, bl, stride)
        n, bl, st = args
        copies = [((i * st + j) * ex, c) for i in range(n) for j in range(bl)]
    elif kind == 3:    # hvector(count, bl, stride_bytes)
        n, bl, st = args
        copies = [(i * st + j * ex, c) for i in range(n) for j in range(bl)]
    elif kind == 4:    # indexed(n, bls[n], disps[n])
        n = args[0]
        bls, ds = args[1:1 + n], args[1 + n:1 + 2 * n]
        copies = [((ds[i] + j) * ex, c) for i in range(n) for j in range(bls[i])]
    elif kind == 5:    # hindexed(n, bls[n], dispbytes[n])
        n = args[0]
        bls, ds = args[1:1 + n], args[1 + n:1 + 2 * n]
        copies = [(ds[i] + j * ex, c) for i in range(n) for j in range(bls[i])]
    elif kind == 6:    # indexed_block(n, bl, disps[n])
        n, bl = args[0], args[1]
        ds = args[2:2 + n]
        copies = [((ds[i] + j) * ex, c) for i in range(n) for j in range(bl)]
    elif kind == 7:    # struct(n, bls[n], dispbytes[n]) kids[n]
        n = args[0]
        bls, ds = args[1:1 + n], args[1 + n:1 + 2 * n]
        copies = [(ds[i] + j * kids[i].extent, kids[i]) for i in range(n) for j in range(bls[i])]
    elif kind == 8:    # resized(lb, extent)
        return _place(t, [(0, c)], (args[0], args[0] + args[1]))
    elif kind == 9:    # subarray(ndims, sizes, subsizes, starts, order) order 0 = C, 1 = Fortran
        nd = args[0]
        sizes, subs, starts, order = args[1:1 + nd], args[1 + nd:1 + 2 * nd], args[1 + 2 * nd:1 + 3 * nd], args[1 + 3 * nd]
        dims = list(range(nd)) if order == 1 else list(range(nd - 1, -1, -1))     # fastest varying first
        stride = {}
        s = 1
        for k in dims:
            stride[k] = s
            s *= sizes[k]
        total = s

        def rec(level, base):
            if level < 0:
                copies.append((base * ex, c))
                return
            k = dims[level]
            for i in range(subs[k]):
                rec(level - 1, base + (starts[k] + i) * stride[k])
        rec(nd - 1, 0)
        return _place(t, copies, (0, total * ex))
    return _place(t, copies)


def nodes(t, acc=None):
    acc = [] if acc is None else acc
    for k in t.kids:
        if k.kind != 0 and k not in acc:
            nodes(k, acc)
    if t not in acc:
        acc.append(t)
    return acc


def overlapping(t, count, ext):
    sg = sorted((i * ext + o, l) for i in range(count) for o, l in t.segs)
    return any(sg[i][0] + sg[i][1] > sg[i + 1][0] for i in range(len(sg) - 1))


def span(t, count, ext):
    if not t.segs or count == 0:
        return 0
    return max((count - 1) * ext + o + l for o, l in t.segs) if ext >= 0 else max(o + l for o, l in t.segs)


class Gen:
    """Generates trees of depth <= 3 with non-negative displacements; every node usable as an old type has one well-defined extent."""

    def __init__(self, rng, first_id=0):
        self.rng = rng
        self.next = first_id

    def leaf(self):
        return basic(self.rng.choice([-1, -1, -2, -3, -3, -4, -4, -5, -6, -7]))

    def tree(self, depth, root=True):
        rng = self.rng
        for _ in range(200):
            t = self._node(depth, root)
            if t is None:
                continue
            if t.size > 4096 or span(t, 1, t.extent) > 16384 or len(t.segs) > 400:
                continue
            if t.segs and min(o for o, _ in t.segs) < 0:
                continue
            if overlapping(t, 1, 0) or t.ambiguous:
                continue
            if not root:
                if t.ext1 != t.extent or t.extent <= 0 or t.size == 0:
                    if t.size == 0 or rng.random() < 0.5:
                        continue
                    # give it explicit, aligned bounds (what an MPI programmer does with such a struct)
                    al = max(t.align, 1)
                    e = (max(t.ub, span(t, 1, 0)) - 0 + al - 1) // al * al
                    t = self._mk(8, [0, max(e, al)], [t])
            return t
        raise RuntimeError("datatype generator could not build a tree")

    def _mk(self, kind, args, kids):
        t = build(self.next, kind, args, kids)
        self.next += 1
        return t

    def _child(self, depth):
        if depth <= 1 or self.rng.random() < 0.35:
            return self.leaf()
        return self.tree(depth - 1, root=False)

    def _disps(self, n, bls, unit, bytewise, c):
        """Increasing-or-shuffled, non-overlapping block displacements. unit = extent of the old type (bytes)."""
        rng = self.rng
        pos = rng.choice([0, 0, 1, 2]) * (1 if not bytewise else max(c.align, 1))
        out = []
        for i in range(n):
            out.append(pos)
            length = bls[i] * (1 if not bytewise else unit)
            gap = rng.choice([0, 0, 1, 2, 3])
            if bytewise:
                al = max(c.align, 1) if rng.random() < 0.85 else 1
                step = length + gap * al
                step = (step + al - 1) // al * al
                pos += max(step, 0)
            else:
                pos += length + gap
        order = list(range(n))
        if rng.random() < 0.4:
            rng.shuffle(order)
        return order, out

    def _node(self, depth, root):
        rng = self.rng
        kind = rng.choice([1, 2, 2, 3, 3, 4, 4, 5, 5, 6, 7, 7, 7, 8, 9, 9])
        c = self._child(depth)
        ex = c.extent
        # the data of one old-type copy may stick out of [lb, ub) (resized): keep copies apart by the real footprint
        foot = max(span(c, 1, 0), c.ub, 1)
        unit = max((foot + max(ex, 1) - 1) // max(ex, 1), 1) if ex > 0 else 1
        zero_ok = root and rng.random() < 0.08
        if kind == 1:
            n = rng.choice([0, 1, 2, 3, 4]) if zero_ok else rng.choice([1, 2, 3, 4])
            return self._mk(1, [n], [c])
        if kind in (2, 3):
            n = rng.choice([1, 2, 3, 4])
            bl = rng.choice([1, 1, 2, 3])
            if zero_ok:
                n, bl = rng.choice([(0, 2), (2, 0), (n, bl)])
            if kind == 2:
                st = rng.choice([bl, bl + 1, bl + 2, 2 * bl + 1]) * unit
                return self._mk(2, [n, bl, st], [c])
            base = bl * ex if ex > 0 else foot
            al = max(c.align, 1)
            st = base + rng.choice([0, 1, 2, 5]) * al * unit
            if rng.random() < 0.1 and root:
                st += 1              # odd byte stride
            return self._mk(3, [n, bl, st], [c])
        if kind in (4, 5, 6):
            n = rng.choice([1, 2, 3, 4])
            if kind == 6:
                bls = [rng.choice([1, 2, 3])] * n
            else:
                bls = [rng.choice([1, 1, 2, 3]) for _ in range(n)]
                if zero_ok:
                    bls[rng.randrange(n)] = 0
            if kind == 5:
                order, ds = self._disps(n, [b * unit for b in bls], max(ex, 1), True, c)
            else:
                order, ds = self._disps(n, [b * unit for b in bls], max(ex, 1), False, c)
            bls2, ds2 = [bls[i] for i in order], [ds[i] for i in order]
            if kind == 6:
                return self._mk(6, [n, bls[0]] + ds2, [c])
            return self._mk(kind, [n] + bls2 + ds2, [c])
        if kind == 7:
            n = rng.choice([1, 2, 3, 4])
            kids = [c] + [self._child(depth) for _ in range(n - 1)]
            bls = [rng.choice([1, 1, 2, 3]) for _ in range(n)]
            if zero_ok:
                bls[rng.randrange(n)] = 0
            pos = rng.choice([0, 0, 4, 8])
            ds = []
            for i in range(n):
                k = kids[i]
                al = max(k.align, 1)
                if rng.random() < 0.85:
                    pos = (pos + al - 1) // al * al
                ds.append(pos)
                f = max(span(k, 1, 0), k.ub, 1)
                pos += (bls[i] - 1) * max(k.extent, 0) + f if bls[i] > 0 else 0
                pos += rng.choice([0, 0, 1, 4])
            order = list(range(n))
            if rng.random() < 0.4:
                rng.shuffle(order)
            return self._mk(7, [n] + [bls[i] for i in order] + [ds[i] for i in order], [kids[i] for i in order])
        if kind == 8:
            if c.kind == 0 and rng.random() < 0.5:
                c = self._child(depth)
            f = max(span(c, 1, 0), c.ub, 1)
            al = max(c.align, 1)
            lb = rng.choice([0, 0, 0, al, 2 * al])
            e = rng.choice([f, f + al, (f + al - 1) // al * al, 2 * f, max(c.extent, 1)])
            if lb + e < f and not root:
                e = f
            return self._mk(8, [lb, max(e, 1)], [c])
        if kind == 9:
            nd = rng.choice([1, 2, 2, 3])
            sizes = [rng.choice([1, 2, 3, 4]) for _ in range(nd)]
            subs = [rng.randint(1, s) for s in sizes]
            starts = [rng.randint(0, s - b) for s, b in zip(sizes, subs)]
            if ex <= 0 or span(c, 1, 0) > ex or c.lb != 0:
                return None
            return self._mk(9, [nd] + sizes + subs + starts + [rng.choice([0, 1])], [c])
        return None


def case_lines(roots):
    """Text of the case file: every non-basic node of every root, children first."""
    seen, order = set(), []
    for r in roots:
        for t in nodes(r):
            if t.id not in seen:
                seen.add(t.id)
                order.append(t)
    lines = ["NT %d" % len(order)]
    for t in order:
        a = list(t.args) + [k.id for k in t.kids]
        lines.append("T %d %d %d %s" % (t.id, t.kind, len(a), " ".join(map(str, a))))
        maxc = 0
        for cnt in (1, 2, 3, 5):
            if span(t, cnt, t.extent) <= 60000 and t.size * cnt <= 20000 and (t.extent > 0 or cnt == 1) and not overlapping(t, cnt, t.extent) \
                    and (t.ext1 == t.extent or not overlapping(t, cnt, t.ext1)):
                maxc = cnt
            else:
                break
        flat = " ".join("%d %d" % s for s in t.segs)
        lines.append("E %d %d %d %d %d %d %d %s" % (t.id, t.size, t.lb, t.extent, t.ext1, maxc, len(t.segs), flat))
    return order, "\n".join(lines) + "\n"


def describe(t):
    if t.kind == 0:
        return t.name
    return "%s(%s; %s)" % (t.name, ",".join(map(str, t.args)), ",".join(describe(k) for k in t.kids))


NAME2KIND = {v: k for k, v in KINDS.items()}
NAME2BASIC = {v[0]: k for k, v in BASIC.items()}


def parse(text, first_id=0):
    """Inverse of describe(): 'indexed(2,1,1,1,3; MPI_INT)' -> (root Ty, next free id). Components get their ids first."""
    txt = text.replace(" ", "")
    pos = [0, first_id]

    def rec():
        j = pos[0]
        while pos[0] < len(txt) and (txt[pos[0]].isalnum() or txt[pos[0]] == "_"):
            pos[0] += 1
        name = txt[j:pos[0]]
        if name in NAME2BASIC:
            return basic(NAME2BASIC[name])
        if name not in NAME2KIND or txt[pos[0]] != "(":
            raise ValueError("bad datatype description at %d: %s" % (j, text))
        pos[0] += 1
        j = pos[0]
        while txt[pos[0]] != ";":
            pos[0] += 1
        args = [int(x) for x in txt[j:pos[0]].split(",")]
        pos[0] += 1
        kids = [rec()]
        while txt[pos[0]] == ",":
            pos[0] += 1
            kids.append(rec())
        if txt[pos[0]] != ")":
            raise ValueError("bad datatype description at %d: %s" % (pos[0], text))
        pos[0] += 1
        t = build(pos[1], NAME2KIND[name], args, kids)
        pos[1] += 1
        return t
    r = rec()
    return r, pos[1]
