"""Generator of small synchronisation programs for C39/C43, in the spec language of harness/cm_app.cpp.

A program is a dict {"mutex": n, "sem": [init...], "cond": n, "barrier": [count...], "mbox": n, "mq": n, "skip": [5 ints],
"tag": t, "actors": [[op...]...], "dyn": [[op...]...]}; an op is a string such as "L0", "S1.42", "W0.1".

The programs respect the API contract by construction and through the VM's guards: unlock / condvar wait only when the
mutex is held (every condvar is always used with the same mutex), a barrier for n actors is used by at most n actors, everything held is released and every pending
communication is waited for when an actor ends, joins only on created actors, each dyn actor is created once, wait_any only
over a non-empty set.  Blocking for ever (lock-order inversions, unmatched receives, barriers that never fill) is a legitimate
behaviour: the walk simply ends.  Everything an actor observes is the result of one of its own visible transitions.
"""

FAMILIES = ("mutex", "sem", "cond", "barrier", "comm", "acomm", "actor", "random")


def render(p):
    out = []
    if any(p.get("skip", [])):
        out.append("skipids " + " ".join(str(x) for x in p["skip"]))
    if p.get("tag"):
        out.append("tag %d" % p["tag"])
    if p.get("mutex"):
        out.append("mutex %d" % p["mutex"])
    if p.get("sem"):
        out.append("sem " + " ".join(str(x) for x in p["sem"]))
    if p.get("cond"):
        out.append("cond %d" % p["cond"])
    if p.get("barrier"):
        out.append("barrier " + " ".join(str(x) for x in p["barrier"]))
    if p.get("mbox"):
        out.append("mbox %d" % p["mbox"])
    if p.get("mq"):
        out.append("mq %d" % p["mq"])
    for a in p["actors"]:
        out.append("actor " + " ".join(a))
    for a in p.get("dyn", []):
        out.append("dyn " + " ".join(a))
    return "\n".join(out) + "\n"


def _snippet(rng, p, fam, me, ninit, mydyn, slots):
    """A few ops of one family. slots = number of comm slots this actor has opened so far (list of one int, updated)."""
    r = rng.random()
    if fam == "mutex":
        m = rng.randrange(p["mutex"])
        if r < 0.45:
            inner = []
            if rng.random() < 0.3 and p["mutex"] > 1:
                m2 = rng.choice([x for x in range(p["mutex"]) if x != m])
                inner = ["L%d" % m2, "U%d" % m2]
            elif rng.random() < 0.3 and p["sem"]:
                inner = [rng.choice("PV") + str(rng.randrange(len(p["sem"])))]
            return ["L%d" % m] + inner + ["U%d" % m]
        if r < 0.75:
            return ["T%d" % m, "I1", "U%d" % m]
        if r < 0.9:
            return ["T%d" % m]
        return ["L%d" % m]                      # released by the epilogue
    if fam == "sem":
        s = rng.randrange(len(p["sem"]))
        if r < 0.4:
            return ["P%d" % s]
        if r < 0.8:
            return ["V%d" % s]
        if r < 0.9:
            return ["p%d" % s]
        return ["P%d" % s, "V%d" % s]
    if fam == "cond":
        c = rng.randrange(p["cond"])
        m = c % p["mutex"]
        if r < 0.35:
            return ["L%d" % m, "W%d.%d" % (c, m), "U%d" % m]
        if r < 0.5:
            return ["L%d" % m, "w%d.%d" % (c, m), "U%d" % m]
        if r < 0.7:
            return ["L%d" % m, rng.choice("NA") + str(c), "U%d" % m]
        return [rng.choice("NA") + str(c)]
    if fam == "barrier":
        # a barrier for n actors is only used by (at most) n actors: more arrivals than expected in one phase is outside
        # the contract of a barrier (cf. std::barrier, to which the documentation refers)
        mine = [b for b, members in enumerate(p["_bar_members"]) if me in members]
        if not mine:
            return ["Y"]
        return ["R%d" % rng.choice(mine)]
    if fam == "comm":
        x = rng.randrange(p["mbox"])
        if r < 0.45:
            return ["S%d.%d" % (x, 10 * me + rng.randrange(3))]
        if r < 0.9:
            return ["G%d" % x]
        return ["b%d.%d" % (x, rng.randrange(2))]
    if fam == "acomm":
        x = rng.randrange(p["mbox"])
        ops = []
        n = rng.choice([1, 1, 2, 3])
        for _ in range(n):
            x = rng.randrange(p["mbox"])
            if rng.random() < 0.5:
                ops.append("s%d.%d" % (x, 10 * me + rng.randrange(3)))
            else:
                ops.append("r%d" % x)
            slots[0] += 1
        k = rng.random()
        last = slots[0] - 1
        if k < 0.25:
            ops.append("c%d" % rng.randrange(max(0, last - n + 1), last + 1))
        elif k < 0.5:
            ops += ["t%d" % rng.randrange(max(0, last - n + 1), last + 1), "I1", "Y"]
        elif k < 0.7:
            ops.append("a")
        elif k < 0.9:
            ops += ["y", "I1", "Y"]
        elif k < 0.95:
            ops.append("d%d.%d" % (x, 10 * me + 9))
        else:
            ops.append("b%d.%d" % (x, rng.randrange(2)))
        return ops
    if fam == "actor":
        if mydyn and r < 0.5:
            return ["K%d" % mydyn.pop()]
        others = [a for a in range(ninit) if a != me]
        if others and r < 0.8:
            return [rng.choice("JJj") + str(rng.choice(others))]
        if r < 0.9:
            return ["Y"]
        return ["X"]
    if fam == "random":
        return ["Q0.%d" % rng.choice([1, 1, 2]), "I1", "Y"]
    raise ValueError(fam)


def generate(rng, families=None, max_actors=4, max_ops=7):
    fams = list(families) if families else rng.sample(FAMILIES, rng.choice([1, 2, 2, 3]))
    if "cond" in fams and "mutex" not in fams:
        fams.append("mutex")
    p = {"mutex": 0, "sem": [], "cond": 0, "barrier": [], "mbox": 0, "mq": 0, "skip": [0] * 5, "tag": 0, "actors": [], "dyn": []}
    ninit = rng.randint(2, max_actors)
    ndyn = 0
    if "actor" in fams:
        ndyn = rng.choice([0, 1, 1, 2])
        ninit = max(2, min(ninit, max_actors - ndyn + 1))
    if "mutex" in fams:
        p["mutex"] = rng.choice([1, 1, 2, 2, 3])
    if "sem" in fams:
        p["sem"] = [rng.choice([0, 0, 1, 1, 2]) for _ in range(rng.choice([1, 1, 2]))]
    if "cond" in fams:
        p["cond"] = rng.choice([1, 1, 2])
    if "barrier" in fams:
        p["barrier"] = [rng.choice([1, 2, 2, ninit, max(1, ninit - 1)]) for _ in range(rng.choice([1, 1, 2]))]
    if "comm" in fams or "acomm" in fams:
        p["mbox"] = rng.choice([1, 1, 2])
    if rng.random() < 0.5:                   # ids of different kinds of objects differ, so that a mix-up shows
        p["skip"] = [rng.randrange(4) for _ in range(5)]
    p["tag"] = rng.choice([0, 7, 100])
    p["_bar_members"] = [set(rng.sample(range(ninit + ndyn), min(c, ninit + ndyn))) for c in p["barrier"]]
    body = [f for f in fams]
    dyn_owner = {ninit + d: rng.randrange(ninit) for d in range(ndyn)}
    for a in range(ninit + ndyn):
        ops, slots = [], [0]
        mydyn = [d for d, o in dyn_owner.items() if o == a]
        budget = rng.randint(2, max_ops)
        guard = 0
        while len(ops) < budget and guard < 30:
            guard += 1
            f = rng.choice(body)
            if f == "actor" and a >= ninit and rng.random() < 0.7:
                continue
            ops += _snippet(rng, p, f, a, ninit, mydyn, slots)
        for d in mydyn:                       # every dyn actor is created by its owner
            ops.insert(rng.randrange(len(ops) + 1), "K%d" % d)
        # an "I<n>" must not jump over the end, and never over a slot-opening op (slot numbers are static)
        fixed = []
        for i, o in enumerate(ops):
            if o[0] == "I":
                n = int(o[1:])
                nxt = ops[i + 1:i + 1 + n]
                if len(nxt) < n or any(x[0] in "srK" for x in nxt):
                    continue
            fixed.append(o)
        (p["actors"] if a < ninit else p["dyn"]).append(fixed or ["Y"])
    del p["_bar_members"]
    return p, "+".join(sorted(fams))
