"""Generator of platforms and concurrent workloads for C19 (harness/optim.cpp): the same workload is run under every
update-algorithm / selective-update configuration and the dates are compared.

A workload is a JSON-able dict {"platform": p, "actors": [{"name", "host", "script": [item...]}], "ti": bool, "features": [...]}.
Script items (lists): ["S", d] ["P", host, pstate] ["E", id, host, flops, bound, prio] ["C", id, src, dst, bytes]
["PUT", id, mailbox, bytes, rate] ["GET", id, mailbox] ["AZ", actor, d1, d2] ["G", [E/C items], [controls]] with controls
["Z", id, d1, d2] ["U", id, d, prio] ["W", d] ["P", host, pstate].

ti=True restricts the workload to what cpu/optim:TI accepts (src/kernel/resource/models/cpu_ti.cpp): single-core hosts
(CpuImpl::set_core_count asserts), no user bound on execs (CpuTi::execution_start asserts), repeating speed profiles
(CpuTiTmgr asserts is_repeating()) whose first point is at date 0 (the integrated trace is cyclic from date 0)."""
import math


def logu(rng, lo, hi):
    return math.exp(rng.uniform(math.log(lo), math.log(hi)))


def nice(rng, lo, hi):
    """A value over several orders of magnitude; half of the time a 'round' one (1, 2, 2.5, 5 x 10^k) so that ties happen."""
    if rng.random() < 0.5:
        k = rng.randint(int(math.ceil(math.log10(lo))), int(math.floor(math.log10(hi))) - 1)
        return rng.choice([1.0, 2.0, 2.5, 5.0]) * 10.0 ** k
    return float("%.6g" % logu(rng, lo, hi))


def odd(rng, lo, hi):
    """A delay with 7 significant digits: control instants (suspend / resume / priority / pstate changes) must not fall within
    precision/timing of a completion date, or the control flow of the program (test() before suspend) is itself ambiguous."""
    return float("%.7g" % logu(rng, lo, hi))


def profile(rng, base, ti, horizon=4.0):
    """(period, [(date, value)]): values are base * scale. Repeating profiles start at date 0."""
    n = rng.randint(2, 5)
    scales = [rng.choice([1.0, 0.5, 0.25, 0.75, 2.0 if base != 1.0 else 0.6, float("%.3g" % rng.uniform(0.1, 1.0))]) for _ in range(n)]
    repeating = ti or rng.random() < 0.6
    t = 0.0 if repeating or rng.random() < 0.5 else float("%.4g" % logu(rng, 0.01, 1.0))
    pts = []
    for s in scales:
        pts.append((t, base * s))
        t = float("%.6g" % (t + logu(rng, 0.02, horizon / n)))
    period = t if repeating else -1.0
    return {"period": period, "points": pts}


def platform(rng, ti, profiles=True):
    nh = rng.randint(2, 5)
    hosts = []
    for i in range(nh):
        np_ = rng.choice([1, 1, 2, 3])
        h = {"name": "h%d" % i, "cores": 1 if ti else rng.choice([1, 1, 2, 4, 8]), "speeds": [nice(rng, 1e6, 1e10) for _ in range(np_)], "profile": None}
        if profiles and rng.random() < 0.5:
            h["profile"] = profile(rng, 1.0, ti)
        hosts.append(h)
    nl = rng.randint(3, 8)
    links = []
    for i in range(nl):
        r = rng.random()
        lat = 0.0 if r < 0.2 else nice(rng, 1e-6, 1e-2)
        bw = nice(rng, 1e5, 1e9)
        if links and rng.random() < 0.2:
            bw = rng.choice(links)["bw"]
        l = {"name": "l%d" % i, "bw": bw, "lat": lat, "pol": rng.choice("SSSSSFFDDD"), "bwprof": None, "latprof": None}
        if profiles and rng.random() < 0.3:
            l["bwprof"] = profile(rng, bw, False)
        if profiles and rng.random() < 0.15:
            l["latprof"] = profile(rng, lat if lat > 0 else 1e-4, False)
        links.append(l)
    routes = []
    pairs = [(a, b) for a in range(nh) for b in range(a + 1, nh)]

    def mk(n):
        ls = rng.sample(links, n)
        return [[l["name"], (rng.choice("UD") if l["pol"] == "D" else "N")] for l in ls]
    for a, b in pairs:
        n = min(rng.choice([1, 1, 2, 2, 3, 4]), nl)
        if rng.random() < 0.75:
            routes.append({"src": "h%d" % a, "dst": "h%d" % b, "sym": 1, "links": mk(n)})
        else:
            routes.append({"src": "h%d" % a, "dst": "h%d" % b, "sym": 0, "links": mk(n)})
            routes.append({"src": "h%d" % b, "dst": "h%d" % a, "sym": 0, "links": mk(min(rng.choice([1, 2, 3]), nl))})
    return {"hosts": hosts, "links": links, "routes": routes}


def prof_text(tag, name, pr):
    return "%s %s %r %d %s" % (tag, name, pr["period"], len(pr["points"]), " ".join("%r %r" % (t, v) for t, v in pr["points"]))


def platform_text(p):
    out = []
    for h in p["hosts"]:
        out.append("H %s %d %d %s" % (h["name"], h["cores"], len(h["speeds"]), " ".join(repr(s) for s in h["speeds"])))
        if h.get("profile"):
            out.append(prof_text("HP", h["name"], h["profile"]))
    for l in p["links"]:
        out.append("L %s %r %r %s" % (l["name"], l["bw"], l["lat"], l["pol"]))
        if l.get("bwprof"):
            out.append(prof_text("LB", l["name"], l["bwprof"]))
        if l.get("latprof"):
            out.append(prof_text("LL", l["name"], l["latprof"]))
    for r in p["routes"]:
        out.append("R %s %s %d %d %s" % (r["src"], r["dst"], r["sym"], len(r["links"]), " ".join("%s %s" % tuple(x) for x in r["links"])))
    out.append("X")
    return out


def route_bw(p, s, d):
    links = {l["name"]: l for l in p["links"]}
    for r in p["routes"]:
        if (r["src"], r["dst"]) == (s, d) or (r["sym"] and (r["dst"], r["src"]) == (s, d)):
            return min(links[n]["bw"] for n, _ in r["links"])
    raise KeyError((s, d))


class Gen:
    def __init__(self, rng, ti, feats):
        self.rng = rng
        self.ti = ti
        self.feats = feats          # subset of {"suspend", "prio", "pstate", "profile", "bound", "huge", "tiny"}
        self.p = platform(rng, ti, profiles="profile" in feats)
        self.nid = 0
        self.multi = [h for h in self.p["hosts"] if len(h["speeds"]) > 1]
        # a repeating profile generates events forever: no 1e2..1e5 s activity on such a platform (run time of the check, nothing else)
        self.repeating = any((h.get("profile") or {}).get("period", -1) > 0 for h in self.p["hosts"]) or \
            any((l.get(k) or {}).get("period", -1) > 0 for l in self.p["links"] for k in ("bwprof", "latprof"))

    def duration(self):
        rng = self.rng
        if "tiny" in self.feats and rng.random() < 0.12:
            return None
        if rng.random() < 0.3:
            return rng.choice([0.1, 0.25, 0.5, 1.0, 2.0])        # round durations: completion dates tie across actors
        return logu(rng, 1e-3, 3.0)

    def exec_(self, host=None):
        rng = self.rng
        h = host or rng.choice(self.p["hosts"])
        sp = h["speeds"][0]
        d = self.duration()
        if d is None:
            fl = rng.choice([1.0, 1e-3, 1e-6, 2e-5])
        else:
            fl = float("%.6g" % (d * sp))
            if "huge" in self.feats and not self.repeating and rng.random() < 0.1:
                fl = float("%.6g" % (sp * logu(rng, 1e2, 1e5)))
        bound = -1.0
        if "bound" in self.feats and not self.ti and rng.random() < 0.3:
            bound = float("%.6g" % (sp * rng.choice([0.1, 0.5, 1.0, 2.0, logu(rng, 0.05, 1.5)])))
        prio = 1.0
        if rng.random() < 0.35:
            prio = rng.choice([0.5, 2.0, 3.0, float("%.4g" % logu(rng, 0.1, 10))])
        self.nid += 1
        return ["E", self.nid - 1, h["name"], fl, bound, prio]

    def comm(self):
        rng = self.rng
        names = [h["name"] for h in self.p["hosts"]]
        s, d = rng.sample(names, 2)
        bw = route_bw(self.p, s, d)
        dur = self.duration()
        if dur is None:
            sz = rng.choice([1.0, 2.0, 100.0])
        else:
            sz = float(max(1, int(dur * bw)))
        self.nid += 1
        return ["C", self.nid - 1, s, d, sz]

    def activity(self, host=None):
        return self.exec_(host) if self.rng.random() < 0.6 else self.comm()

    def pstate(self):
        h = self.rng.choice(self.multi)
        return ["P", h["name"], self.rng.randrange(len(h["speeds"]))]

    def group(self):
        rng = self.rng
        grp = []
        base = self.activity()
        tie = rng.random() < 0.3
        for _ in range(rng.randint(2, 4)):
            if tie:
                a = list(base)
                a[1] = self.nid
                self.nid += 1
            else:
                # execs of one group often share a host: contention is what exercises the solver
                host = None
                if grp and grp[0][0] == "E" and rng.random() < 0.6:
                    host = [h for h in self.p["hosts"] if h["name"] == grp[0][2]][0]
                a = self.activity(host)
            grp.append(a)
        ctl = []
        for _ in range(rng.choice([0, 1, 1, 2, 3])):
            r = rng.random()
            a = rng.choice(grp)
            if r < 0.45 and "suspend" in self.feats:
                ctl.append(["Z", a[1], odd(rng, 1e-3, 1.0), odd(rng, 1e-3, 1.0)])
            elif r < 0.75 and "prio" in self.feats:
                ex = [x for x in grp if x[0] == "E"]
                if ex:
                    ctl.append(["U", rng.choice(ex)[1], odd(rng, 1e-3, 1.0), rng.choice([0.5, 2.0, 4.0, float("%.4g" % logu(rng, 0.1, 10))])])
            elif r < 0.9 and "pstate" in self.feats and self.multi:
                ctl.append(["W", odd(rng, 1e-3, 0.5)])
                ctl.append(self.pstate())
            else:
                ctl.append(["W", odd(rng, 1e-3, 0.5)])
        return ["G", grp, ctl]

    def workload(self):
        rng = self.rng
        na = rng.randint(3, 8)
        names = ["a%d" % i for i in range(na)]
        # Actor::suspend() is only aimed at actors that never own a finished-but-not-yet-waited asynchronous activity: on this tree
        # ActivityImpl::suspend() dereferences the (already released) model action of such an activity and the process segfaults under every
        # configuration alike. That is outside C19 (reported as a side observation), so only actors without groups are suspended.
        simple = [n for n in names if rng.random() < 0.45] if "suspend" in self.feats else []
        actors = []
        for ai in range(na):
            script = []
            targets = [n for n in simple if n != names[ai]]
            for _ in range(rng.randint(2, 5)):
                r = rng.random()
                if r < 0.15:
                    script.append(["S", rng.choice([0.1, 0.5, 1.0, float("%.4g" % logu(rng, 1e-4, 1.0))])])
                elif r < 0.22 and "pstate" in self.feats and self.multi:
                    script.append(["S", odd(rng, 1e-3, 0.5)])
                    script.append(self.pstate())
                elif r < 0.34 and targets:
                    script.append(["AZ", rng.choice(targets), odd(rng, 1e-3, 1.5), odd(rng, 1e-3, 1.0)])
                elif r < 0.6 or names[ai] in simple:
                    script.append(self.activity())
                else:
                    script.append(self.group())
            actors.append({"name": names[ai], "host": rng.choice(self.p["hosts"])["name"], "script": script})
        # rendez-vous comms: the sender is one of the actors, the receiver a dedicated actor
        for k in range(rng.choice([0, 0, 1, 2])):
            snd = rng.choice(actors)
            rh = rng.choice([h["name"] for h in self.p["hosts"] if h["name"] != snd["host"]])
            bw = route_bw(self.p, snd["host"], rh)
            sz = float(max(1, int(logu(rng, 1e-3, 1.0) * bw)))
            mb = "mb%d" % k
            rate = -1.0
            if "bound" in self.feats and rng.random() < 0.5:
                rate = float("%.6g" % (bw * rng.choice([0.1, 0.5, 1.0, 2.0])))
            snd["script"].insert(rng.randint(0, len(snd["script"])), ["PUT", self.nid, mb, sz, rate])
            actors.append({"name": "r%d" % k, "host": rh, "script": [["S", float("%.4g" % logu(rng, 1e-3, 2.0))], ["GET", self.nid, mb]]})
            self.nid += 1
        w = {"platform": self.p, "actors": actors, "ti": self.ti, "features": sorted(self.feats)}
        if any(l.get("bwprof") for l in self.p["links"]):
            # With cross-traffic a comm also sits on the constraints of its reverse route, and NetworkCm02Link::set_bandwidth adds the change of
            # weight-S/bandwidth to the penalty of every comm of the constraint, including those that never counted that link in their penalty:
            # the penalty can go negative and the run aborts ("Variable penalty should not be negative!") under every configuration alike.
            # That is outside C19; bandwidth profiles are exercised without cross-traffic.
            w["crosstraffic"] = False
        return w


TI_CLASSES = [[], ["profile"], ["prio"], ["prio", "profile"], ["tiny", "huge"], ["suspend"], ["suspend", "profile"], ["pstate"],
              ["suspend", "prio", "pstate", "profile", "tiny"]]


def gen_workload(rng, ti, feats=None):
    if feats is None:
        if ti:
            feats = rng.choice(TI_CLASSES)
        else:
            feats = [f for f in ("suspend", "prio", "pstate", "profile", "bound", "huge", "tiny") if rng.random() < 0.6]
    return Gen(rng, ti, set(feats)).workload()


def item_text(it):
    k = it[0]
    if k == "S":
        return ["S %r" % it[1]]
    if k == "W":
        return ["W %r" % it[1]]
    if k == "P":
        return ["P %s %d" % (it[1], it[2])]
    if k == "E":
        return ["E %d %s %r %r %r" % tuple(it[1:])]
    if k == "C":
        return ["C %d %s %s %r" % tuple(it[1:5])]
    if k == "PUT":
        return ["PUT %d %s %r %r" % tuple(it[1:])]
    if k == "GET":
        return ["GET %d %s" % tuple(it[1:])]
    if k == "AZ":
        return ["AZ %s %r %r" % tuple(it[1:])]
    if k == "Z":
        return ["Z %d %r %r" % tuple(it[1:])]
    if k == "U":
        return ["U %d %r %r" % tuple(it[1:])]
    if k == "G":
        out = ["G %d %d" % (len(it[1]), len(it[2]))]
        for a in it[1]:
            out += item_text(a)
        for c in it[2]:
            out += item_text(c)
        return out
    raise ValueError(k)


def workload_text(w):
    out = platform_text(w["platform"])
    for a in w["actors"]:
        out.append("A %s %s" % (a["name"], a["host"]))
        for it in a["script"]:
            out += item_text(it)
    return "\n".join(out) + "\n"


def all_acts(w):
    """id -> item (E / C / PUT); a GET shares the id of its PUT."""
    acts = {}
    for a in w["actors"]:
        for it in a["script"]:
            if it[0] in ("E", "C", "PUT"):
                acts[it[1]] = it
            elif it[0] == "G":
                for y in it[1]:
                    acts[y[1]] = y
    return acts


def features_used(w):
    """Dynamic features actually present in the scripts / platform (what a disagreement key names)."""
    f = set()
    if any(h.get("profile") for h in w["platform"]["hosts"]):
        f.add("profile")
    if any(l.get("bwprof") or l.get("latprof") for l in w["platform"]["links"]):
        f.add("linkprofile")
    for a in w["actors"]:
        for it in a["script"]:
            if it[0] == "AZ":
                f.add("suspend")
            elif it[0] == "P":
                f.add("pstate")
            elif it[0] == "G":
                for c in it[2]:
                    if c[0] == "Z":
                        f.add("suspend")
                    elif c[0] == "U":
                        f.add("prio")
                    elif c[0] == "P":
                        f.add("pstate")
    return f
