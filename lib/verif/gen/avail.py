"""Generators of scenarios for harness/avail.cpp: platforms with availability profiles (C22) and energy workloads (C23).

A scenario is a JSON-able dict:
  {"mode": "exact"|"decimal", "via": "api"|"xml", "flags": [...], "hflags": [...],
   "hosts": [{"name","cores","speeds":[...],"props":{...}}], "links": [{"name","bw","lat","policy"}],
   "routes": [{"src","dst","links":[...]}],
   "profiles": [{"kind": speed|hstate|bw|lat|lstate, "res", "pts": [[date,value]...], "loop": None|["LOOPAFTER",D]|["PERIODICITY",P],
                 "how": "str"|"strarg"|"file"|"xml"}],
   "plugins": [...], "actors": [{"name","host","ops":[[tokens...]]}]}
"exact" scenarios only use numbers that are multiples of 2^-6 below 2^31, so that every date SimGrid computes by adding deltas is exact and
a sampler sleeping until a profile date wakes up exactly at it; "decimal" ones use decimal fractions (0.1, 0.35...) whose sums round.
"""
import math

KIND_ATTR = {"speed": "availability_file", "hstate": "state_file", "bw": "bandwidth_file", "lat": "latency_file", "lstate": "state_file"}


def num(x):
    if isinstance(x, int):
        return str(x)
    return repr(float(x))


# ------------------------------------------------------------------------------------------------------------ rendering
def profile_text(p, with_loop=True):
    lines = []
    loop = p.get("loop")
    head = p.get("loop_first") and loop and with_loop
    if head:
        lines.append("%s %s" % (loop[0], num(loop[1])))
    if p.get("comment"):
        lines.append("# generated profile")
    for d, v in p["pts"]:
        lines.append("%s %s" % (num(d), num(v)))
    if loop and with_loop and not head:
        lines.append("%s %s" % (loop[0], num(loop[1])))
    return lines


def render(sc):
    """-> (stdin text, {relative file name: content})"""
    files = {}
    out = []
    for pl in sc.get("plugins", []):
        out.append("plugin " + pl)
    if sc["via"] == "xml":
        attrs = {}
        for i, p in enumerate(sc["profiles"]):
            fn = "prof%d_%s_%s.txt" % (i, p["res"], p["kind"])
            files[fn] = "\n".join(profile_text(p)) + "\n"
            attrs.setdefault(p["res"], []).append('%s="%s"' % (KIND_ATTR[p["kind"]], fn))
        x = ["<?xml version='1.0'?>", '<!DOCTYPE platform SYSTEM "https://simgrid.org/simgrid.dtd">', '<platform version="4.1">',
             '  <zone id="world" routing="Full">']
        for h in sc["hosts"]:
            x.append('    <host id="%s" speed="%s" core="%d" %s%s>' % (h["name"], ",".join(num(s) + "f" for s in h["speeds"]), h["cores"],
                                                                     " ".join(attrs.get(h["name"], [])),
                                                                     ' pstate="%d"' % h["pstate"] if h.get("pstate") else ""))
            for k, v in sorted(h.get("props", {}).items()):
                x.append('      <prop id="%s" value="%s"/>' % (k, v))
            x.append("    </host>")
        for l in sc["links"]:
            x.append('    <link id="%s" bandwidth="%sBps" latency="%ss" sharing_policy="%s" %s>' %
                     (l["name"], num(l["bw"]), num(l["lat"]), l["policy"], " ".join(attrs.get(l["name"], []))))
            for k, v in sorted(l.get("props", {}).items()):
                x.append('      <prop id="%s" value="%s"/>' % (k, v))
            x.append("    </link>")
        for r in sc["routes"]:
            x.append('    <route src="%s" dst="%s">%s</route>' % (r["src"], r["dst"], "".join('<link_ctn id="%s"/>' % n for n in r["links"])))
        x += ["  </zone>", "</platform>"]
        files["platform.xml"] = "\n".join(x) + "\n"
        out.append("xml platform.xml")
    else:
        for h in sc["hosts"]:
            out.append("host %s %d %s%s%s" % (h["name"], h["cores"], ",".join(num(s) for s in h["speeds"]),
                                              "".join(" %s=%s" % kv for kv in sorted(h.get("props", {}).items())),
                                              " @pstate=%d" % h["pstate"] if h.get("pstate") else ""))
        for l in sc["links"]:
            out.append("link %s %s %s %s%s" % (l["name"], num(l["bw"]), num(l["lat"]), l["policy"],
                                               "".join(" %s=%s" % kv for kv in sorted(l.get("props", {}).items()))))
        for r in sc["routes"]:
            out.append("route %s %s %s" % (r["src"], r["dst"], ",".join(r["links"])))
        for i, p in enumerate(sc["profiles"]):
            if p["how"] == "file":
                fn = "prof%d_%s_%s.txt" % (i, p["res"], p["kind"])
                files[fn] = "\n".join(profile_text(p)) + "\n"
                out.append("profile %s %s file %s" % (p["kind"], p["res"], fn))
            elif p["how"] == "strarg":      # periodicity given as the third argument of ProfileBuilder::from_string
                out.append("profile %s %s str %s" % (p["kind"], p["res"], num(p["loop"][1])))
                out += profile_text(p, with_loop=False) + ["endprofile"]
            else:
                out.append("profile %s %s str -1" % (p["kind"], p["res"]))
                out += profile_text(p) + ["endprofile"]
    for a in sc["actors"]:
        out.append("actor %s %s" % (a["name"], a["host"]))
        for op in a["ops"]:
            out.append(" ".join(x if isinstance(x, str) else num(x) for x in op))
        out.append("endactor")
    return "\n".join(out) + "\n", files


# ------------------------------------------------------------------------------------------------------------ running
class CaseResult:
    __slots__ = ("rc", "out", "err", "timed_out", "signal")

    def __init__(self, rc, out, err, timed_out, signal):
        self.rc, self.out, self.err, self.timed_out, self.signal = rc, out, err, timed_out, signal


def run_batch(exe, scenarios, prefix, per_case_budget=120):
    """Run the scenarios one after the other, each in its own forked process of ONE harness invocation (`avail --batch`): the
    framework's process runner costs seconds per process on a loaded machine. Returns one CaseResult per scenario."""
    import os
    import shutil
    import tempfile
    from verif import proc
    d = tempfile.mkdtemp(prefix=prefix)
    try:
        for i, sc in enumerate(scenarios):
            cd = os.path.join(d, str(i))
            os.mkdir(cd)
            text, files = render(sc)
            files = dict(files)
            files["stdin.txt"] = text
            files["args.txt"] = "\n".join(["--log=root.thres:critical"] + sc["flags"] + sc["hflags"]) + "\n"
            for fn, content in files.items():
                with open(os.path.join(cd, fn), "w") as f:
                    f.write(content)
        res = proc.run([exe, "--batch", d, str(len(scenarios)), str(per_case_budget)], timeout=per_case_budget * len(scenarios) + 60)
        out = []
        for i in range(len(scenarios)):
            cd = os.path.join(d, str(i))

            def rd(fn):
                try:
                    with open(os.path.join(cd, fn), errors="replace") as f:
                        return f.read()
                except OSError:
                    return ""
            st = rd("status.txt").split()
            if not st:                       # the batch driver itself was stopped by the outer watchdog
                out.append(CaseResult(None, rd("out.txt"), rd("err.txt"), True, 0))
            elif st[0] == "timeout":
                out.append(CaseResult(None, rd("out.txt"), rd("err.txt"), True, 0))
            elif st[0] == "signal":
                out.append(CaseResult(-int(st[1]), rd("out.txt"), rd("err.txt"), False, int(st[1])))
            else:
                rc = int(st[1])
                out.append(CaseResult(rc, rd("out.txt"), rd("err.txt"), False, rc - 128 if 128 < rc < 160 else 0))
        return out
    finally:
        shutil.rmtree(d, ignore_errors=True)


# ------------------------------------------------------------------------------------------------------------ numbers
class Grid:
    def __init__(self, rng, mode):
        self.rng, self.mode = rng, mode
        if mode == "exact":
            self.step = rng.choice([0.125, 0.25, 0.5, 0.5, 1.0])
        else:
            self.step = rng.choice([0.1, 0.1, 0.05, 0.35, 0.7, 1.0])

    def date(self, lo, hi):
        k0, k1 = int(math.ceil(lo / self.step - 1e-9)), int(math.floor(hi / self.step + 1e-9))
        k = self.rng.randint(k0, max(k0, k1))
        if self.mode == "exact":
            return k * self.step
        return float("%.10g" % (k * self.step))

    def eps(self):
        if self.mode == "exact":
            return self.rng.choice([2.0 ** -6, 2.0 ** -6, 2.0 ** -4])
        return self.rng.choice([1e-6, 1e-3, 1e-8])


def gen_profile(rng, grid, kind, base, zero_ok=False, many=False, first_zero=None, must_loop=False):
    n = rng.choice([1, 2, 2, 3, 3, 4, 5, 6])
    if many:
        n = rng.randint(8, 20)
    span = grid.step * rng.choice([4, 8, 8, 16, 32])
    dates = sorted(grid.date(0, span) for _ in range(n))
    r = rng.random()
    if first_zero is True or (first_zero is None and r < 0.25):
        dates[0] = 0.0
    elif first_zero is False and dates[0] == 0.0:
        dates = [d + grid.step for d in dates]
    if n >= 2 and rng.random() < 0.12:        # two points at the same date: the later one wins
        i = rng.randrange(1, n)
        dates[i] = dates[i - 1]
    dates = sorted(dates)
    if kind == "speed":
        pool = [0.125, 0.25, 0.5, 0.5, 0.75, 1.0, 1.0] + ([0.0, 0.0] if zero_ok else [])
    elif kind == "bw":
        pool = [base / 4, base / 2, base / 2, base, base, base * 2] + ([0.0, 0.0] if zero_ok else [])
    elif kind == "lat":
        pool = [0.125, 0.25, 0.5, 1.0, base, base] if grid.mode == "exact" else [0.1, 0.01, 0.3, 1.0, base, base]
        if rng.random() < 0.15:
            pool.append(0.0)
    else:
        pool = [0.0, 1.0, 1.0, 0.0, 1.0, 2.0]          # "any other value than zero means ON"
    vals = []
    for i in range(n):
        v = rng.choice(pool)
        if kind in ("hstate", "lstate") and vals and rng.random() < 0.7:
            v = 0.0 if vals[-1] > 0 else 1.0         # mostly alternate
        vals.append(v)
    r = rng.random()
    last = dates[-1]
    if must_loop and r < 0.4:
        r = 0.4 + 0.6 * rng.random()
    if r < 0.4:
        loop = None
    elif r < 0.75:
        d = grid.date(0, 4 * grid.step * rng.choice([1, 2, 4]))
        if last + d <= 0:
            d = grid.step * 4
        loop = ["LOOPAFTER", d]
    else:
        p = last + grid.date(0, 4 * grid.step * rng.choice([1, 2, 4]))
        if p <= 0:
            p = grid.step * 4
        loop = ["PERIODICITY", p]
    if kind in ("speed", "bw"):
        # never starve an activity for ever: the value that lasts (after the last point, or during the loop pause) is positive
        if vals[-1] == 0.0:
            vals[-1] = pool[1]
    prof = {"kind": kind, "pts": [[d, v] for d, v in zip(dates, vals)], "loop": loop}
    if kind in ("speed", "bw"):
        unstarve(prof)
    if rng.random() < 0.2:
        prof["loop_first"] = True
    if rng.random() < 0.2:
        prof["comment"] = True
    return prof


def unstarve(prof):
    """Make sure a speed / bandwidth profile lets activities progress in the long run (positive integral over its steady state)."""
    from verif.oracles import avail as orc
    per = orc.period_of(prof)
    last = prof["pts"][-1][0]
    if per is None:
        return prof
    ev = orc.expand(prof, last + 3 * per)
    st = orc.Step(1.0, ev)
    a, b = last + per, last + 2 * per
    cuts = sorted(set([a, b] + [d for d, _ in ev if a < d < b]))
    integral = sum(st.at(x) * (y - x) for x, y in zip(cuts, cuts[1:]))
    if integral <= 0:
        pos = [v for _, v in prof["pts"] if v > 0]
        for pt in prof["pts"]:
            if pt[1] == 0:
                pt[1] = pos[0] if pos else 0.5
    return prof


def pick_how(rng, prof):
    if prof["loop"] and prof["loop"][0] == "PERIODICITY" and rng.random() < 0.5:
        prof["loop_first"] = False
        return "strarg"
    return rng.choice(["str", "str", "file"])


# ------------------------------------------------------------------------------------------------------------ C22
def c22_scenario(rng, ti=False, zero=False, many=False):
    mode = "exact" if rng.random() < 0.65 else "decimal"
    grid = Grid(rng, mode)
    via = "xml" if rng.random() < 0.3 else "api"
    sc = {"mode": mode, "via": via, "profiles": [], "plugins": [], "actors": [], "links": [], "routes": [], "eps": grid.eps(), "step": grid.step}
    flags = []
    hflags = []
    if ti:
        flags.append("--cfg=cpu/optim:TI")
        hflags += ["--no-load", "--avail-only-profiled"]
    else:
        co = rng.choice(["Lazy", "Lazy", "Full"])
        no = rng.choice(["Lazy", "Lazy", "Full"])
        if co != "Lazy":
            flags.append("--cfg=cpu/optim:%s" % co)
        if no != "Lazy":
            flags.append("--cfg=network/optim:%s" % no)
    flags += ["--cfg=network/model:CM02", "--cfg=network/TCP-gamma:0", "--cfg=network/crosstraffic:0"]
    sc["flags"], sc["hflags"] = flags, hflags
    sc["hosts"] = [{"name": "obs", "cores": 1, "speeds": [1.0]}]
    nh = rng.choice([1, 1, 2, 3]) if not ti else rng.choice([1, 2])
    for i in range(nh):
        sp = rng.choice([1.0, 2.0, 8.0, 1024.0, 2.0 ** 30]) if mode == "exact" else rng.choice([1.0, 2.5, 100.0, 1e9])
        h = {"name": "h%d" % (i + 1), "cores": 1 if ti else rng.choice([1, 1, 2, 3]), "speeds": [sp]}
        sc["hosts"].append(h)
        if ti or rng.random() < 0.8:
            if ti:
                r = rng.random()
                p = gen_profile(rng, grid, "speed", 1.0, zero_ok=False, many=many, first_zero=(r < 0.7), must_loop=True)
                while len(p["pts"]) < 2:      # a one-point profile is a FIXED trace for TI (get_available_speed() crashes on it: directed case)
                    p = gen_profile(rng, grid, "speed", 1.0, zero_ok=False, many=many, first_zero=(r < 0.7), must_loop=True)
            else:
                p = gen_profile(rng, grid, "speed", 1.0, zero_ok=zero, many=many and rng.random() < 0.5)
            p["res"] = h["name"]
            sc["profiles"].append(p)
        if not ti and rng.random() < 0.4:
            p = gen_profile(rng, grid, "hstate", 1.0)
            p["res"] = h["name"]
            sc["profiles"].append(p)
    nn = 0 if ti else rng.choice([0, 1, 1, 2])
    lat_routes = set()
    for j in range(nn):
        n = {"name": "n%d" % (j + 1), "cores": 1, "speeds": [1.0]}
        sc["hosts"].append(n)
        ls = []
        for k in range(rng.choice([1, 1, 2])):
            bw = rng.choice([4.0, 16.0, 1024.0, 2.0 ** 27]) if mode == "exact" else rng.choice([10.0, 125.0, 1.25e8])
            lat = rng.choice([0.0, 0.125, 0.25, 0.5]) if mode == "exact" else rng.choice([0.0, 0.1, 0.003, 0.25])
            l = {"name": "l%d%s" % (j + 1, "ab"[k]), "bw": bw, "lat": lat, "policy": "SHARED" if rng.random() < 0.8 else "FATPIPE"}
            sc["links"].append(l)
            ls.append(l["name"])
            if rng.random() < 0.7:
                p = gen_profile(rng, grid, "bw", bw, zero_ok=zero, many=many and rng.random() < 0.3)
                p["res"] = l["name"]
                sc["profiles"].append(p)
            if rng.random() < 0.25:
                p = gen_profile(rng, grid, "lat", lat)
                p["res"] = l["name"]
                sc["profiles"].append(p)
                lat_routes.add(n["name"])
            if rng.random() < 0.3:
                p = gen_profile(rng, grid, "lstate", 1.0)
                p["res"] = l["name"]
                sc["profiles"].append(p)
        sc["routes"].append({"src": "obs", "dst": n["name"], "links": ls})
    for p in sc["profiles"]:
        p["how"] = "xml" if via == "xml" else pick_how(rng, p)

    # ---- workers (all on the observer host, which has no profile) ----
    xh = [h for h in sc["hosts"] if h["name"].startswith("h")]
    nhosts = [h for h in sc["hosts"] if h["name"].startswith("n")]
    tmax = grid.step * rng.choice([16, 32, 64])
    tasks = []
    nt = rng.randint(2, 7)
    for i in range(nt):
        start = grid.date(0, tmax)
        if rng.random() < 0.15:
            start = 0.0
        # ties with profile dates
        if sc["profiles"] and rng.random() < 0.3:
            p = rng.choice(sc["profiles"])
            start = rng.choice(p["pts"])[0]
        dur = grid.step * rng.choice([1, 2, 2, 4, 4, 8, 16, 24])
        if nhosts and rng.random() < 0.45:
            n = rng.choice(nhosts)
            r = [r for r in sc["routes"] if r["dst"] == n["name"]][0]
            bw = min(l["bw"] for l in sc["links"] if l["name"] in r["links"])
            tasks.append({"k": "comm", "start": start, "dst": n["name"], "size": float(max(1, int(bw * dur)))})
        else:
            h = rng.choice(xh)
            bound = 0.0
            if not ti and rng.random() < 0.2:
                bound = h["speeds"][0] * rng.choice([0.25, 0.5])
            tasks.append({"k": "exec", "start": start, "host": h["name"], "flops": h["speeds"][0] * dur, "bound": bound})
    nact = rng.choice([1, 2, 2, 3])
    scripts = {}
    for t in tasks:
        if t["k"] == "comm" and t["dst"] in lat_routes:
            scripts.setdefault("c_" + t["dst"], []).append((t, False))       # one message at a time on routes whose latency changes
        else:
            scripts.setdefault("w%d" % rng.randrange(nact), []).append((t, rng.random() < 0.5))
    idn = 0
    for an in sorted(scripts):
        ops = []
        waits = []
        for t, asyn in sorted(scripts[an], key=lambda z: z[0]["start"]):
            idn += 1
            ops.append(["until", t["start"]])
            if t["k"] == "exec":
                i = "x%d" % idn
                ops.append(["xstart" if asyn else "exec", i, t["host"], t["flops"], t["bound"], 1.0, 1])
                if asyn:
                    waits.append(["xwait", i])
            else:
                i = "c%d" % idn
                ops.append(["cstart" if asyn else "comm", i, "obs", t["dst"], int(t["size"])])
                if asyn:
                    waits.append(["cwait", i])
            t["id"] = i
        sc["actors"].append({"name": an, "host": "obs", "ops": ops + waits})
    sc["tasks"] = tasks
    return sc, grid


def add_sampler(sc, dates, eps, tmax):
    """One actor sampling every resource just before, at, and just after each date."""
    pts = set([0.0])
    for d in dates:
        for x in (d - eps, d, d + eps):
            if 0 <= x <= tmax:
                pts.add(x)
    ops = []
    for x in sorted(pts):
        ops.append(["until", x])
        ops.append(["sample"])
    sc["actors"].append({"name": "sampler", "host": "obs", "ops": ops})


# ------------------------------------------------------------------------------------------------------------ C23
def watts(rng, np_, mode):
    out = []
    for _ in range(np_):
        if mode == "exact":
            idle = float(rng.choice([0, 16, 64, 96]))
            eps = idle + float(rng.choice([0, 8, 32]))
            mx = eps + float(rng.choice([0, 16, 64, 128]))
        else:
            idle = round(rng.uniform(0, 120), 1)
            eps = round(idle + rng.uniform(0, 40), 1)
            mx = round(eps + rng.uniform(0, 150), 1)
        out.append([idle, eps, mx])
    return out


def c23_scenario(rng):
    mode = "exact" if rng.random() < 0.6 else "decimal"
    grid = Grid(rng, mode)
    via = "xml" if rng.random() < 0.25 else "api"
    sc = {"mode": mode, "via": via, "profiles": [], "plugins": ["host_energy"], "actors": [], "links": [], "routes": [], "step": grid.step}
    flags = []
    if rng.random() < 0.25:
        flags.append("--cfg=cpu/optim:Full")
    sc["flags"], sc["hflags"] = flags, []
    sc["hosts"] = []
    two_values = rng.random() < 0.2

    def mkhost(name, cores, np_):
        # pstates within a factor 8 of each other: an exec sized for one pstate must not last for ages under another one
        if mode == "exact":
            base = rng.choice([1.0, 64.0, 2.0 ** 20])
            speeds = sorted((base * x for x in rng.sample([1.0, 2.0, 4.0, 8.0], np_)), reverse=True)
        else:
            base = rng.choice([1.0, 33.0, 7.5e8])
            speeds = sorted((base * x for x in rng.sample([1.0, 0.8, 0.5, 0.25, 0.125], np_)), reverse=True)
        w = watts(rng, np_, mode)
        if two_values:
            for x in w:
                x[1] = x[0]
            prop = ",".join("%s:%s" % (num(a), num(c)) for a, _, c in w)
        else:
            prop = ",".join("%s:%s:%s" % (num(a), num(b), num(c)) for a, b, c in w)
        off = float(rng.choice([0, 4, 10])) if mode == "exact" else round(rng.uniform(0, 12), 1)
        h = {"name": name, "cores": cores, "speeds": speeds, "props": {"wattage_per_state": prop}, "energy": {"watts": w, "off": off}}
        if np_ > 1 and rng.random() < 0.25:
            h["pstate"] = rng.randrange(1, np_)
        if off != 0 or rng.random() < 0.5:
            h["props"]["wattage_off"] = num(off)
        else:
            h["energy"]["off"] = 0.0
        return h
    sc["hosts"].append(mkhost("obs", 1, 1))
    ne = rng.choice([1, 1, 2])
    for i in range(ne):
        sc["hosts"].append(mkhost("e%d" % (i + 1), rng.choice([1, 2, 2, 4]), rng.choice([1, 2, 3])))
    eh = sc["hosts"][1:]
    tmax = grid.step * rng.choice([16, 32, 64])
    # ---- control timeline per host: on/off (manual, or a state profile), pstate switches ----
    ctl = []
    volatile = set()      # hosts that may be off at some point: their execs may fail at any time
    for h in eh:
        if rng.random() < 0.25:
            volatile.add(h["name"])
            p = gen_profile(rng, grid, "hstate", 1.0)
            p["res"] = h["name"]
            p["how"] = "xml" if via == "xml" else pick_how(rng, p)
            sc["profiles"].append(p)
        elif rng.random() < 0.5:
            volatile.add(h["name"])
            t = 0.0
            on = True
            for _ in range(rng.randint(1, 4)):
                t = grid.date(t, min(tmax, t + tmax / 2))
                ctl.append((t, ["off" if on else "on", h["name"]]))
                on = not on
        if len(h["speeds"]) > 1:
            for _ in range(rng.randint(1, 4)):
                ctl.append((grid.date(0, tmax), ["pstate", h["name"], rng.randrange(len(h["speeds"]))]))
    ops = []
    for t, op in sorted(ctl, key=lambda z: z[0]):
        ops += [["until", t], op]
    if ops:
        sc["actors"].append({"name": "ctl", "host": "obs", "ops": ops})
    # ---- workers ----
    nact = rng.choice([1, 2, 3])
    idn = 0
    for a in range(nact):
        ops, waits = [], []
        t = 0.0
        mine = []
        for _ in range(rng.randint(1, 5)):
            t = grid.date(t, min(tmax, t + tmax / 3)) if rng.random() < 0.85 else t
            h = rng.choice(eh)
            idn += 1
            i = "x%d" % idn
            dur = grid.step * rng.choice([1, 2, 4, 4, 8, 16])
            thr = 1 if rng.random() < 0.7 else rng.randint(1, h["cores"])
            bound = 0.0
            if thr == 1 and rng.random() < 0.2:
                bound = min(h["speeds"]) * rng.choice([0.25, 0.5])
            asyn = rng.random() < 0.6
            ops.append(["until", t])
            ops.append(["xstart" if asyn else "exec", i, h["name"], h["speeds"][0] * dur * thr, bound, 1.0, thr])
            if asyn:
                mine.append((i, h))
                # suspend / cancel / migrate only what cannot have failed meanwhile (Activity::suspend() on a failed exec crashes in
                # ActivityImpl::suspend, null model_action_: not an energy matter)
                r = rng.random() if h["name"] not in volatile else 1.0
                # ... nor ended: at full speed the exec lasts `dur`; the control comes strictly before that (suspending an exec that
                # ended at this very date crashes the same way)
                t2 = grid.date(t, t + dur - grid.step) if dur >= 2 * grid.step else t + dur
                if t2 >= t + dur:
                    r = 1.0
                if r < 0.2:
                    t3 = grid.date(t2, t2 + 4 * grid.step)
                    ops += [["until", t2], ["xsuspend", i], ["until", t3], ["xresume", i]]
                    t = t3
                elif r < 0.3:
                    ops += [["until", t2], ["xcancel", i]]
                    t = t2
                elif r < 0.42 and len(eh) > 1:
                    other = [x for x in eh if x is not h][0]
                    if thr == 1 and other["name"] not in volatile:     # (ExecImpl::migrate restarts the exec on ONE core of the destination)
                        ops += [["until", t2], ["xmigrate", i, other["name"]]]
                        t = t2
                waits.append(["xwait", i])
        sc["actors"].append({"name": "w%d" % a, "host": "obs", "ops": ops + waits})
    return sc, grid, tmax


def add_energy_observer(sc, rng, grid, tmax, dates, n=8):
    """Observation dates: random ones, and ties with control dates. The observer never changes simulated time of the others."""
    pts = set()
    for _ in range(n):
        pts.add(grid.date(0, tmax * 1.5))
    for d in dates:
        if rng.random() < 0.3:
            pts.add(d)
    ops = []
    for x in sorted(pts):
        ops += [["until", x], ["energy"]]
    sc["actors"].append({"name": "zobs", "host": "obs", "ops": ops})
    return sorted(pts)


def c23_link_scenario(rng):
    """Link energy: one route of 1-2 SHARED links with a wattage_range, messages one after the other or two at a time."""
    mode = "exact"
    grid = Grid(rng, mode)
    sc = {"mode": mode, "via": "xml" if rng.random() < 0.25 else "api", "profiles": [], "plugins": ["link_energy"], "actors": [], "step": grid.step,
          "flags": ["--cfg=network/model:CM02", "--cfg=network/TCP-gamma:0", "--cfg=network/crosstraffic:0"] +
                   (["--cfg=network/optim:Full"] if rng.random() < 0.25 else []), "hflags": []}
    sc["hosts"] = [{"name": "obs", "cores": 1, "speeds": [1.0]}, {"name": "n1", "cores": 1, "speeds": [1.0]}]
    nolat = rng.random() < 0.6
    sc["links"] = []
    for k in range(rng.choice([1, 1, 2])):
        idle = float(rng.choice([0, 8, 16]))
        busy = idle + float(rng.choice([0, 16, 64]))
        sc["links"].append({"name": "l1" + "ab"[k], "bw": rng.choice([4.0, 16.0, 1024.0]), "lat": 0.0 if nolat else rng.choice([0.0, 0.25, 0.5]),
                            "policy": "SHARED", "props": {"wattage_range": "%s:%s" % (num(idle), num(busy))}, "energy": {"idle": idle, "busy": busy}})
    if not nolat and all(l["lat"] == 0 for l in sc["links"]):
        sc["links"][0]["lat"] = 0.25
    sc["routes"] = [{"src": "obs", "dst": "n1", "links": [l["name"] for l in sc["links"]]}]
    bw = min(l["bw"] for l in sc["links"])
    tmax = grid.step * 32
    idn = 0
    for a in range(rng.choice([1, 1, 2])):
        ops = []
        t = 0.0
        for _ in range(rng.randint(1, 4)):
            t = grid.date(t, t + tmax / 4)
            idn += 1
            ops += [["until", t], ["comm", "c%d" % idn, "obs", "n1", int(bw * grid.step * rng.choice([1, 2, 4, 8]))]]
            if rng.random() < 0.5:
                ops.append(["energy"])
        sc["actors"].append({"name": "w%d" % a, "host": "obs", "ops": ops})
    ops = []
    for _ in range(4):
        ops += [["until", grid.date(0, tmax * 3)], ["energy"]]
    ops.sort(key=lambda o: 0)
    dates = sorted(o[1] for o in ops if o[0] == "until")
    ops = []
    for d in dates:
        ops += [["until", d], ["energy"]]
    ops += [["until", tmax * 6], ["energy"]]
    sc["actors"].append({"name": "zobs", "host": "obs", "ops": ops})
    return sc
