"""Platform descriptions for harness/route_dump2.cpp (engine E3 of C24 and C26).

* Plat: records the declared ground truth (zones, netpoints, links, routes, gateways, bypasses, coordinates) and emits
  the spec lines the harness executes through the C++ platform API (format of harness/route_dump2.cpp), or an XML
  platform file when everything it contains can be said in XML;
* gen_tree(): random nested zones for C24 (hierarchical composition);
* run_batch()/parse(): batch runner (one forked child per platform under a CPU-time watchdog) and output parser.

Only platforms that respect the API contract are built here (the properties quantify over valid platforms):
- routed zones (Full/Floyd/Dijkstra) that contain sub-zones only declare zone<->zone routes with both gateways;
- every gateway is a host or router inside the zone it serves (directly or in a sub-zone, as documented);
- every pair of netpoints that the composition may ask a zone about has a declared route (Full: all ordered pairs;
  Floyd/Dijkstra: a spanning tree of two-way routes, so that the chain is unique; Star/Vivaldi: up and down of every member).
"""
import os
import tempfile

from verif import build, proc

UP, DOWN, NONE = "U", "D", ""

ROUTED = ("full", "floyd", "dijkstra", "dijkstracache")
STARLIKE = ("star", "vivaldi")
XML_KIND = {"full": "Full", "floyd": "Floyd", "dijkstra": "Dijkstra", "dijkstracache": "DijkstraCache", "vivaldi": "Vivaldi"}


class Plat:
    """One platform: ground truth + spec lines."""

    def __init__(self, pid):
        self.id = pid
        self.lines = []
        self.zones = {}        # name -> dict(kind, parent, params, children[], hosts[], routers[])
        self.zone_order = []
        self.np = {}           # netpoint name -> dict(type, zone)
        self.links = {}        # declared name -> dict(lat, policy, zone)
        self.routes = {}       # zone -> [dict(src,dst,gw_src,gw_dst,sym,links=[(name,dir)])]
        self.star = {}         # zone -> {node: dict(up, down, loop, gw, up_set, down_set)}  (resolved link names)
        self.star_decl = {}    # zone -> [(node, direction, links, gw, sym)] as declared (for replays)
        self.bypass = {}       # zone -> [dict(src,dst,gw_src,gw_dst,links)]
        self.coords = {}       # netpoint -> (x,y,z)
        self.gateway = {}      # zone -> default gateway netpoint
        self.queries = []
        self.tags = set()      # structural features used for violation keys / non-triviality
        self.xml_ok = True     # everything declared so far can be said in an XML platform file

    # -- declarations ------------------------------------------------------------------------------------------------
    def zone(self, name, parent, kind, *params):
        self.zones[name] = dict(kind=kind, parent=parent, params=params, children=[], hosts=[], routers=[])
        self.zone_order.append(name)
        self.np[name] = dict(type="zone", zone=parent)
        if parent:
            self.zones[parent]["children"].append(name)
        self.lines.append(" ".join(["Z", name, parent or "-", kind] + [str(p) for p in params]))
        self.routes[name] = []
        self.star[name] = {}
        self.star_decl[name] = []
        self.bypass[name] = []
        if kind not in XML_KIND:
            self.xml_ok = False
        return name

    def host(self, name, zone, coords=None):
        self.np[name] = dict(type="host", zone=zone)
        self.zones[zone]["hosts"].append(name)
        self.lines.append("H %s %s%s" % (name, zone, (" %r %r %r" % coords) if coords else ""))
        if coords:
            self.coords[name] = coords
        return name

    def router(self, name, zone, coords=None):
        self.np[name] = dict(type="router", zone=zone)
        self.zones[zone]["routers"].append(name)
        self.lines.append("R %s %s%s" % (name, zone, (" %r %r %r" % coords) if coords else ""))
        if coords:
            self.coords[name] = coords
        return name

    def zone_coords(self, zone, coords):
        self.coords[zone] = coords
        self.lines.append("C %s %r %r %r" % ((zone,) + coords))
        self.xml_ok = False

    def link(self, name, zone, lat, policy="S"):
        self.links[name] = dict(lat=lat, policy=policy, zone=zone)
        self.lines.append("L %s %s %r %s" % (name, zone, lat, policy))
        return name

    @staticmethod
    def _tok(links):
        return [n + (":" + d if d else "") for n, d in links]

    def route(self, zone, src, dst, links, sym):
        """Route between two netpoints (hosts/routers) of the same zone."""
        self.routes[zone].append(dict(src=src, dst=dst, gw_src=None, gw_dst=None, sym=sym, links=list(links)))
        self.lines.append(" ".join(["A", zone, src, dst, "1" if sym else "0"] + self._tok(links)))

    def zroute(self, zone, src, dst, gw_src, gw_dst, links, sym):
        """Route between two child zones with explicit gateways."""
        self.routes[zone].append(dict(src=src, dst=dst, gw_src=gw_src, gw_dst=gw_dst, sym=sym, links=list(links)))
        self.lines.append(" ".join(["AZ", zone, src, dst, gw_src, gw_dst, "1" if sym else "0"] + self._tok(links)))

    def zroute_default(self, zone, src, dst, links, sym):
        """NetZone* overload: the default gateways of both zones are used."""
        self.routes[zone].append(dict(src=src, dst=dst, gw_src=self.gateway[src], gw_dst=self.gateway[dst], sym=sym,
                                      links=list(links), default_gw=True))
        self.lines.append(" ".join(["AN", zone, src, dst, "1" if sym else "0"] + self._tok(links)))

    def star_route(self, zone, node, links, gw=None, sym=True, direction="up"):
        """Star zones: node -> everyone (direction 'up', optionally symmetrical), everyone -> node ('down'), or loopback."""
        self.xml_ok = False
        self.star_decl[zone].append((node, direction, list(links), gw, sym))
        ent = self.star[zone].setdefault(node, dict(up=[], down=[], loop=None, gw=None, up_set=False, down_set=False))
        if direction == "loop":
            ent["loop"] = [self.resolve(l, False) for l in links]
            self.lines.append(" ".join(["AS", zone, node, node, "-", "0"] + self._tok(links)))
            return
        if direction == "up":
            ent["up"] = [self.resolve(l, False) for l in links]
            ent["up_set"] = True
            ent["gw"] = gw
            if sym:
                ent["down"] = [self.resolve(l, True) for l in reversed(links)]
                ent["down_set"] = True
            self.lines.append(" ".join(["AS", zone, node, "-", gw or "-", "1" if sym else "0"] + self._tok(links)))
        else:
            ent["down"] = [self.resolve(l, False) for l in links]
            ent["down_set"] = True
            ent["gw"] = gw
            self.lines.append(" ".join(["AS", zone, "-", node, gw or "-", "0"] + self._tok(links)))

    def bypass_route(self, zone, src, dst, gw_src, gw_dst, links):
        self.bypass[zone].append(dict(src=src, dst=dst, gw_src=gw_src, gw_dst=gw_dst, links=list(links)))
        self.lines.append(" ".join(["B", zone, src, dst, gw_src or "-", gw_dst or "-"] + self._tok(links)))

    def set_gateway(self, zone, netpoint):
        self.gateway[zone] = netpoint
        self.lines.append("G %s %s" % (zone, netpoint))

    def seal(self, zone):
        self.lines.append("S " + zone)

    def q(self, line):
        self.lines.append(line)

    # -- helpers -----------------------------------------------------------------------------------------------------
    def resolve(self, link, backward):
        """Name of the link object actually traversed by a (name, direction) entry, forward or in the reversed copy."""
        name, d = link
        if self.links[name]["policy"] != "D":
            return name
        if backward:
            d = DOWN if d == UP else UP
        return name + ("_UP" if d == UP else "_DOWN")

    def forward(self, links):
        return [self.resolve(l, False) for l in links]

    def backward(self, links):
        return [self.resolve(l, True) for l in reversed(links)]

    def link_latency(self, resolved):
        if resolved in self.links:
            return self.links[resolved]["lat"]
        for suf in ("_UP", "_DOWN"):
            if resolved.endswith(suf) and resolved[:-len(suf)] in self.links:
                return self.links[resolved[:-len(suf)]]["lat"]
        if resolved == "__loopback__":
            return 0.0
        raise KeyError(resolved)

    def zone_path(self, npname):
        """Zones containing the netpoint, from the outermost declared zone down to its own zone."""
        z = self.np[npname]["zone"]
        out = []
        while z:
            out.insert(0, z)
            z = self.zones[z]["parent"]
        return out

    def subtree_netpoints(self, zone):
        """Hosts and routers of the zone and of its sub-zones."""
        out = list(self.zones[zone]["hosts"]) + list(self.zones[zone]["routers"])
        for c in self.zones[zone]["children"]:
            out += self.subtree_netpoints(c)
        return out

    def all_hosts(self):
        return [n for n, d in self.np.items() if d["type"] == "host"]

    def spec(self):
        return "P %s\n%s\nE\n" % (self.id, "\n".join(self.lines))

    def witness(self):
        return {"id": self.id, "spec": list(self.lines), "tags": sorted(self.tags)}

    # -- XML ---------------------------------------------------------------------------------------------------------
    def to_xml(self):
        """The same platform as an XML file (only when xml_ok): zones, hosts, routers, links, routes, zoneRoutes, bypasses."""
        assert self.xml_ok
        out = ["<?xml version='1.0'?>", '<!DOCTYPE platform SYSTEM "https://simgrid.org/simgrid.dtd">', '<platform version="4.1">']
        pol = {"S": "SHARED", "F": "FATPIPE", "D": "SPLITDUPLEX"}

        def ctn(links, ind):
            return ["%s<link_ctn id=\"%s\"%s/>" % (ind, n, {UP: ' direction="UP"', DOWN: ' direction="DOWN"', NONE: ""}[d]) for n, d in links]

        def emit(z, ind):
            zd = self.zones[z]
            out.append('%s<zone id="%s" routing="%s">' % (ind, z, XML_KIND[zd["kind"]]))
            i2 = ind + "  "
            for h in zd["hosts"]:
                c = self.coords.get(h)
                out.append('%s<host id="%s" speed="1Gf"%s/>' % (i2, h, (' coordinates="%r %r %r"' % c) if c else ""))
            for r in zd["routers"]:
                c = self.coords.get(r)
                out.append('%s<router id="%s"%s/>' % (i2, r, (' coordinates="%r %r %r"' % c) if c else ""))
            for c in zd["children"]:       # sub-zones first: the parser commits to the 'leaf zone' content model when a zone starts with a link
                emit(c, i2)
            for name, ld in self.links.items():
                if ld["zone"] == z:
                    out.append('%s<link id="%s" bandwidth="100MBps" latency="%rs" sharing_policy="%s"/>' % (i2, name, ld["lat"], pol[ld["policy"]]))
            for r in self.routes[z]:
                sym = "YES" if r["sym"] else "NO"
                if r["gw_src"]:
                    out.append('%s<zoneRoute src="%s" dst="%s" gw_src="%s" gw_dst="%s" symmetrical="%s">' % (i2, r["src"], r["dst"], r["gw_src"], r["gw_dst"], sym))
                    out.extend(ctn(r["links"], i2 + "  "))
                    out.append("%s</zoneRoute>" % i2)
                else:
                    out.append('%s<route src="%s" dst="%s" symmetrical="%s">' % (i2, r["src"], r["dst"], sym))
                    out.extend(ctn(r["links"], i2 + "  "))
                    out.append("%s</route>" % i2)
            for b in self.bypass[z]:
                if b["gw_src"]:
                    out.append('%s<bypassZoneRoute src="%s" dst="%s" gw_src="%s" gw_dst="%s">' % (i2, b["src"], b["dst"], b["gw_src"], b["gw_dst"]))
                    out.extend(ctn(b["links"], i2 + "  "))
                    out.append("%s</bypassZoneRoute>" % i2)
                else:
                    out.append('%s<bypassRoute src="%s" dst="%s">' % (i2, b["src"], b["dst"]))
                    out.extend(ctn(b["links"], i2 + "  "))
                    out.append("%s</bypassRoute>" % i2)
            out.append("%s</zone>" % ind)

        roots = [z for z in self.zone_order if self.zones[z]["parent"] is None]
        for z in roots:
            emit(z, "  ")
        out.append("</platform>")
        return "\n".join(out) + "\n"


def from_spec(pid, lines):
    """Rebuild a Plat (ground truth included) from the spec lines of a witness (directives of gen_tree platforms only)."""
    p = Plat(pid)

    def ll(toks):
        return [(x[:-2], x[-1]) if x[-2:] in (":U", ":D") else (x, "") for x in toks]

    def opt(x):
        return None if x == "-" else x

    for line in lines:
        t = line.split()
        if not t:
            continue
        k = t[0]
        if k == "Z":
            p.zone(t[1], opt(t[2]), t[3], *t[4:])
        elif k == "H":
            p.host(t[1], t[2], tuple(float(x) for x in t[3:6]) if len(t) >= 6 else None)
        elif k == "R":
            p.router(t[1], t[2], tuple(float(x) for x in t[3:6]) if len(t) >= 6 else None)
        elif k == "C":
            p.zone_coords(t[1], tuple(float(x) for x in t[2:5]))
        elif k == "L":
            p.link(t[1], t[2], float(t[3]), t[4])
        elif k == "A":
            p.route(t[1], t[2], t[3], ll(t[5:]), t[4] == "1")
        elif k == "AZ":
            p.zroute(t[1], t[2], t[3], t[4], t[5], ll(t[7:]), t[6] == "1")
        elif k == "AN":
            p.zroute_default(t[1], t[2], t[3], ll(t[5:]), t[4] == "1")
        elif k == "AS":
            s, d, g = opt(t[2]), opt(t[3]), opt(t[4])
            if s and d:
                p.star_route(t[1], s, ll(t[6:]), direction="loop")
            elif s:
                p.star_route(t[1], s, ll(t[6:]), gw=g, sym=t[5] == "1", direction="up")
            else:
                p.star_route(t[1], d, ll(t[6:]), gw=g, sym=False, direction="down")
        elif k == "B":
            p.bypass_route(t[1], t[2], t[3], opt(t[4]), opt(t[5]), ll(t[6:]))
        elif k == "G":
            p.set_gateway(t[1], t[2])
        elif k == "S":
            p.seal(t[1])
            zd = p.zones[t[1]]
            if t[1] not in p.gateway:      # what NetZoneImpl::seal() documents: the only host (or the only router of a host-less zone) is the default gateway
                if len(zd["hosts"]) == 1:
                    p.gateway[t[1]] = zd["hosts"][0]
                elif not zd["hosts"] and not zd["children"] and len(zd["routers"]) == 1:
                    p.gateway[t[1]] = zd["routers"][0]
        elif k in ("Q", "Q2", "LQ", "LQA", "LINKS", "XML"):
            pass
        else:
            raise ValueError("from_spec: unknown directive %r" % line)
    return p


# ---------------------------------------------------------------------------------------------------------------------
# C24: random nested zones
# ---------------------------------------------------------------------------------------------------------------------
LATS = [0.0, 1e-3, 2.5e-4, 1e-6, 3.1e-5, 7e-3, 0.0125, 4.7e-4]


class TreeGen:
    def __init__(self, rng, pid, depth, internal_kinds, leaf_kinds, max_hosts=40, bypass=0.0, avoid_deep=False,
                 dijkstra_same_gw=True, xml_only=False):
        self.rng = rng
        self.p = Plat(pid)
        self.depth = depth
        self.internal_kinds = internal_kinds
        self.leaf_kinds = leaf_kinds
        self.max_hosts = max_hosts
        self.bypass = bypass
        self.avoid_deep = avoid_deep      # gateways of inter-zone routes are taken directly in the child zone when it has hosts/routers of its own
        self.dijkstra_same_gw = dijkstra_same_gw
        self.xml_only = xml_only
        self.nlink = 0
        self.nzone = 0
        self.nhost = 0
        self.nrouter = 0
        self.has_default = set()     # zones whose default gateway exists in SimGrid (explicit set_gateway, or implied by a single host)

    # -- small pieces ------------------------------------------------------------------------------------------------
    def new_link(self, zone, policy=None):
        rng = self.rng
        pol = policy or rng.choice(["S", "S", "S", "F", "D", "D"])
        name = "l%d" % self.nlink
        self.nlink += 1
        self.p.link(name, zone, rng.choice(LATS) if rng.random() < 0.7 else round(rng.uniform(0, 0.01), 7), pol)
        return name

    def link_list(self, zone, nmin=1, nmax=3, single=False):
        """A fresh list of 1..3 links of the zone (sometimes re-using a link already declared in that zone)."""
        rng = self.rng
        n = 1 if single else max(nmin, min(nmax, rng.choice([1, 1, 2, 2, 3])))
        out = []
        mine = [l for l, d in self.p.links.items() if d["zone"] == zone]
        for _ in range(n):
            if mine and rng.random() < 0.12:
                name = rng.choice(mine)
            else:
                name = self.new_link(zone)
                mine.append(name)
            pol = self.p.links[name]["policy"]
            ent = (name, rng.choice([UP, DOWN]) if pol == "D" else NONE)
            if ent in out or any(e[0] == name for e in out):
                continue
            out.append(ent)
        if not out:
            out.append((self.new_link(zone, "S"), NONE))
        return out

    def coords(self):
        rng = self.rng
        return (round(rng.uniform(-50, 50), 3), round(rng.uniform(-50, 50), 3), rng.choice([0.0, 0.0, round(rng.uniform(0, 5), 3)]))

    # -- zones -------------------------------------------------------------------------------------------------------
    def build(self):
        kind = self.rng.choice(self.internal_kinds if self.depth > 1 else self.leaf_kinds)
        self.make_zone(None, 1, kind)
        return self.p

    def make_zone(self, parent, level, kind, parent_kind=None):
        p, rng = self.p, self.rng
        name = "z%d" % self.nzone
        self.nzone += 1
        p.zone(name, parent, kind)
        if parent_kind == "vivaldi":
            p.zone_coords(name, self.coords())
        internal = level < self.depth
        if level > 1 and level < self.depth and rng.random() < 0.2:
            internal = False            # ragged trees: some branches stop early
        if self.nhost >= self.max_hosts - 2:
            internal = False
        p.tags.add(("internal:" if internal else "leaf:") + kind)
        if internal:
            self.fill_internal(name, level, kind)
        else:
            self.fill_leaf(name, kind)
        p.seal(name)
        return name

    def members_direct(self, zone, kind, nmin, nmax):
        """Hosts and routers declared directly in the zone."""
        p, rng = self.p, self.rng
        viv = kind == "vivaldi"
        out = []
        nh = rng.randint(nmin, nmax)
        nh = max(nmin, min(nh, self.max_hosts - self.nhost))
        for _ in range(nh):
            out.append(p.host("h%d" % self.nhost, zone, self.coords() if viv else None))
            self.nhost += 1
        if rng.random() < 0.35:
            out.append(p.router("r%d" % self.nrouter, zone, self.coords() if viv else None))
            self.nrouter += 1
        return out

    def fill_leaf(self, zone, kind):
        p, rng = self.p, self.rng
        mem = self.members_direct(zone, kind, 1, 4)
        if kind == "full":
            for i, a in enumerate(mem):
                if rng.random() < 0.15:
                    p.route(zone, a, a, self.link_list(zone, 1, 2), False)       # declared loopback
                    p.tags.add("declared-loopback")
                for b in mem[i + 1:]:
                    if rng.random() < 0.5:
                        p.route(zone, a, b, self.link_list(zone), True)
                    else:
                        p.route(zone, a, b, self.link_list(zone), False)
                        p.route(zone, b, a, self.link_list(zone), False)
        elif kind in ("floyd", "dijkstra", "dijkstracache"):
            single = kind != "floyd"       # Dijkstra zones list multi-link hops reversed (a C25 finding): one link per hop here
            order = list(mem)
            rng.shuffle(order)
            for i in range(1, len(order)):
                a, b = order[i], order[rng.randrange(i)]
                if rng.random() < 0.5:
                    a, b = b, a
                if rng.random() < 0.55:
                    p.route(zone, a, b, self.link_list(zone, single=single), True)
                else:
                    p.route(zone, a, b, self.link_list(zone, single=single), False)
                    p.route(zone, b, a, self.link_list(zone, single=single), False)
            if len(mem) == 1 and kind != "floyd":
                # a Dijkstra zone only knows the vertices that appear in a route: give the lone vertex a declared loopback
                p.route(zone, mem[0], mem[0], self.link_list(zone, single=True), False)
        else:
            self.fill_star_members(zone, kind, mem, {})
        gw = rng.choice(mem)
        # default gateway: sometimes explicit, sometimes implied (single host), sometimes none (explicit gateways only)
        if len(mem) == 1 and p.np[mem[0]]["type"] == "host" and rng.random() < 0.5:
            p.gateway[zone] = mem[0]              # implied by seal(): the only host of a zone is its default gateway
            self.has_default.add(zone)
            p.tags.add("implied-default-gateway")
        elif rng.random() < 0.6:
            p.set_gateway(zone, gw)
            self.has_default.add(zone)

    def fill_star_members(self, zone, kind, mem, gws):
        """Up/down routes of every member of a Star/Vivaldi zone (gws: member zone -> gateway)."""
        p, rng = self.p, self.rng
        backbone = None
        if rng.random() < 0.4 and len(mem) > 1:
            backbone = (self.new_link(zone, rng.choice(["S", "F"])), NONE)
            p.tags.add("star-backbone")
        for m in mem:
            gw = gws.get(m)
            nmin = 0 if (gw is None and backbone is None and rng.random() < 0.08) else 1
            up = self.link_list(zone, 1, 3) if nmin else []
            if backbone:
                up = [l for l in up if l[0] != backbone[0]] + [backbone]
            if rng.random() < 0.5:
                p.star_route(zone, m, up, gw=gw, sym=True, direction="up")
            else:
                down = self.link_list(zone, 1, 3)
                if backbone:
                    down = [backbone] + [l for l in down if l[0] != backbone[0]]
                p.star_route(zone, m, up, gw=gw, sym=False, direction="up")
                p.star_route(zone, m, down, gw=gw, sym=False, direction="down")
            if gw is None and p.np[m]["type"] == "host" and rng.random() < 0.2:
                p.star_route(zone, m, self.link_list(zone, 1, 2), direction="loop")
                p.tags.add("declared-loopback")

    def pick_gateway(self, child):
        """A host or router of the child zone's subtree (documented: 'directly or in a sub-zone')."""
        p, rng = self.p, self.rng
        direct = p.zones[child]["hosts"] + p.zones[child]["routers"]
        allnp = p.subtree_netpoints(child)
        if self.avoid_deep and direct:
            return rng.choice(direct)
        if direct and rng.random() < 0.5:
            return rng.choice(direct)
        return rng.choice(allnp)

    def fill_internal(self, zone, level, kind):
        p, rng = self.p, self.rng
        direct = []
        if kind in STARLIKE and rng.random() < 0.6:
            direct = self.members_direct(zone, kind, 0, 2)
        nchild = rng.randint(2, 4 if level < 3 else 3)
        children = []
        for _ in range(nchild):
            if self.nhost >= self.max_hosts - 1 and len(children) >= 2:
                break
            child_internal = level + 1 < self.depth
            ck = rng.choice(self.internal_kinds if child_internal and rng.random() < 0.75 else self.leaf_kinds)
            children.append(self.make_zone(zone, level + 1, ck, parent_kind=kind))
        if kind in STARLIKE:
            gws = {c: self.pick_gateway(c) for c in children}
            self.fill_star_members(zone, kind, children + direct, gws)
        elif kind == "full":
            for i, a in enumerate(children):
                for b in children[i + 1:]:
                    self.zone_edge(zone, kind, a, b, {})
        else:
            fixed = {}
            if kind != "floyd" and self.dijkstra_same_gw:
                fixed = {c: self.pick_gateway(c) for c in children}     # one gateway per child: Dijkstra parents segfault otherwise (F21)
            order = list(children)
            rng.shuffle(order)
            for i in range(1, len(order)):
                a, b = order[i], order[rng.randrange(i)]
                if rng.random() < 0.5:
                    a, b = b, a
                self.zone_edge(zone, kind, a, b, fixed)
            if len(children) >= 3:
                p.tags.add("transit:" + kind)
        # bypass zone routes between two child zones (one direction each)
        if self.bypass and kind in ROUTED and rng.random() < self.bypass:
            a, b = rng.sample(children, 2)
            p.bypass_route(zone, a, b, self.pick_gateway(a), self.pick_gateway(b), self.link_list(zone, 1, 2))
            p.tags.add("bypass-zone")
        allnp = p.subtree_netpoints(zone)
        if rng.random() < 0.6:
            p.set_gateway(zone, rng.choice(direct) if direct and rng.random() < 0.7 else rng.choice(allnp))
            self.has_default.add(zone)

    def zone_edge(self, zone, kind, a, b, fixed):
        """Declare the route(s) between two child zones: one symmetrical declaration, or one per direction."""
        p, rng = self.p, self.rng
        single = kind in ("dijkstra", "dijkstracache")

        def gwpair(x, y):
            gx = fixed.get(x) or self.pick_gateway(x)
            gy = fixed.get(y) or self.pick_gateway(y)
            return gx, gy

        def declare(x, y, sym):
            use_default = (not self.xml_only and not fixed and x in self.has_default and y in self.has_default
                           and p.gateway[x] != p.gateway[y] and rng.random() < 0.4)
            links = self.link_list(zone, single=single)
            if use_default:
                p.zroute_default(zone, x, y, links, sym)
                p.tags.add("default-gateway-route")
            else:
                gx, gy = gwpair(x, y)
                if gx == gy:       # cannot happen (disjoint subtrees), kept as a guard of the API contract
                    raise AssertionError("same gateway on both sides")
                p.zroute(zone, x, y, gx, gy, links, sym)

        if rng.random() < 0.5:
            declare(a, b, True)
            p.tags.add("sym-zone-route")
        else:
            declare(a, b, False)
            declare(b, a, False)
            p.tags.add("oneway-zone-routes")


def add_host_bypasses(p, rng, gateways_used, prob):
    """bypassRoute between two hosts of the same leaf zone, neither of which serves as a gateway anywhere (so that the
    bypass only concerns that ordered pair). The B line is inserted before the zone's seal line."""
    for z in p.zone_order:
        zd = p.zones[z]
        if zd["children"] or zd["kind"] not in ROUTED:
            continue
        cands = [h for h in zd["hosts"] if h not in gateways_used]
        if len(cands) >= 2 and rng.random() < prob:
            a, b = rng.sample(cands, 2)
            # a fresh link of that zone: declared just before the bypass
            name = "lb%d" % len(p.links)
            idx = p.lines.index("S " + z)
            saved = p.lines[idx:]
            del p.lines[idx:]
            p.link(name, z, rng.choice(LATS), "S")
            others = [l for l, d in p.links.items() if d["zone"] == z and d["policy"] != "D" and l != name]
            ll = [(name, NONE)] + ([(rng.choice(others), NONE)] if others and rng.random() < 0.5 else [])
            p.bypass_route(z, a, b, None, None, ll)
            p.lines.extend(saved)
            p.tags.add("bypass-host")


def gateways_in_use(p):
    used = set(p.gateway.values())
    for z in p.zone_order:
        for r in p.routes[z]:
            used.update(x for x in (r["gw_src"], r["gw_dst"]) if x)
        for ent in p.star[z].values():
            if ent["gw"]:
                used.add(ent["gw"])
        for b in p.bypass[z]:
            used.update(x for x in (b["gw_src"], b["gw_dst"]) if x)
    return used


def gen_tree(rng, pid, **kw):
    bypass_host = kw.pop("bypass_host", 0.0)
    g = TreeGen(rng, pid, **kw)
    p = g.build()
    if bypass_host:
        add_host_bypasses(p, rng, gateways_in_use(p), bypass_host)
    return p


# ---------------------------------------------------------------------------------------------------------------------
# running
# ---------------------------------------------------------------------------------------------------------------------
class Result:
    """Parsed output of one platform."""

    def __init__(self, pid):
        self.id = pid
        self.status = None      # ok | exit:N | sig:N | spin | wall | missing
        self.cpu = 0.0
        self.routes = []        # in query order: (src, dst, lat|None, links|None, exc|None)
        self.local = {}         # (zone, src, dst) -> dict(gw_src, gw_dst, lat, links) or dict(exc=...)
        self.linklat = {}
        self.spin = None        # text of the SPIN line
        self.build_errors = []
        self.noise = []
        self.done = False

    def route_map(self):
        m = {}
        for s, d, lat, links, exc in self.routes:
            m.setdefault((s, d), []).append((lat, links, exc))
        return m


def parse(out):
    res = {}
    cur = None
    for line in out.splitlines():
        if not line:
            continue
        t = line.split(" ")
        k = t[0]
        if k == "BEGIN":
            cur = Result(t[1])
            res[cur.id] = cur
        elif cur is None:
            continue
        elif k == "END":
            cur.status = t[2]
            cur.cpu = float(t[3].split("=")[1])
            cur = None
        elif k == "R" and len(t) >= 5:
            n = int(t[4])
            cur.routes.append((t[1], t[2], float(t[3]), t[5:5 + n], None))
        elif k == "X" and len(t) >= 3:
            cur.routes.append((t[1], t[2], None, None, " ".join(t[3:])))
        elif k == "XC" and len(t) >= 4:
            cur.routes.append((t[1], t[2], None, None, "CRASH " + t[3]))
        elif k == "LR":
            n = int(t[7])
            cur.local[(t[1], t[2], t[3])] = dict(gw_src=None if t[4] == "-" else t[4], gw_dst=None if t[5] == "-" else t[5],
                                                 lat=float(t[6]), links=t[8:8 + n])
        elif k == "LX":
            cur.local[(t[1], t[2], t[3])] = dict(exc=" ".join(t[4:]))
        elif k == "LK":
            cur.linklat[t[1]] = float(t[2])
        elif k == "SPIN":
            cur.spin = line
        elif k == "BX" or k == "SPECERR":
            cur.build_errors.append(line)
        elif k == "DONE":
            cur.done = True
        elif k == "HOSTS":
            pass
        else:
            if len(cur.noise) < 60:
                cur.noise.append(line[:300])
    return res


def harness(flavour):
    return build.harness("route_dump2.cpp", flavour, internal=True)


def run_batch(flavour, plats, cpu_budget, wall_budget, scratch):
    """Run the given platforms in one harness process (each platform in its own forked child). Returns id -> Result.
    A platform without END line (harness process killed by the outer watchdog) gets status 'missing'."""
    exe = harness(flavour)
    fd, path = tempfile.mkstemp(prefix="spec-", suffix=".txt", dir=scratch)
    with os.fdopen(fd, "w") as f:
        for p in plats:
            f.write(p.spec())
    outer = 60 + len(plats) * (wall_budget + 1)
    r = proc.run([exe, path, repr(float(cpu_budget)), repr(float(wall_budget)), "--log=root.thres:critical", "--cfg=debug/stacktrace:none"], timeout=outer)
    os.unlink(path)
    res = parse(r.out)
    for p in plats:
        if p.id not in res or res[p.id].status is None:
            rr = res.get(p.id) or Result(p.id)
            rr.status = "missing"
            rr.noise.append((r.err or "")[-400:])
            res[p.id] = rr
    return res


def budgets(flavour):
    """(cpu budget, wall budget) in seconds for one platform child. A child normally needs 0.05-0.3 s of CPU (1-2 s under ASan)."""
    if flavour == "asan":
        return 20.0, 300.0
    return 6.0, 150.0


def chunks(items, n):
    return [items[i:i + n] for i in range(0, len(items), n)]
