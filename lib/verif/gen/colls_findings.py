"""Root causes of the failures of SMPI collective algorithms found by C29, one row per (algorithms, root-cause class).

A row says: for these units (collective/algorithm), every case satisfying `pred` may fail with one of `kinds`, and that
is ONE known defect whose violation key is  C29:<collective>/<algorithm>:<slug> .  Nothing else is excused: a failure of
a case outside `pred`, or of another kind, is reported under the generic key of C29.py and makes the check fail.
known_findings.d/C29.json is generated from this table (python3 -m verif.gen.colls_findings > known_findings.d/C29.json),
so that the keys cannot drift; a row whose defect is repaired in SimGrid is deleted together with its entry.

Cases matched by a row are taken out of the main run of their (algorithm, np, placement) job (a crash would hide the
other cases, stray messages of a wrong call could disturb innocent ones) and run in a run of their own; `witness` is the
minimal reproducer, run by every tier so that the KNOWN-FINDING line does not depend on the seed.

kinds (groups of the kinds reported by C29.py):
  crash             SIGSEGV, SIGFPE, SIGBUS, abort (xbt_assert/xbt_die/uncaught exception/glibc heap check), exit code
  deadlock          SimGrid reports a deadlock before every rank compared its buffers
  wrong-result      a byte that the MPI definition sets differs
  stray-write       a byte inside a buffer that MPI leaves alone (hole of a derived datatype, root's own data) was modified
  guard             write outside the buffer
  sendbuf-modified  the send buffer changed
  nonroot-write     the receive buffer of a rank for which it is "significant only at root" was written
  error-return      the call returned an error code
  barrier           a rank left a barrier before the last one entered
"""
import json
import re
import sys

from verif.gen import colls as G

CRASH, DEAD, WRONG, STRAY, GUARD, SENDMOD, NONROOT, ERR, BARRIER = ("crash", "deadlock", "wrong-result", "stray-write", "guard",
                                                                  "sendbuf-modified", "nonroot-write", "error-return", "barrier")
ANY_WRITE = {WRONG, STRAY, GUARD, SENDMOD, NONROOT}


def kind_group(kind):
    base = kind.split("+")[0]
    if base in ("SIGSEGV", "SIGFPE", "SIGBUS", "abort", "heap-corruption") or base.startswith(("sig", "exit")):
        return CRASH
    return base


class Finding:
    def __init__(self, units, slug, pred, kinds, witness, what, crash=None, via=None):
        self.units = units.split() if isinstance(units, str) else list(units)
        self.slug, self.pred, self.kinds, self.what, self.via = slug, pred, set(kinds), what, via
        # crash: a matched case stops the whole run, so matched cases are run one by one (a few of them)
        self.crash = (bool(self.kinds & {CRASH, DEAD})) if crash is None else crash
        self.witness = witness          # (np, layout, [case lines without index]) or {unit: (...)}

    def key(self, unit):
        return "C29:%s:%s" % (unit, self.slug)

    def witness_raw(self, coll):
        w = self.witness
        if isinstance(w, dict):
            w = w.get("*") or list(w.values())[0]
        return w

    def witness_for(self, unit):
        w = self.witness
        if isinstance(w, dict):
            w = w.get(unit) or w.get("*")
        if w is None:
            return None
        np, layout, lines = w
        coll = unit.split("/")[0]
        call = coll[1:] if unit.endswith("/nbc") else coll
        cases = []
        for i, l in enumerate(lines):
            if l.split()[0] in ("b", "ip", "nn", "nb", "nb2"):
                l = call + " " + l
            cases.append(G.parse_case(l, i))
        return np, layout, cases


# ---- predicates over (np, layout, case) ----------------------------------------------------------------------------
def nodes(np, layout):
    return len(set(G.hostfile_lines(layout, np)))


def uniform_cores(np, layout):
    """num_core as the SMP algorithms compute it: ranks per host when every host has the same number, else 1."""
    hosts, per = G._ranks_per_host(layout, np)
    v = set(per.values())
    return per[hosts[0]] if len(v) == 1 else 1


def cnt1(case, np, i):
    """recvcounts[i] of the v-collectives (transcription of cnt1() of coll_check.c)."""
    pat, c = case["pat"] % 10, case["c"]
    if case["coll"] == "reduce_scatter_block" or pat == 0:
        return c
    if pat == 1:
        return (i * 7 + c) % (c + 2)
    return c + 1 if i == c % np else 0


EXTENT = {"int": 4, "dbl": 8, "vec": 12, "2int": 8, "dblint": 16}
SIZE = {"int": 4, "dbl": 8, "vec": 8, "2int": 8, "dblint": 12}


def P(expr):
    """Predicate from a Python expression over: np, lay, c (count), dt, op, mode, root, pat, coll, late,
    N (hosts), K (num_core of the SMP algorithms: ranks per host if the same on every host, else 1), M (their
    inter_comm_size = ceil(np/K)), pow2 (np is a power of two), holes (datatype with a hole), uniformcnt, cnts (recvcounts of
    the v-collectives), total (their sum), ext/size (extent and size of the datatype), nbytes (c*size),
    rootleader (the root is the lowest rank of its host), blocked (consecutive ranks share a host), uniform (same number of ranks per host)."""
    code = compile(expr, "<pred %s>" % expr, "eval")

    def pred(np, layout, case):
        K = uniform_cores(np, layout)
        cnts = [cnt1(case, np, i) for i in range(np)]
        hosts = G.hostfile_lines(layout, np)
        if layout == "rev":
            hosts = hosts[::-1]
        r = case["root"] if case["root"] < np else 0
        env = dict(rootleader=(hosts.index(hosts[r]) == r), np=np, lay=layout, c=case["c"], dt=case["dt"], op=case["op"], mode=case["mode"], root=case["root"],
                   pat=case["pat"], coll=case["coll"], late=case["late"], N=nodes(np, layout), K=K, M=(np + K - 1) // K,
                   pow2=(np & (np - 1) == 0), holes=(case["dt"] == "vec"), uniformcnt=(len(set(cnts)) == 1), cnts=cnts,
                   ext=EXTENT[case["dt"]], size=SIZE[case["dt"]], nbytes=case["c"] * SIZE[case["dt"]], total=sum(cnts), blocked=G._blocked(layout, np), uniform=G._uniform(layout, np), min=min, max=max, any=any,
                   all=all, len=len)
        return bool(eval(code, {"__builtins__": {}}, env))
    pred.expr = expr
    return pred


W = lambda np, lay, *cases: (np, lay, list(cases))       # a witness; the collective name may be omitted in the case lines

OMPI_REDUCE = "reduce/ompi_chain reduce/ompi_pipeline reduce/ompi_binary reduce/ompi_binomial reduce/ompi_in_order_binary"

FINDINGS = [
    # ------------------------------------------------------------------------------------------------ allreduce --------
    Finding("allreduce/rab reduce/rab", "count=0-or-np=1:fallback-calls-itself:crash", P("c == 0 or np == 1"), {CRASH},
            W(2, "flat", "b 0 0 0 int sum"),
            "below its size threshold (count 0, or a communicator of 1 rank) reduce-rab.cpp falls back to colls::(all)reduce, i.e. "
            "to itself when it is the selected algorithm: unbounded recursion, SIGSEGV"),
    Finding("allreduce/rab reduce/rab", "op=user:computed-as-MPI_MAX:wrong-result", P("op == 'user' and c > 0 and np > 1"), {WRONG},
            W(2, "flat", "b 0 0 1 int user"),
            "MPI_I_anyReduce maps the 10 predefined operators it knows and leaves `op` at its initial value MPIM_MAX for any "
            "other operator: a user-defined operator silently yields the maximum"),
    Finding("allreduce/ompi_ring_segmented", "count=0:SIGFPE", P("c == 0 and np > 1"), {CRASH}, W(2, "flat", "b 0 0 0 int sum"),
            "count 0 gives segcount 0, `count < size*segcount` is false and num_phases = count / (size*segcount) divides by zero"),
    Finding("allreduce/smp_binomial_pipeline", "count=0:SIGFPE", P("c == 0"), {CRASH}, W(2, "flat", "b 0 0 0 int sum"),
            "pcount = min(4096, count) = 0 and pipelength = count / pcount divides by zero"),
    Finding("allreduce/smp_binomial_pipeline", "count>4096-not-multiple:tail-not-reduced:wrong-result",
            P("c > 4096 and c % 4096 != 0 and np > 1"), {WRONG}, W(2, "flat", "b 0 0 4097 int sum"),
            "pipelength = count / 4096 segments of 4096 elements are reduced, the last count % 4096 elements never are"),
    Finding("allreduce/smp_rsag", "count%nodes!=0:tail-not-reduced:wrong-result", P("M > 1 and c % M != 0"), {WRONG},
            W(2, "flat", "b 0 0 1 int sum"),
            "the inter-node reduce-scatter/allgather works on seg_count = count / inter_comm_size elements per node and drops "
            "the remainder"),
    Finding("allreduce/smp_rsag_lr", "0<count<nodes:wrong-result", P("M > 1 and 0 < c < M and op not in ('max', 'min', 'maxloc', 'minloc')"), {WRONG},
            W(3, "flat", "b 0 0 1 int sum"),
            "with count < inter_comm_size every segment offset is 0 == last_segment_ptr, so every step sends and reduces the "
            "whole remainder again (harmless only for idempotent operators)"),
    Finding("allreduce/smp_rsag_rab", "count%(2*nodes)!=0:wrong-result", P("pow2 and M > 1 and c % (2 * M) != 0"), {WRONG},
            W(2, "flat", "b 0 0 2 int sum"),
            "recursive halving over curr_count = count/2, count/4, ... (one halving too many, doubled again for the "
            "allgather) loses the remainders: only counts that are multiples of 2*inter_comm_size come out right"),
    Finding("allreduce/smp_binomial allreduce/smp_binomial_pipeline allreduce/smp_rdb allreduce/smp_rsag allreduce/smp_rsag_lr",
            "ranks-per-host-not-power-of-two:intra-node-tree-leaves-the-node:deadlock", P("K > 1 and (K & (K - 1)) != 0"),
            {DEAD, CRASH}, W(6, "cyc2", "b 0 0 1 int sum"),
            "the intra-node binomial reduce receives from inter_rank*num_core + (intra_rank | mask) whenever that rank exists in "
            "the communicator (the test `src < (inter_rank + 1) * num_core` is commented out): with 3 ranks per host local rank 2 "
            "waits for the first rank of the next host"),
    Finding("allreduce/rab1", "np=1:uninitialised-recv_cnt:crash", P("np == 1"), {CRASH, DEAD, WRONG, STRAY, GUARD},
            W(1, "flat", "b 0 0 1 int sum"),
            "with one rank the halving loop is not entered and recv_cnt is used uninitialised in memcpy/allgather"),
    Finding("allreduce/rab1", "dt=holes:memcpy-over-extent:stray-write", P("holes and c > 0 and np > 1 and pow2"), {STRAY},
            W(2, "flat", "b 0 0 1 vec user"),
            "memcpy(rbuff, ..., count * extent) overwrites the holes of a derived datatype in the receive buffer"),
    Finding("allreduce/rab2", "dt=holes:memcpy-over-extent:stray-write", P("holes and c > 0"), {STRAY},
            W(2, "flat", "b 0 0 1 vec user"),
            "memcpy(rbuff, recv, count * extent) overwrites the holes of a derived datatype in the receive buffer"),
    # --------------------------------------------------------------------------------------------------- reduce --------
    Finding(OMPI_REDUCE + " reduce/ompi", "count=0:SIGFPE", P("c == 0"), {CRASH}, W(2, "flat", "b 0 0 0 int sum"),
            "count 0 gives a segment count of 0 and smpi_coll_tuned_ompi_reduce_generic computes "
            "(original_count + count_by_segment - 1) / count_by_segment"),
    Finding(OMPI_REDUCE + " reduce/ompi", "np=1:crash-or-unset-result", P("np == 1 and c > 0"), {CRASH, WRONG, DEAD},
            {"*": W(1, "flat", "b 0 0 1 int sum"), "reduce/ompi": W(1, "flat", "b 0 0 2 int max")},
            "the generic ompi reduce does not handle a communicator of one rank (sends to rank -333, or leaves recvbuf unset)"),
    Finding("reduce/flat_tree", "MPI_IN_PLACE-dereferenced:crash", P("mode == 'ip' and c > 0"), {CRASH}, W(2, "flat", "ip 0 0 1 int sum"),
            "the root uses sbuf as a buffer without testing for MPI_IN_PLACE"),
    Finding("reduce/NTSL", "np=1:deadlock", P("np == 1"), {DEAD, CRASH}, W(1, "flat", "b 0 0 1 int sum"),
            "with one rank the root posts a receive from itself"),
    Finding("reduce/NTSL reduce/arrival_pattern_aware reduce/rab", "MPI_IN_PLACE-dereferenced:crash",
            P("mode == 'ip' and c > 0"), {CRASH},
            W(2, "flat", "ip 0 0 1 int sum"), "the send buffer is read without testing for MPI_IN_PLACE"),
    Finding("reduce/NTSL reduce/arrival_pattern_aware", "nonroot-recvbuf-used-as-scratch", P("np > 1 and c > 0"),
            {NONROOT, CRASH}, {"*": W(2, "flat", "b 0 0 1 int sum")},
            "every rank accumulates into its rbuf, which MPI makes significant only at the root: the caller's buffer is "
            "overwritten on the other ranks, SIGSEGV when it is NULL there"),
    Finding("reduce/mvapich2_two_level", "single-host:MPI_IN_PLACE:root!=0:crash", P("mode == 'ip' and c > 0 and N == 1 and root != 0"),
            {CRASH}, W(2, "blk2", "ip 1 0 1 int sum"),
            "when all the ranks are on one host and the root is not rank 0, MPI_IN_PLACE at the root is dereferenced (SIGSEGV)"),
    Finding("reduce/scatter_gather", "nonroot-recvbuf-used-as-scratch", P("np > 1 and c > 0 and mode in ('b', 'ip')"), {NONROOT},
            W(2, "flat", "b 0 0 1 int sum"),
            "a temporary buffer is only allocated when recvbuf is NULL; a non-NULL recvbuf of a non-root rank is overwritten"),
    Finding("reduce/scatter_gather", "dt=holes:memcpy-over-extent:stray-write", P("holes and c > 0 and np > 1"), {STRAY},
            W(2, "flat", "b 0 0 1 vec user"), "memcpy(recvbuf, recv_ptr, extent * count) overwrites the holes of a derived datatype"),
    # ---------------------------------------------------------------------------------------------------- bcast --------
    Finding("bcast/SMP_linear", "one-rank-per-host:duplicate-messages", P("K == 1 and np > 1"),
            {CRASH, DEAD, WRONG, STRAY, ERR}, W(2, "flat", "b 0 0 1 int none", "b 1 0 1 int none"),
            "with num_core == 1 to_inter == to_intra: every leader sends the message twice and the last one sends it back to "
            "rank 0; the unmatched messages are received by the next bcast (wrong data, truncation) or hit a finished rank"),
    Finding("bcast/SMP_binomial bcast/mpich", "ranks-per-host-not-power-of-two:message-to-a-rank-of-the-next-host",
            P("K > 1 and (K & (K - 1)) != 0"), {CRASH, DEAD, WRONG, STRAY, ERR}, W(9, "blk3", "b 0 0 1 int none"),
            "with 3 ranks per host bcast__SMP_binomial (used by the mpich selector on SMP placements) sends messages to ranks "
            "that never receive them (abort 'trying to send data to rank 6, which is not to be found', or a crash when the "
            "simulation ends with these messages pending)"),
    Finding("bcast/arrival_scatter", "count<np:fallback-calls-itself:crash", P("(c < np or lay == 'rev') and np > 1"), {CRASH},
            W(2, "flat", "b 0 0 1 int none"),
            "for count < size the algorithm calls colls::bcast, i.e. itself when it is the selected algorithm: unbounded recursion "
            "(also inside MPI_Comm_split, which broadcasts a few integers with the selected algorithm)"),
    Finding("bcast/arrival_pattern_aware", "late-rank:stale-message-consumed-by-next-bcast", P("np > 1"),
            {CRASH, DEAD, WRONG, STRAY, ERR}, W(2, "flat", "b 0 0 0 int none 1 1", "b 1 0 3 int none 2 -1"), crash=False, what=
            "a bcast in which a rank arrives late leaves a message behind that the next bcast of the same communicator "
            "receives as its data"),
    Finding("bcast/flattree_pipeline", "count>segment-not-multiple:tail-not-sent:wrong-result",
            P("c >= 8192 // ext and c % (8192 // ext) != 0 and np > 1"), {WRONG}, W(2, "flat", "b 0 0 2049 int none"),
            "pipe_length = count / segment segments are sent, the last count % segment elements never are"),
    Finding("bcast/ompi_pipeline bcast/ompi", "count=0:SIGFPE", P("c == 0 and np > 1"), {CRASH}, W(2, "flat", "b 0 0 0 int none"),
            "count 0 gives a segment count of 0 and the generic ompi bcast divides by it"),
    Finding("bcast/ompi_split_bintree", "small-message-falls-back-to-SMP_linear", P("K == 1 and np > 1 and (c // 2) * size < 1024"),
            {CRASH, DEAD, WRONG, STRAY, ERR}, W(2, "flat", "b 0 0 1 int none", "b 1 0 1 int none"),
            "messages too small to be split are handed to bcast__SMP_linear, which is wrong with one rank per host",
            via="bcast/SMP_linear"),
    Finding("bcast/mvapich2_inter_node", "inter-node-step-only:non-leaders-get-nothing:wrong-result", P("N < np and c > 0"),
            {WRONG, DEAD, CRASH}, W(2, "blk2", "b 0 0 1 int none"),
            "the selectable algorithm is only the inter-node phase of the two-level bcast: ranks that are not node leaders "
            "never receive the data"),
    Finding("bcast/mvapich2_intra_node", "two-level-path:global-root-used-in-node-communicator", P("N < np and 16384 < nbytes < 524288"),
            {WRONG, STRAY, DEAD, CRASH}, W(5, "cyc2", "b 4 0 4097 int none"),
            "for 16 kB < message < 512 kB the intra-node phase passes the global root rank to the node communicator"),
    # ---------------------------------------------------------------------------------------------------- barrier ------
    Finding("barrier/ompi_two_procs", "np!=2:not-checked", P("np != 2"), {CRASH, DEAD, BARRIER}, W(3, "flat", "b 1 0 0 int none"),
            "the two-process barrier does not test the communicator size: ranks pair up as (rank+1)&1"),
    Finding("ibarrier/nbc", "ranks-released-before-all-entered", P("np > 2 and root != 0"), {BARRIER}, W(3, "flat", "nb 1 0 0 int none"),
            "rank 0 starts its sends to every rank together with its receives, so a rank is released as soon as it entered "
            "itself: MPI_Ibarrier + MPI_Wait returns before the last rank has entered", crash=False),
    # ---------------------------------------------------------------------------------------------------- scatter ------
    Finding("scatter/ompi_linear_nb", "err-initialised-to-MPI_ERR_OTHER:root-stops-after-first-send",
            P("np > 1 and (root != 0 or mode == 'ip')"), {DEAD, WRONG, CRASH}, W(2, "flat", "b 1 0 1 int none"),
            "err starts as MPI_ERR_OTHER and is only set by the local copy, so a root other than 0 (or MPI_IN_PLACE) leaves "
            "the send loop after its first isend"),
    Finding("scatter/mvapich2_two_level_binomial scatter/mvapich2_two_level_direct", "MPI_IN_PLACE:sendbuf-modified",
            P("mode == 'ip' and np > 1 and c > 0"), {SENDMOD, WRONG}, W(2, "flat", "ip 1 0 1 int none"),
            "with MPI_IN_PLACE at a root other than rank 0 the root's send buffer is overwritten"),
    Finding("scatter/mvapich2_two_level_binomial scatter/mvapich2_two_level_direct", "cyclic-placement:blocks-in-host-order:wrong-result",
            P("1 < N < np and c > 0 and not blocked"), {WRONG, STRAY, SENDMOD, CRASH}, W(4, "cyc2", "b 0 0 1 int none"),
            "the blocks are sent node after node: when the ranks of a node are not consecutive they reach the wrong ranks "
            "(the mvapich2 selector tests is_blocked(), the algorithm itself does not)", crash=False),
    Finding("allgather/mvapich2_smp gather/mvapich2_two_level scatter/mvapich2_two_level_binomial scatter/mvapich2_two_level_direct",
            "communicator-not-in-pid-order:leaders-ordered-by-pid:wrong-result", P("lay == 'rev' and np > 1 and c > 0"),
            {WRONG, STRAY, SENDMOD, CRASH}, W(2, "rev", "b 0 0 1 int none"),
            "Comm::init_smp takes the smallest actor id of a host as its leader and orders the leaders communicator by actor id: "
            "on a communicator whose ranks are not in actor-id order (e.g. MPI_Comm_split with descending keys) the two-level "
            "algorithms deliver the blocks in actor-id order instead of rank order", crash=False),
    # ---------------------------------------------------------------------------------------------------- gather -------
    Finding("gather/mvapich2_two_level", "leader_comm_rank=leader_comm->size():crash", P("N < np and c > 0 and (not uniform or not rootleader)"),
            {CRASH, DEAD, WRONG}, W(4, "blk2", "b 1 0 1 int none"),
            "gather-mvapich.cpp sets leader_comm_rank = leader_comm->size() (typo for ->rank()): the branches for a root that "
            "is not a node leader and for hosts with different numbers of ranks never find the leader of the root (SIGSEGV)"),
    Finding("gather/mvapich2_two_level", "cyclic-placement:blocks-in-host-order:wrong-result", P("1 < N < np and c > 0 and not blocked"),
            {WRONG, STRAY, CRASH}, W(4, "cyc2", "b 0 0 1 int none"),
            "the blocks gathered per node are stored node after node: when the ranks of a node are not consecutive the receive "
            "buffer is not in rank order", crash=False),
    # ---------------------------------------------------------------------------------------------------- alltoall -----
    Finding("alltoall/pair_rma", "np=nonpow2:rank^i-out-of-range:crash", P("not pow2"), {CRASH}, W(3, "flat", "b 0 0 1 int none"),
            "dst = rank ^ i is not a rank when the size is not a power of two; unlike alltoall pair there is no test"),
    Finding("alltoall/pair_rma", "count>1:window-displacement-unit:wrong-result", P("pow2 and np > 1 and c > 1"),
            {WRONG, STRAY, GUARD}, W(2, "flat", "b 0 0 2 int none"),
            "the window is created with disp_unit = extent of one element and the put targets displacement `rank`: blocks "
            "land at rank*extent instead of rank*count*extent"),
    # ---------------------------------------------------------------------------------------------- reduce_scatter -----
    Finding("reduce_scatter/ompi_basic_recursivehalving", "zero-recvcount:wrong-result",
            P("np > 1 and total > 0 and min(cnts) == 0"), {WRONG, CRASH, DEAD}, W(2, "flat", "b 0 1 3 int sum"),
            "when some rank has recvcounts[i] == 0 the blocks of the other ranks are reduced wrongly", crash=False),
    Finding("reduce_scatter/ompi_butterfly", "np=1:result-not-copied:wrong-result", P("np == 1 and total > 0 and mode == 'b'"),
            {WRONG}, W(1, "flat", "b 0 0 1 int sum"), "with one rank the receive buffer is left untouched"),
    # ------------------------------------------------------------------------------------------- non-blocking ----------
    Finding("iallreduce/nbc ireduce/nbc iscan/nbc ireduce_scatter/nbc ireduce_scatter_block/nbc",
            "dt=non-contiguous:op-applied-to-packed-copy", P("holes and np > 1 and total > 0"),
            {WRONG, STRAY, GUARD, CRASH}, W(2, "flat", "nb 0 0 1 vec user"),
            "the parent request of a non-blocking reduction is built on the receive buffer with the user's datatype; for a "
            "non-contiguous type Request keeps a packed copy in buf_ and finish_nbc_requests applies the operator to that copy "
            "with the unpacked layout: wrong result, heap corruption", crash=False),
    # -------------------------------------------------------------------- selectors (ompi, mpich, mvapich2, impi) -----
    # A selector picks an algorithm from the sizes; the predicates below are those of the algorithm it hands the call to
    # (not narrowed to the size ranges of the selection tables).
    Finding("allreduce/impi", "count=0:selects-ompi_ring_segmented:SIGFPE", P("c == 0 and np > 1"), {CRASH},
            W(2, "flat", "b 0 0 0 int sum"), "for an empty message the Intel table selects allreduce__ompi_ring_segmented, "
            "which divides by zero", via="allreduce/ompi_ring_segmented"),
    Finding("allreduce/impi", "np=nonpow2:selects-rab1:abort", P("not pow2 and c > 0"), {CRASH},
            W(6, "blk2", "b 0 0 4099 int sum"), "the Intel table selects allreduce__rab1 whatever the communicator size; rab1 "
            "throws 'can't be used with non power of two number of processes'", via="allreduce/rab1"),
    Finding("allreduce/ompi", "count=0:np>=16:selects-ompi_ring_segmented:SIGFPE", P("c == 0 and np >= 16"), {CRASH},
            W(16, "flat", "b 0 0 0 int sum"), "for 16 <= np < 64 and less than 64 bytes (128 for np >= 32) the Open MPI selector uses the "
            "segmented ring, which divides by zero on an empty message", via="allreduce/ompi_ring_segmented"),
    Finding("allreduce/default", "count=0:np>=16:derived-datatype:SIGFPE", P("c == 0 and np >= 16 and holes"), {CRASH},
            W(16, "flat", "b 0 0 0 vec user"), "allreduce__default hands derived datatypes to allreduce__ompi, whose segmented "
            "ring divides by zero on an empty message: the DEFAULT MPI_Allreduce crashes for count 0, a derived datatype and "
            "16 or more ranks", via="allreduce/ompi_ring_segmented"),
    Finding("alltoall/impi", "np=nonpow2:selects-pair:abort", P("not pow2 and c > 0"), {CRASH},
            W(12, "blk4", "b 0 0 2732 dbl none"), "the Intel table selects alltoall__pair whatever the communicator size; pair "
            "throws 'can't be used with non power of two number of processes'", via="alltoall/pair"),
    Finding("reduce/mvapich2", "np>=16:consecutive-reduces-interfere", P("np >= 16"), {CRASH, DEAD, WRONG, ERR, STRAY, NONROOT},
            W(17, "flat", "b 0 0 4097 vec user", "b 0 0 1 int sum"),
            "two consecutive MPI_Reduce calls of different sizes interfere (wrong result, MPI_ERR_TRUNCATE/MPI_ERR_TYPE abort or "
            "deadlock; each call alone is right): reduce__mvapich2 stores the functions chosen for a call in the process-global "
            "pointers MV2_Reduce_function / MV2_Reduce_intra_function, which all simulated ranks share; a rank that already "
            "entered the next reduce overwrites them while others still read them in the two-level helper", crash=False),
    Finding("allreduce/impi", "dt=holes:selects-rab1:stray-write", P("holes and c > 0 and np > 1 and pow2"), {STRAY},
            W(8, "blk4", "ip 0 0 4099 vec user"), "the Intel table selects allreduce__rab1, which copies whole extents over the "
            "holes of a derived datatype", via="allreduce/rab1"),
    Finding("reduce_scatter/ompi", "np=1:selects-ompi_butterfly:wrong-result", P("np == 1 and total > 0 and mode == 'b'"), {WRONG},
            W(1, "flat", "b 0 0 8200 dbl max"), "for 64 kB <= message < 128 kB the selector uses reduce_scatter__ompi_butterfly, "
            "which leaves the receive buffer untouched on a communicator of one rank", via="reduce_scatter/ompi_butterfly"),
    Finding("bcast/impi", "one-rank-per-host:selects-SMP_linear", P("K == 1 and np > 1"), {CRASH, DEAD, WRONG, STRAY, ERR},
            W(8, "flat", "b 0 0 1 int none", "b 1 0 1 int none"), "the Intel table selects bcast__SMP_linear, which is wrong "
            "with one rank per host", via="bcast/SMP_linear"),
    Finding("reduce_scatter/ompi reduce_scatter/impi reduce_scatter/mvapich2", "zero-recvcount:selects-recursivehalving:wrong-result",
            P("np > 1 and total > 0 and min(cnts) == 0"), {WRONG, CRASH, DEAD},
            W(2, "flat", "b 0 1 3 int sum"), "the selector hands calls with a zero recvcount to "
            "reduce_scatter__ompi_basic_recursivehalving (in smpi_openmpi_selector.cpp the `zerocounts` test of Open MPI is "
            "commented out)", crash=False, via="reduce_scatter/ompi_basic_recursivehalving"),
    Finding("scatter/ompi", "root!=0-or-in-place:selects-ompi_linear_nb", P("np > 1 and (root != 0 or mode == 'ip')"),
            {DEAD, WRONG, CRASH}, W(2, "flat", "b 1 0 0 int none"),
            "for some sizes the selector uses scatter__ompi_linear_nb, whose root stops after its first send",
            via="scatter/ompi_linear_nb"),
    Finding("scatter/mvapich2 scatter/impi", "MPI_IN_PLACE:sendbuf-modified", P("mode == 'ip' and np > 1 and c > 0"),
            {SENDMOD, WRONG}, W(6, "blk2", "ip 1 0 1 int none"),
            "the selector uses the mvapich2 two-level scatter, which overwrites the root's send buffer with MPI_IN_PLACE",
            via="scatter/mvapich2_two_level_direct"),
    Finding("alltoall/mpich", "odd-np-large-message:selects-pair:abort", P("np % 2 == 1 and np > 1 and nbytes >= 32768"), {CRASH},
            W(3, "flat", "b 0 0 8192 int none"), "for blocks of 32 kB and more and an odd communicator size the MPICH "
            "selector calls alltoall__pair, which only accepts powers of two (throws)", via="alltoall/pair"),
    Finding("alltoallv/ompi", "np=3:selects-pair:abort", P("np == 3"), {CRASH}, W(3, "flat", "b 0 0 1 int none"),
            "for communicators of less than 4 ranks the Open MPI selector calls alltoallv__pair, which only accepts powers of "
            "two (throws)", via="alltoallv/pair"),
]


def _automatic_rows():
    """smpi/<coll>:automatic runs every algorithm of the table one after the other on the caller's buffers (and keeps
    the result of the last one): it inherits every crash, deadlock and stray write of every algorithm, exceptions other
    than std::exception included (xbt_assert of reduce_scatter mpich_noncomm), and re-reduces a buffer that was already
    reduced in place. One row per collective; its predicate is the union of the rows of the algorithms of that table."""
    extra = {
        "reduce_scatter": P("not pow2 or not uniformcnt"),      # xbt_assert of mpich_noncomm (not catchable)
        "reduce": P("mode == 'ip' and c > 0"),                  # second algorithm reduces the already reduced buffer again
        "barrier": P("np != 2"),
    }
    out = []
    for coll in ("allreduce", "alltoall", "barrier", "bcast", "gather", "reduce", "reduce_scatter", "scatter"):
        base = [f for f in FINDINGS if any(u.split("/")[0] == coll and not u.endswith("/automatic") for u in f.units)]
        preds = [f.pred for f in base] + ([extra[coll]] if coll in extra else [])
        kinds = set().union(*[f.kinds for f in base]) | {CRASH, WRONG}

        def pred(np, layout, case, preds=preds):
            return any(p(np, layout, case) for p in preds)
        wit = None
        for f in base:
            if f.crash:
                wit = f.witness_raw(coll)
                break
        if wit is None and base:
            wit = base[0].witness_raw(coll)
        out.append(Finding(coll + "/automatic", "runs-every-algorithm-of-the-table:inherits-their-failures", pred, kinds, wit,
                           "the automatic selector executes every algorithm of the table in turn on the caller's buffers; "
                           "on inputs for which one of them crashes, deadlocks or writes a wrong buffer so does `automatic`",
                           crash=True))
    return out


FINDINGS += _automatic_rows()


# --------------------------------------------------------------------------------------------------------------------
def for_unit(unit):
    return [f for f in FINDINGS if unit in f.units]


def assign(unit, np, layout, case):
    """The row whose run the case belongs to (first row of the unit whose predicate holds), or None: main run."""
    for f in for_unit(unit):
        if f.pred(np, layout, case):
            return f
    return None


def attribute(unit, np, layout, case, kind):
    """The row that explains this failure of this case, or None (then it is a new violation)."""
    g = kind_group(kind)
    for f in for_unit(unit):
        if g in f.kinds and f.pred(np, layout, case):
            return f
    return None


def entries():
    out = []
    for f in FINDINGS:
        for u in f.units:
            what = "%s: %s" % (u, f.what)
            if f.via:
                what += " (through %s)" % f.via
            out.append({"property": "C29", "key": f.key(u), "status": "open", "what": what})
    return out


if __name__ == "__main__":
    keys = [e["key"] for e in entries()]
    dup = {k for k in keys if keys.count(k) > 1}
    if dup:
        sys.exit("duplicate keys: %s" % sorted(dup))
    json.dump({"findings": entries()}, sys.stdout, indent=1)
    sys.stdout.write("\n")
