"""Platform descriptions for harness/route_dump.cpp (engine E3 of C24/C25/C26): a small builder that records the
declared ground truth (zones, netpoints, links, routes, gateways, bypasses, coordinates) and emits the spec lines the
harness executes through the C++ platform API; plus the batch runner/parser.

Only platforms that respect the API contract are built here (the properties quantify over valid platforms).
"""
import os
import tempfile

from verif import build, proc

UP, DOWN, NONE = "U", "D", ""


class Plat:
    """One platform: ground truth + spec lines."""

    def __init__(self, pid):
        self.id = pid
        self.lines = []
        self.zones = {}        # name -> dict(kind, parent, params, children[], hosts[], routers[])
        self.np = {}           # netpoint name -> dict(type, zone)
        self.links = {}        # declared name -> dict(lat, policy, zone)
        self.routes = {}       # zone -> [dict(src,dst,gw_src,gw_dst,sym,links=[(name,dir)])]
        self.star = {}         # zone -> {node: dict(up, down, loop, gw, up_set, down_set)}
        self.bypass = {}       # zone -> [dict(src,dst,gw_src,gw_dst,links)]
        self.coords = {}       # netpoint -> (x,y,z)
        self.gateway = {}      # zone -> default gateway netpoint
        self.wifi = {}         # zone -> dict(link, ap)
        self.queries = []
        self.tags = set()      # structural features used for violation keys / non-triviality

    # -- declarations ------------------------------------------------------------------------------------------------
    def zone(self, name, parent, kind, *params):
        self.zones[name] = dict(kind=kind, parent=parent, params=params, children=[], hosts=[], routers=[])
        self.np[name] = dict(type="zone", zone=parent)
        if parent:
            self.zones[parent]["children"].append(name)
        self.lines.append(" ".join(["Z", name, parent or "-", kind] + [str(p) for p in params]))
        self.routes[name] = []
        self.star[name] = {}
        self.bypass[name] = []
        return name

    def host(self, name, zone, coords=None):
        self.np[name] = dict(type="host", zone=zone)
        self.zones[zone]["hosts"].append(name)
        self.lines.append("H %s %s%s" % (name, zone, (" %r %r %r" % coords) if coords else ""))
        if coords:
            self.coords[name] = coords
        return name

    def router(self, name, zone, coords=None):
        self.np[name] = dict(type="router", zone=zone)
        self.zones[zone]["routers"].append(name)
        self.lines.append("R %s %s%s" % (name, zone, (" %r %r %r" % coords) if coords else ""))
        if coords:
            self.coords[name] = coords
        return name

    def zone_coords(self, zone, coords):
        self.coords[zone] = coords
        self.lines.append("C %s %r %r %r" % ((zone,) + coords))

    def link(self, name, zone, lat, policy="S"):
        self.links[name] = dict(lat=lat, policy=policy, zone=zone)
        self.lines.append("L %s %s %r %s" % (name, zone, lat, policy))
        return name

    def wifi_link(self, zone, name, lat, ap):
        self.links[name] = dict(lat=lat, policy="W", zone=zone)
        self.wifi[zone] = dict(link=name, ap=ap)
        self.lines.append("W %s %s %r %s" % (zone, name, lat, ap or "-"))

    @staticmethod
    def _tok(links):
        return [n + (":" + d if d else "") for n, d in links]

    def route(self, zone, src, dst, links, sym):
        """Route between two netpoints (hosts/routers) of the same zone."""
        self.routes[zone].append(dict(src=src, dst=dst, gw_src=None, gw_dst=None, sym=sym, links=list(links)))
        self.lines.append(" ".join(["A", zone, src, dst, "1" if sym else "0"] + self._tok(links)))

    def zroute(self, zone, src, dst, gw_src, gw_dst, links, sym):
        """Route between two child zones with explicit gateways."""
        self.routes[zone].append(dict(src=src, dst=dst, gw_src=gw_src, gw_dst=gw_dst, sym=sym, links=list(links)))
        self.lines.append(" ".join(["AZ", zone, src, dst, gw_src, gw_dst, "1" if sym else "0"] + self._tok(links)))

    def zroute_default(self, zone, src, dst, links, sym):
        """NetZone* overload: the default gateways of both zones are used."""
        self.routes[zone].append(dict(src=src, dst=dst, gw_src=self.gateway[src], gw_dst=self.gateway[dst], sym=sym,
                                      links=list(links)))
        self.lines.append(" ".join(["AN", zone, src, dst, "1" if sym else "0"] + self._tok(links)))

    def star_route(self, zone, node, links, gw=None, sym=True, direction="up"):
        """Star zones: node -> everyone (direction 'up', optionally symmetrical), everyone -> node ('down'), or loopback."""
        ent = self.star[zone].setdefault(node, dict(up=[], down=[], loop=[], gw=None, up_set=False, down_set=False))
        if direction == "loop":
            ent["loop"] = [self.resolve(l, False) for l in links]
            self.lines.append(" ".join(["AS", zone, node, node, "-", "0"] + self._tok(links)))
            return
        if direction == "up":
            ent["up"] = [self.resolve(l, False) for l in links]
            ent["up_set"] = True
            ent["gw"] = gw
            if sym:
                ent["down"] = [self.resolve(l, True) for l in reversed(links)]
                ent["down_set"] = True
            self.lines.append(" ".join(["AS", zone, node, "-", gw or "-", "1" if sym else "0"] + self._tok(links)))
        else:
            ent["down"] = [self.resolve(l, False) for l in links]
            ent["down_set"] = True
            ent["gw"] = gw
            self.lines.append(" ".join(["AS", zone, "-", node, gw or "-", "0"] + self._tok(links)))

    def bypass_route(self, zone, src, dst, gw_src, gw_dst, links):
        self.bypass[zone].append(dict(src=src, dst=dst, gw_src=gw_src, gw_dst=gw_dst, links=list(links)))
        self.lines.append(" ".join(["B", zone, src, dst, gw_src or "-", gw_dst or "-"] + self._tok(links)))

    def set_gateway(self, zone, netpoint):
        self.gateway[zone] = netpoint
        self.lines.append("G %s %s" % (zone, netpoint))

    def seal(self, zone):
        self.lines.append("S " + zone)

    def xml(self, path):
        self.lines.append("XML " + path)

    def q(self, line):
        self.lines.append(line)

    # -- helpers -----------------------------------------------------------------------------------------------------
    def resolve(self, link, backward):
        """Name of the link object actually traversed by a (name, direction) entry, forward or in the reversed copy."""
        name, d = link
        if self.links[name]["policy"] != "D":
            return name
        if backward:
            d = DOWN if d == UP else UP
        return name + ("_UP" if d == UP else "_DOWN")

    def forward(self, links):
        return [self.resolve(l, False) for l in links]

    def backward(self, links):
        return [self.resolve(l, True) for l in reversed(links)]

    def zone_path(self, npname):
        """Zones containing the netpoint, from the outermost declared zone down to its own zone."""
        z = self.np[npname]["zone"]
        out = []
        while z:
            out.insert(0, z)
            z = self.zones[z]["parent"]
        return out

    def all_hosts(self):
        return [n for n, d in self.np.items() if d["type"] == "host"]

    def spec(self):
        return "P %s\n%s\nE\n" % (self.id, "\n".join(self.lines))

    def witness(self):
        return {"id": self.id, "spec": self.lines, "tags": sorted(self.tags)}


class Result:
    """Parsed output of one platform."""

    def __init__(self, pid):
        self.id = pid
        self.status = None      # ok | exit:N | sig:N | spin | wall | missing
        self.cpu = 0.0
        self.routes = []        # in query order: (src, dst, lat|None, links|None, exc|None)
        self.local = {}         # (zone, src, dst) -> dict(gw_src, gw_dst, lat, links) or dict(exc=...)   (last answer)
        self.local_all = []     # every get_local_route answer in query order: (zone, src, dst, dict as above)
        self.linklat = {}
        self.spin = None        # text of the SPIN line
        self.build_errors = []
        self.noise = []
        self.done = False

    def route_map(self):
        m = {}
        for s, d, lat, links, exc in self.routes:
            m.setdefault((s, d), []).append((lat, links, exc))
        return m


def parse(out):
    res = {}
    cur = None
    for line in out.splitlines():
        if not line:
            continue
        t = line.split(" ")
        k = t[0]
        if k == "BEGIN":
            cur = Result(t[1])
            res[cur.id] = cur
        elif cur is None:
            continue
        elif k == "END":
            cur.status = t[2]
            cur.cpu = float(t[3].split("=")[1])
            cur = None
        elif k == "R":
            n = int(t[4])
            cur.routes.append((t[1], t[2], float(t[3]), t[5:5 + n], None))
        elif k == "X":
            cur.routes.append((t[1], t[2], None, None, " ".join(t[3:])))
        elif k == "LR":
            n = int(t[7])
            cur.local[(t[1], t[2], t[3])] = dict(gw_src=None if t[4] == "-" else t[4], gw_dst=None if t[5] == "-" else t[5],
                                                 lat=float(t[6]), links=t[8:8 + n])
            cur.local_all.append((t[1], t[2], t[3], cur.local[(t[1], t[2], t[3])]))
        elif k == "LX":
            cur.local[(t[1], t[2], t[3])] = dict(exc=" ".join(t[4:]))
            cur.local_all.append((t[1], t[2], t[3], cur.local[(t[1], t[2], t[3])]))
        elif k == "LK":
            cur.linklat[t[1]] = float(t[2])
        elif k == "SPIN":
            cur.spin = line
        elif k == "BX" or k == "SPECERR":
            cur.build_errors.append(line)
        elif k == "DONE":
            cur.done = True
        elif k == "HOSTS":
            pass
        else:
            if len(cur.noise) < 40:
                cur.noise.append(line[:300])
    return res


def harness(flavour):
    return build.harness("route_dump.cpp", flavour, internal=True)


class Bundle:
    """Several platforms whose names do not collide (zones, netpoints and links carry a per-platform prefix), built side by
    side under the root zone of ONE engine (one child process): all declarations first, then all queries (the platform is
    sealed by the first query). Engine start-up dominates the cost of a small platform."""

    QUERY = ("Q", "Q2", "LQ", "LQA", "LINKS")

    def __init__(self, bid, members):
        self.id = bid
        self.members = list(members)

    def spec(self):
        decl, qry = [], []
        for p in self.members:
            for l in p.lines:
                (qry if l.split(" ", 1)[0] in self.QUERY else decl).append(l)
        return "P %s\n%s\nE\n" % (self.id, "\n".join(decl + qry))


def run_batch(flavour, plats, cpu_budget, wall_budget, scratch):
    """Run the given platforms (Plat or Bundle: anything with .id and .spec()) in one harness process (each platform in its
    own forked child). cpu_budget = CPU seconds allowed to ONE build directive or query. Returns id -> Result.
    A platform without END line (harness process killed by the outer watchdog) gets status 'missing'."""
    exe = harness(flavour)
    fd, path = tempfile.mkstemp(prefix="spec-", suffix=".txt", dir=scratch)
    with os.fdopen(fd, "w") as f:
        for p in plats:
            f.write(p.spec())
    outer = 60 + len(plats) * (wall_budget + 1)
    r = proc.run([exe, path, repr(float(cpu_budget)), repr(float(wall_budget)), "--log=root.thres:critical"], timeout=outer)
    os.unlink(path)
    res = parse(r.out)
    for p in plats:
        if p.id not in res or res[p.id].status is None:
            rr = res.get(p.id) or Result(p.id)
            rr.status = "missing"
            rr.noise.append((r.err or "")[-400:])
            res[p.id] = rr
    return res


def budgets(flavour):
    """(cpu budget, wall budget) in seconds for one platform child. A child normally needs 0.05-0.3 s of CPU (1-2 s under ASan)."""
    if flavour == "asan":
        return 8.0, 240.0
    return 2.0, 120.0


def chunks(items, n):
    return [items[i:i + n] for i in range(0, len(items), n)]
