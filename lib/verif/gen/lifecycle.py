"""Generator of actor-lifecycle scenarios for C11 (harness/lifecycle.cpp).

A scenario is a list of scripts (actor bodies). Only programs that respect the API contract are produced:
 * host 0 is never turned off and only scripts living on host 0 issue hostoff/hoston, so an auto-restarted actor never
   reboots hosts itself (no unbounded reboot ping-pong);
 * create k only targets scripts with a larger index (finite creation trees);
 * set_kill_time / daemonize / set_auto_restart / on_exit are only issued by the actor on itself (or by main() before
   Engine::run()), so that they can never reach an actor that already ran its clean-up;
 * join time-outs are >= 0 or absent (negative values other than "no time-out" are outside the contract);
 * at most one kill time is armed per script unless the scenario carries the 'rearm' feature.
All durations are multiples of 0.5 s on 1 Gf hosts so that many events collide at the same date.
"""

SLEEPS = [0.5, 0.5, 1, 1, 1.5, 2, 3]
FLOPS = [0.5e9, 1e9, 1e9, 2e9]
TIMEOUTS = [-1, -1, -1, 0, 0.5, 1, 1, 2, 5]
KILLTIMES = [0.5, 1, 1.5, 2, 2.5, 3, 4]


def gen(rng):
    nhosts = rng.randint(2, 4)
    ns = rng.randint(3, 7)
    rearm = rng.random() < 0.04
    scripts = []
    for k in range(ns):
        host = 0 if k == 0 else rng.randrange(nhosts)
        s = {"host": host, "initial": 1 if (k == 0 or rng.random() < 0.5) else 0, "daemon": 0, "killtime": -1,
             "autorestart": 0, "onexit": 0, "ops": []}
        scripts.append(s)
    # every non-initial script is created by some earlier script
    creates = {k: [] for k in range(ns)}
    for j in range(1, ns):
        if not scripts[j]["initial"] or rng.random() < 0.15:
            creates[rng.randrange(j)].append(j)
    for k, s in enumerate(scripts):
        armed = False
        if s["initial"]:
            if rng.random() < 0.2:
                s["daemon"] = 1
            if rng.random() < 0.2:
                s["onexit"] = rng.randint(1, 3)
            if s["host"] != 0 and rng.random() < 0.2:
                s["autorestart"] = 1
            if rng.random() < 0.15 and (not s["autorestart"] or rearm):
                s["killtime"] = rng.choice(KILLTIMES)
                armed = True
        ops = []
        pending_resume = []          # [countdown, target]
        n = rng.randint(2, 8)
        todo = list(creates[k])
        for i in range(n):
            for pr in pending_resume:
                pr[0] -= 1
            due = [pr for pr in pending_resume if pr[0] <= 0]
            if due:
                pending_resume.remove(due[0])
                ops.append(["resume", due[0][1]])
                continue
            if todo and rng.random() < 0.5:
                ops.append(["create", todo.pop(0)])
                continue
            r = rng.random()
            other = rng.randrange(ns)
            if r < 0.22:
                ops.append(["sleep", rng.choice(SLEEPS)])
            elif r < 0.31:
                ops.append(["exec", rng.choice(FLOPS)])
            elif r < 0.34:
                ops.append(["execd", rng.choice(FLOPS), rng.choice([0.5, 1])])
            elif r < 0.38:
                ops.append(["yield"])
            elif r < 0.46:
                ops.append(["kill", other])
            elif r < 0.475:
                ops.append(["killall"])
            elif r < 0.62:
                ops.append(["join", other, rng.choice(TIMEOUTS)])
            elif r < 0.71:
                ops.append(["suspend", other])
                if rng.random() < 0.85:
                    pending_resume.append([rng.randint(1, 2), other])
            elif r < 0.75:
                ops.append(["resume", other])
            elif r < 0.77:
                ops.append(["suspendself"])
            elif r < 0.80:
                ops.append(["daemonize"])
            elif r < 0.84:
                if (not armed and not s["autorestart"]) or rearm:
                    ops.append(["killtime", rng.choice(KILLTIMES)])
                    armed = True
                else:
                    ops.append(["sleep", rng.choice(SLEEPS)])
            elif r < 0.91:
                ops.append(["onexit", rng.randint(1, 3)])
            elif r < 0.93:
                if s["host"] != 0 and (not armed or rearm):
                    ops.append(["autorestart"])
                    s["autorestart_op"] = 1
                else:
                    ops.append(["yield"])
            elif r < 0.94:
                ops.append(["exit"])
            else:
                if s["host"] == 0 and nhosts > 1:
                    h = rng.randrange(1, nhosts)
                    ops.append(["hostoff", h])
                    ops.append(["sleep", rng.choice([0.5, 1, 1])] if rng.random() < 0.7 else ["yield"])
                    ops.append(["hoston", h])
                else:
                    ops.append(["sleep", rng.choice(SLEEPS)])
        for j in todo:
            ops.append(["create", j])
        for pr in pending_resume:
            ops.append(["sleep", 0.5])
            ops.append(["resume", pr[1]])
        s.pop("autorestart_op", None)
        s["ops"] = ops
    return {"hosts": nhosts, "scripts": scripts}


def to_text(sc):
    out = ["hosts %d" % sc["hosts"]]
    for k, s in enumerate(sc["scripts"]):
        out.append("script %d %d %d %d %r %d %d" % (k, s["host"], s["initial"], s["daemon"], float(s["killtime"]), s["autorestart"], s["onexit"]))
        for op in s["ops"]:
            out.append(" ".join([op[0]] + [repr(float(x)) for x in op[1:]]))
    out.append("end")
    return "\n".join(out) + "\n"


def S(host=0, initial=1, daemon=0, killtime=-1, autorestart=0, onexit=0, ops=()):
    return {"host": host, "initial": initial, "daemon": daemon, "killtime": killtime, "autorestart": autorestart, "onexit": onexit,
            "ops": [list(o) for o in ops]}


# Directed scenarios: one per clause of the statement, plus the minimal witnesses of the known findings.
DIRECTED = [
    # join with / without timeout, on a live, a dying and a dead target; joiner suspended meanwhile
    {"hosts": 2, "scripts": [
        S(0, ops=[("join", 1, -1), ("join", 1, 2), ("join", 2, 0), ("join", 2, 1), ("join", 2, 5), ("join", 2, -1)]),
        S(1, ops=[("sleep", 2)]),
        S(1, onexit=2, ops=[("sleep", 5), ("onexit", 2)]),
        S(0, ops=[("sleep", 3), ("suspend", 0), ("sleep", 1), ("resume", 0)])]},
    # on_exit order and flag for: normal end, kill, exit(), kill time, host off, daemon killed at the end, kill_all
    {"hosts": 3, "scripts": [
        S(0, onexit=3, ops=[("onexit", 2), ("sleep", 1), ("kill", 1), ("sleep", 1), ("hostoff", 2), ("sleep", 3)]),
        S(1, onexit=2, ops=[("onexit", 3), ("sleep", 10)]),
        S(2, onexit=1, ops=[("onexit", 1), ("sleep", 10)]),
        S(1, onexit=2, killtime=1.5, ops=[("sleep", 10)]),
        S(1, daemon=1, onexit=2, ops=[("sleep", 100)]),
        S(0, onexit=1, ops=[("onexit", 2), ("sleep", 0.5), ("exit",)])]},
    # suspended actors: sleeping, computing, suspended by themselves, killed while suspended, resumed twice
    {"hosts": 2, "scripts": [
        S(0, ops=[("sleep", 0.5), ("suspend", 1), ("suspend", 2), ("sleep", 2), ("resume", 1), ("resume", 2), ("resume", 2), ("sleep", 1),
                  ("resume", 3), ("suspend", 4), ("sleep", 1), ("kill", 4)]),
        S(1, ops=[("exec", 1e9), ("sleep", 1)]),
        S(1, ops=[("sleep", 1), ("sleep", 1)]),
        S(1, ops=[("suspendself",), ("sleep", 1)]),
        S(1, onexit=1, ops=[("exec", 5e9)])]},
    # auto-restart after a reboot (actor alive at the reboot, and actor already finished), kill_all, daemon + kill time
    {"hosts": 3, "scripts": [
        S(0, ops=[("sleep", 1), ("hostoff", 1), ("hostoff", 2), ("sleep", 1), ("hoston", 1), ("hoston", 2), ("hoston", 2), ("sleep", 4), ("killall",)]),
        S(1, autorestart=1, onexit=1, ops=[("onexit", 1), ("sleep", 2.5)]),
        S(2, ops=[("autorestart",), ("sleep", 0.5)]),
        S(0, daemon=1, killtime=3, ops=[("sleep", 50)]),
        S(0, ops=[("sleep", 50)])]},
    # everything daemonized / the last regular actor becomes a daemon / nobody resumes (deadlock path)
    {"hosts": 2, "scripts": [
        S(0, ops=[("sleep", 1), ("daemonize",), ("sleep", 5)]),
        S(1, daemon=1, onexit=1, ops=[("sleep", 3)]),
        S(1, daemon=1, ops=[("suspendself",)])]},
    {"hosts": 2, "scripts": [
        S(0, ops=[("sleep", 1)]),
        S(1, onexit=2, ops=[("suspendself",), ("sleep", 1)])]},
    # two actors turn the same host on in the same scheduling round (SimGrid boots it twice: every auto-restart actor gets two
    # incarnations, counted as anomaly.restart.extra - the statement has no clause on restarts); each incarnation obeys the clauses
    {"hosts": 2, "scripts": [
        S(0, ops=[("sleep", 1), ("hostoff", 1), ("sleep", 1), ("hoston", 1), ("sleep", 2)]),
        S(1, autorestart=1, onexit=2, ops=[("sleep", 1.5)]),
        S(0, ops=[("sleep", 2), ("hoston", 1), ("sleep", 1)])]},
    # suspend and resume requests on one target issued in the same scheduling round, in both orders
    {"hosts": 2, "scripts": [
        S(0, ops=[("sleep", 1), ("resume", 2), ("sleep", 2), ("suspend", 2), ("sleep", 1), ("resume", 2), ("sleep", 3)]),
        S(0, ops=[("sleep", 1), ("suspend", 2), ("sleep", 2), ("resume", 2), ("sleep", 3)]),
        S(1, ops=[("sleep", 0.5), ("sleep", 1), ("sleep", 1), ("exec", 1e9), ("sleep", 1)])]},
]

# minimal witnesses of the open known findings (always run, on the plain flavour)
KNOWN = [
    # F-C11-a: suspend() handled in the scheduling round in which the target creates an Exec that is not started yet
    {"hosts": 2, "scripts": [
        S(1, ops=[("sleep", 1), ("exec", 1e9)]),
        S(0, ops=[("sleep", 1), ("suspend", 0), ("sleep", 3), ("resume", 0)])]},
    {"hosts": 2, "scripts": [
        S(1, ops=[("execd", 1e9, 2)]),
        S(0, ops=[("sleep", 1), ("suspend", 0), ("sleep", 3), ("resume", 0)])]},
    # F-C11-c: an actor killed (here: its host is turned off) in the scheduling round in which it was created never terminates
    {"hosts": 2, "scripts": [
        S(0, ops=[("create", 1), ("sleep", 1)]),
        S(1, initial=0, ops=[("sleep", 1)]),
        S(0, ops=[("hostoff", 1), ("sleep", 2)])]},
    # F-C11-c, on_exit clause: a restarted incarnation inherits an on_exit callback and is killed (kill_all) in the round of its re-creation
    {"hosts": 2, "scripts": [
        S(0, ops=[("sleep", 1), ("hostoff", 1), ("sleep", 1), ("killall",), ("sleep", 3)]),
        S(1, autorestart=1, onexit=1, ops=[("sleep", 10)]),
        S(0, ops=[("sleep", 2), ("hoston", 1), ("sleep", 3)])]},
    # F-C11-c, daemon clause: a daemon re-created by a reboot in the round in which the last regular actor ends is killed by the daemon
    # rule in the round of its creation, and survives the end of the simulation
    {"hosts": 2, "scripts": [
        S(0, daemon=1, ops=[("sleep", 0.5), ("hostoff", 1), ("sleep", 0.5), ("hoston", 1), ("sleep", 5)]),
        S(1, daemon=1, autorestart=1, onexit=1, ops=[("sleep", 10)]),
        S(0, ops=[("sleep", 1)])]},
    # F-C11-b: set_kill_time twice, the later call asking for the earlier date: the first timer fires on a dead actor
    {"hosts": 2, "scripts": [
        S(1, onexit=1, ops=[("killtime", 5), ("killtime", 3), ("sleep", 10)]),
        S(0, ops=[("sleep", 8)])]},
]
