"""Generator of scenarios for harness/progvm.cpp (C01, C02): platform + synchronisation objects + scripts + initial actors.

Every scenario is a *valid* S4U program (the VM additionally guards the API contract: unlock only by the owner, one activity
per slot, ...) whose actors share nothing but SimGrid objects. Scenarios are assembled from motifs that all aim at the same
thing: many events at exactly the same simulated date, so that every order the kernel has to invent (who is woken first, which
ready activity wait_any reports, in which order the victims of a kill die, ...) becomes visible in the log - as the order of the
lines and, through contended mutexes/semaphores/mailboxes right after the tie, as dates and values of later events.

Durations are integers counted in UNIT = 2^-10 s; host speed 2^30 flop/s and flop amounts k*2^20 make execs last k units exactly.
"""

MFLOP = 1 << 20          # one unit of time on a free core
SPEED = 1 << 30
DISK_BW = 100 * (1 << 20)  # bytes/s: 102400 bytes = one unit
IO_UNIT = 102400
FAR = 100000             # "for ever" for daemons


class Scenario:
    def __init__(self, rng):
        self.rng = rng
        self.nh = rng.randint(3, 6)
        self.cores = [rng.choice([1, 1, 1, 2]) for _ in range(self.nh)]
        self.shared_bus = rng.random() < 0.4
        self.fat = rng.random() < 0.2
        self.ndisk = self.nh
        self.n = {"mutex": 0, "cv": 0, "mbox": 0, "mq": 0}
        self.sems = []
        self.pool_mutex = []
        self.pool_sem = []
        self.bars = []
        self.scripts = []
        self.actors = []          # [name, host, script, daemon, killtime]
        self.motifs = []
        self.plain = set()        # actors whose script only sleeps/execs (safe to suspend)

    # -- objects ---------------------------------------------------------------------------
    def mutex(self, share=0.3, private=False):
        """A mutex: a new one, or (probability share) one that another motif uses too. Private ones are never handed out again."""
        if self.pool_mutex and not private and self.rng.random() < share:
            return self.rng.choice(self.pool_mutex)
        self.n["mutex"] += 1
        if not private:
            self.pool_mutex.append(self.n["mutex"] - 1)
        return self.n["mutex"] - 1

    def new(self, kind):
        self.n[kind] += 1
        return self.n[kind] - 1

    def sem(self, cap, private=True):
        self.sems.append(cap)
        if not private:
            self.pool_sem.append(len(self.sems) - 1)
        return len(self.sems) - 1

    def bar(self, size):
        self.bars.append(size)
        return len(self.bars) - 1

    def script(self, ops):
        self.scripts.append([o if isinstance(o, str) else " ".join(map(str, o)) for o in ops])
        return len(self.scripts) - 1

    def actor(self, name, ops, host=None, daemon=0, killtime=-1, plain=False):
        """Add an initial actor; returns its index (targets are 'a<index>' *after* the final shuffle: see text())."""
        h = self.rng.randrange(self.nh) if host is None else host % self.nh
        self.actors.append([name, h, ops, daemon, killtime])
        if plain:
            self.plain.add(name)
        return name

    def host(self):
        return self.rng.randrange(self.nh)

    def distinct_hosts(self, k):
        hs = list(range(self.nh))
        self.rng.shuffle(hs)
        return [hs[i % self.nh] for i in range(k)]

    # -- text ------------------------------------------------------------------------------
    def text(self):
        rng = self.rng
        order = list(range(len(self.actors)))
        rng.shuffle(order)
        index = {self.actors[o][0]: i for i, o in enumerate(order)}   # name -> position among the initial actors
        L = []
        for h in range(self.nh):
            L.append("H h%d %d %d" % (h, self.cores[h], SPEED))
        pol = "F" if self.fat else "S"
        if self.shared_bus:
            L.append("L bus 12500000 0.0009765625 %s" % pol)
        for i in range(self.nh):
            for j in range(i + 1, self.nh):
                if self.shared_bus:
                    L.append("R h%d h%d 1 bus" % (i, j))
                else:
                    L.append("L l%d_%d 12500000 0.0009765625 %s" % (i, j, pol))
                    L.append("R h%d h%d 1 l%d_%d" % (i, j, i, j))
        for h in range(self.ndisk):
            L.append("D h%d d%d %d %d" % (h, h, DISK_BW, DISK_BW))
        L.append("X")
        if self.n["mutex"]:
            L.append("O mutex %d" % self.n["mutex"])
        if self.sems:
            L.append("O sem " + " ".join(map(str, self.sems)))
        if self.n["cv"]:
            L.append("O cv %d" % self.n["cv"])
        if self.bars:
            L.append("O bar " + " ".join(map(str, self.bars)))
        if self.n["mbox"]:
            L.append("O mbox %d" % self.n["mbox"])
        if self.n["mq"]:
            L.append("O mq %d" % self.n["mq"])
        # scripts: the explicitly registered ones (for 'create') first, then one per initial actor
        base = len(self.scripts)
        allscripts = list(self.scripts) + [[o if isinstance(o, str) else " ".join(map(str, o)) for o in a[2]] for a in self.actors]
        for k, ops in enumerate(allscripts):
            L.append("S %d" % k)
            for o in ops:
                toks = o.split()
                # resolve symbolic targets '@name' into a<i>
                toks = [("a%d" % index[t[1:]]) if t.startswith("@") else t for t in toks]
                L.append(" ".join(toks))
        for o in order:
            name, h, _ops, daemon, kt = self.actors[o]
            L.append("A %s %d %d %d %s 1" % (name, h, base + o, daemon, kt))
        return "\n".join(L) + "\n"


# ---- motifs -------------------------------------------------------------------------------------
DATES = [0, 4, 8, 8, 16, 16, 24]


def _align(rng, t, style, host_i=None):
    """Ops that bring an actor to date t (from date 0) in different ways, so that wake-ups tie across kinds of activities."""
    if t == 0:
        return []
    if style == "sleepu":
        return [("sleepu", t)]
    if style == "sleep":
        return [("sleep", t)]
    if style == "exec":
        return [("exec", t * MFLOP, -1 if host_i is None else host_i)]
    if style == "io":
        return [("io", host_i or 0, rng.choice("RW"), t * IO_UNIT)]
    return [("sleepu", t)]


def _after_tie(sc, rng):
    """A short contended section that makes the wake-up order observable in later dates/values."""
    r = rng.random()
    if r < 0.35:
        m = sc.mutex(0.5)
        return [("lock", m), ("sleep", 1), ("unlock", m)]
    if r < 0.55:
        if not sc.pool_sem or rng.random() < 0.6:
            s = sc.sem(rng.choice([1, 1, 2]), private=False)
        else:
            s = rng.choice(sc.pool_sem)
        return [("acq", s, 40), ("sleep", 1), ("rel", s)]
    if r < 0.7:
        m = sc.mutex(0.5)
        return [("trylock", m), ("sleep", 1), ("unlock", m)]
    return []


def m_wake_contend(sc, rng, mi):
    k = rng.randint(3, 8)
    t = rng.choice(DATES[1:])
    style = rng.choice(["sleepu", "sleep", "exec", "mixed", "bar", "cv"])
    m = sc.mutex()
    tail_kind = rng.choice(["mutex", "sem", "mbox", "mq"])
    hosts = sc.distinct_hosts(k)
    s = sc.sem(rng.choice([1, 2])) if tail_kind == "sem" else None
    mb = sc.new("mbox") if tail_kind == "mbox" else None
    mq = sc.new("mq") if tail_kind == "mq" else None
    b = sc.bar(k) if style == "bar" else None
    c = sc.new("cv") if style == "cv" else None
    sent = 0
    for i in range(k):
        st = style if style != "mixed" else rng.choice(["sleepu", "sleep", "exec"])
        if st == "bar":
            ops = [("sleep", rng.choice([0, 1, t])), ("bar", b)]
        elif st == "cv":
            ops = [("cvwait", c, 60)]
        else:
            ops = _align(rng, t, st, hosts[i])
        reps = rng.randint(1, 2)
        for _ in range(reps):
            if tail_kind == "mutex":
                ops += [("lock", m), ("sleep", rng.choice([0, 1, 1])), ("unlock", m)]
            elif tail_kind == "sem":
                ops += [("acq", s), ("sleep", 1), ("rel", s)]
            elif tail_kind == "mbox":
                ops += [("put", mb, 1000, 60)]
            else:
                ops += [("mqput", mq)]       # no timed operation on message queues: see C09's findings
            sent += 1
        sc.actor("w%d_%d" % (mi, i), ops, host=hosts[i])
    if style == "cv":
        sc.actor("w%dn" % mi, [("sleepu", t), ("notifyall", c)] if rng.random() < 0.6 else
                 [("sleepu", t)] + [("notify", c)] * k)
    if tail_kind == "mbox":
        sc.actor("w%dc" % mi, [("get", mb, 80)] * (2 * k))
    if tail_kind == "mq":
        sc.actor("w%dc" % mi, [("mqget", mq)] * sent)
    return "wake_contend:" + style + ":" + tail_kind


def m_waitany(sc, rng, mi):
    n = rng.randint(3, 6)
    kind = rng.choice(["exec", "exec_same_host", "io", "get", "mqget", "mixed"])
    t = rng.choice([2, 4, 8])
    hosts = sc.distinct_hosts(n)
    ops = []
    senders = []
    has_mq = False
    for i in range(n):
        k = kind if kind != "mixed" else rng.choice(["exec", "io", "get", "mqget"])
        if k == "exec":
            ops.append(("execa", i, t * MFLOP, hosts[i]))
        elif k == "exec_same_host":
            ops.append(("execa", i, t * MFLOP, hosts[0]))
        elif k == "io":
            ops.append(("ioa", i, hosts[i] % sc.ndisk, rng.choice("RW"), t * IO_UNIT))
        elif k == "get":
            mb = sc.new("mbox")
            ops.append(("geta", i, mb))
            senders.append([("sleepu", t), ("put", mb, 1000, 60)])
        else:
            q = sc.new("mq")
            ops.append(("mqgeta", i, q))
            senders.append([("sleepu", t), ("mqput", q)])
            has_mq = True
    rng.shuffle(ops)
    slots = list(range(n))
    how = rng.choice(["waitany", "waitany", "waitany_tmo", "testany", "waitall", "wait_each", "test_each"])
    if has_mq and how in ("waitany_tmo", "wait_each"):
        how = "waitany"
    drain = -1 if has_mq else 80
    if how == "waitany":
        ops += [("waitany", -1, *slots)] * n
    elif how == "waitany_tmo":   # the timeout ties with the completions
        ops += [("waitany", t, *slots)] * n + [("waitany", 80, *slots)] * n
    elif how == "testany":
        ops += [("sleepu", t)] + [("testany", *slots)] * (n + 1) + [("waitany", drain, *slots)] * n
    elif how == "waitall":
        ops += [("waitall", *slots)]
    elif how == "wait_each":
        order = slots[:]
        rng.shuffle(order)
        ops += [("wait", s, rng.choice([-1, t, 80])) for s in order]
    else:
        ops += [("sleepu", t)] + [("test", s) for s in slots] + [("waitany", drain, *slots)] * n
    ops += _after_tie(sc, rng)
    me = sc.host()
    sc.actor("y%d" % mi, ops, host=me)
    for j, so in enumerate(senders):
        sc.actor("y%ds%d" % (mi, j), so, host=me + 1 + j % max(1, sc.nh - 1))
    return "waitany:" + kind + ":" + how


def m_dying_pending(sc, rng, mi):
    n = rng.randint(2, 6)
    t = rng.choice([2, 4, 8, 16])
    end = rng.choice(["exit", "return", "killed", "killtime"])
    m = sc.mutex()
    ops = []
    for i in range(n):
        mb = sc.new("mbox")
        dirn = rng.choice(["puta", "puta", "geta"])
        if dirn == "puta":
            ops.append(("puta", i, mb, 10 ** 9))          # far too long to complete before the death
            peer = [("get", mb, rng.choice([-1, 90]))]
        else:
            ops.append(("geta", i, mb))
            peer = [("put", mb, 10 ** 9, rng.choice([-1, 90]))]
        peer += [("lock", m), ("sleep", 1), ("unlock", m)] if rng.random() < 0.8 else _after_tie(sc, rng)
        sc.actor("z%dp%d" % (mi, i), peer)
    if rng.random() < 0.5:   # also a few pending execs / ios of its own
        ops.append(("execa", n, 10 ** 6 * MFLOP, -1))
        ops.append(("ioa", n + 1, 0, "R", 10 ** 6 * IO_UNIT))
    rng.shuffle(ops)
    kt = -1
    if end == "exit":
        ops += [("sleepu", t), ("exit",)]
    elif end == "return":
        ops += [("sleepu", t)]
    elif end == "killtime":
        ops += [("sleep", FAR)]
        kt = t
    else:
        ops += [("sleep", FAR)]
    name = sc.actor("z%d" % mi, ops, killtime=kt)
    if end == "killed":
        sc.actor("z%dk" % mi, [("sleepu", t), ("kill", "@" + name)])
    return "dying_pending:" + end


def m_daemons(sc, rng, mi):
    d = rng.randint(3, 8)
    kinds = []
    s = sc.sem(0)
    mb = sc.new("mbox")
    for i in range(d):
        k = rng.choice(["sleep", "sleep", "get", "acq", "exec", "loop"])
        kinds.append(k)
        if k == "sleep":
            ops = [("sleep", FAR)]
        elif k == "get":
            ops = [("get", mb)]
        elif k == "acq":
            ops = [("acq", s)]
        elif k == "exec":
            ops = [("exec", FAR * MFLOP, -1)]
        else:
            ops = [("sleep", 3)] * 12 + [("sleep", FAR)]
        sc.actor("d%d_%d" % (mi, i), ops, daemon=1)
    return "daemons"


def m_mass_kill(sc, rng, mi):
    v = rng.randint(3, 8)
    t = rng.choice([4, 8, 16, 24])
    how = rng.choice(["kills", "kills", "killtime", "mixed", "kills", "killtime", "mixed", "killall"])
    if how == "killall":
        t = 48               # everybody dies: do it late, once the other motifs have had their ties
    m = sc.mutex(private=True)
    s = sc.sem(0)
    mb = sc.new("mbox")
    q = sc.new("mq")
    c = sc.new("cv")
    post = sc.mutex()
    names = []
    hosts = sc.distinct_hosts(v)
    sc.actor("k%dh" % mi, [("lock", m), ("sleepu", t + 2), ("unlock", m)])      # keeps m busy beyond the kill date
    for i in range(v):
        blk = rng.choice(["sleep", "exec", "get", "mqget", "acq", "cvwait", "join", "io", "waitany", "put"])
        if blk == "sleep":
            ops = [("sleep", FAR)]
        elif blk == "exec":
            ops = [("exec", FAR * MFLOP, hosts[i])]
        elif blk == "get":
            ops = [("get", mb)]
        elif blk == "put":
            ops = [("put", mb, 1000)]
        elif blk == "mqget":
            ops = [("mqget", q)]
        elif blk == "acq":
            ops = [("acq", s)]
        elif blk == "cvwait":
            ops = [("cvwait", c)]
        elif blk == "io":
            ops = [("io", hosts[i] % sc.ndisk, "W", FAR * IO_UNIT)]
        elif blk == "waitany":
            ops = [("execa", 0, FAR * MFLOP, hosts[i]), ("geta", 1, mb), ("waitany", -1, 0, 1)]
        else:
            ops = [("join", "@k%dh" % mi, -1), ("sleep", FAR)]
        kt = t if how == "killtime" or (how == "mixed" and rng.random() < 0.5) else -1
        names.append((sc.actor("k%dv%d" % (mi, i), ops, host=hosts[i], killtime=kt), kt))
    # joiners wake in the round where the victims die, then contend
    for j in range(rng.randint(0, 3)):
        tgt = rng.choice(names)[0]
        sc.actor("k%dj%d" % (mi, j), [("join", "@" + tgt, -1), ("lock", post), ("sleep", 1), ("unlock", post)])
    left = [nm for nm, kt in names if kt < 0]
    if how == "killall":
        sc.actor("k%dk" % mi, [("sleepu", t), ("killall",)])
    elif left:
        rng.shuffle(left)
        nk = rng.choice([1, 1, 2]) if len(left) > 2 else 1
        for j in range(nk):
            mine = left[j::nk]
            sc.actor("k%dk%d" % (mi, j), [("sleepu", t)] + [("kill", "@" + nm) for nm in mine])
    return "mass_kill:" + how


def m_prodcons(sc, rng, mi):
    p, c = rng.randint(2, 4), rng.randint(1, 3)
    r = rng.randint(1, 3)
    mq = rng.random() < 0.4
    box = sc.new("mq" if mq else "mbox")
    size = rng.choice([0, 1, 1000, 100000])
    t = rng.choice(DATES)
    for i in range(p):
        ops = _align(rng, t, "sleepu")
        for _ in range(r):
            if mq:
                # synchronous puts only: a later wait()/test() of the sender on a delivered put writes the payload pointer into
                # the receiver's (possibly dead) buffer again (C09:payload-rewritten-after-delivery)
                ops.append(("mqput", box))
            else:
                x = rng.random()
                if x < 0.6:
                    ops.append(("put", box, size, rng.choice([-1, 30, 60])))
                elif x < 0.8:
                    ops.append(("putd", box, size))
                else:
                    ops += [("puta", 0, box, size), ("wait", 0, rng.choice([-1, 50]))]
            ops.append(("sleep", rng.choice([0, 0, 1])))
        sc.actor("p%dp%d" % (mi, i), ops)
    total = p * r
    for j in range(c):
        cnt = total // c + (1 if j < total % c else 0)
        ops = _align(rng, rng.choice([0, t]), "sleepu")
        ops += [("mqget", box) if mq else ("get", box, 70)] * cnt
        sc.actor("p%dc%d" % (mi, j), ops)
    return "prodcons:" + ("mq" if mq else "mbox")


def m_sync_mix(sc, rng, mi):
    g = rng.randint(3, 6)
    ms = [sc.mutex(), sc.mutex()]
    s = sc.sem(rng.choice([0, 1, 2]))
    c = sc.new("cv")
    for i in range(g):
        ops = []
        held = None
        for _ in range(rng.randint(6, 14)):
            x = rng.random()
            if x < 0.18 and held is None:
                held = rng.choice(ms)
                ops.append(("lock", held))
            elif x < 0.26 and held is None:
                held = rng.choice(ms)
                ops.append(("trylock", held))
            elif x < 0.42 and held is not None:
                ops.append(("unlock", held))
                held = None
            elif x < 0.52:
                ops.append(("acq", s, rng.choice([1, 2, 2, 4, "t"])))
            elif x < 0.62:
                ops.append(("rel", s))
            elif x < 0.68:
                ops.append(("cap", s))
            elif x < 0.76 and held is None:
                ops.append(("cvwait", c, rng.choice([1, 2, 4])))
            elif x < 0.82:
                ops.append(("notify", c))
            elif x < 0.86:
                ops.append(("notifyall", c))
            elif x < 0.94:
                ops.append(("sleep", rng.choice([0, 1, 1, 2])))
            else:
                ops.append(("yield",))
        if held is not None:
            ops.append(("unlock", held))
        sc.actor("s%d_%d" % (mi, i), ops)
    return "sync_mix"


def m_create_tree(sc, rng, mi):
    nc = rng.randint(2, 5)
    t = rng.choice(DATES)
    kids = []
    for i in range(nc):
        d = rng.choice([2, 4, 4, 8])
        ops = [("sleep", d)] + [rng.choice([("sleep", d), ("exec", d * MFLOP, -1)]) for _ in range(rng.randint(0, 2))]
        kids.append(sc.script(ops))
    ops = _align(rng, t, "sleepu")
    daemons = []
    for i in range(nc):
        dm = 1 if rng.random() < 0.2 else 0
        daemons.append(dm)
        ops.append(("create", kids[i], sc.host(), dm))
    ctl = []
    for i in range(nc):
        x = rng.random()
        if x < 0.3:
            ctl += [("suspend", "c%d" % i)]
        elif x < 0.4:
            ctl += [("kill", "c%d" % i)]
    ops += [("sleep", 1)] + ctl      # not in the round of the creation (C11's findings)
    ops += [("sleep", rng.choice([1, 2, 4]))]
    ops += [("resume", "c%d" % i) for i in range(nc)]
    order = list(range(nc))
    rng.shuffle(order)
    for i in order:
        if not daemons[i]:
            ops.append(("join", "c%d" % i, rng.choice([-1, -1, 2, 30])))
    ops += _after_tie(sc, rng)
    sc.actor("t%d" % mi, ops)
    # a plain initial actor that is suspended/resumed from outside, and suspends itself
    if rng.random() < 0.7:
        nm = sc.actor("t%dq" % mi, [("sleep", 6), ("exec", 4 * MFLOP, -1), ("suspendself",), ("sleep", 2)], plain=True)
        sc.actor("t%dr" % mi, [("sleepu", 2), ("suspend", "@" + nm), ("sleep", 3), ("resume", "@" + nm), ("sleepu", 40), ("resume", "@" + nm)])
    return "create_tree"


def m_barrier_rounds(sc, rng, mi):
    n = rng.randint(2, 7)
    r = rng.randint(1, 4)
    b = sc.bar(n)
    for i in range(n):
        ops = []
        for _ in range(r):
            ops += [("sleep", rng.choice([0, 0, 1, 2])), ("bar", b)]
        ops += _after_tie(sc, rng)
        sc.actor("b%d_%d" % (mi, i), ops)
    return "barrier_rounds"


def m_timeout_ties(sc, rng, mi):
    n = rng.randint(3, 7)
    T = rng.choice([2, 4, 8])
    s = sc.sem(0)
    mb = sc.new("mbox")
    c = sc.new("cv")
    m = sc.mutex()
    for i in range(n):
        k = rng.choice(["acq", "get", "cvwait", "execwait", "join", "put"])
        if k == "acq":
            ops = [("acq", s, T)]
        elif k == "get":
            ops = [("get", mb, T)]
        elif k == "put":
            ops = [("put", mb, 1000, T)]
        elif k == "cvwait":
            ops = [("cvwait", c, T)]
        elif k == "execwait":   # the activity ends exactly when the timeout fires
            ops = [("execa", 0, T * MFLOP, -1), ("wait", 0, T)]
        else:
            ops = [("join", "@o%dr" % mi, T)]
        ops += [("lock", m), ("sleep", 1), ("unlock", m)]
        sc.actor("o%d_%d" % (mi, i), ops)
    # somebody serves some of them at exactly the date of the timeouts
    rel = [("sleepu", T)]
    for _ in range(rng.randint(1, 3)):
        rel.append(rng.choice([("rel", s), ("notify", c), ("notifyall", c), ("putd", mb, 1000)]))
    rel.append(("sleep", 30))
    sc.actor("o%dr" % mi, rel)
    return "timeout_ties"


def m_io(sc, rng, mi):
    n = rng.randint(2, 5)
    t = rng.choice(DATES)
    same = rng.random() < 0.5
    d0 = rng.randrange(sc.ndisk)
    for i in range(n):
        d = d0 if same else (d0 + i) % sc.ndisk
        ops = _align(rng, t, "sleepu") + [("io", d, rng.choice("RW"), rng.choice([1, 2, 4]) * IO_UNIT)]
        ops += _after_tie(sc, rng)
        sc.actor("i%d_%d" % (mi, i), ops)
    return "io"


MOTIFS = [m_wake_contend, m_wake_contend, m_waitany, m_waitany, m_dying_pending, m_dying_pending, m_daemons, m_mass_kill,
          m_mass_kill, m_prodcons, m_sync_mix, m_create_tree, m_barrier_rounds, m_timeout_ties, m_io]


def generate(rng, max_motifs=4, only=None):
    """Returns {'text': scenario text, 'motifs': [...], 'nactors': n}."""
    sc = Scenario(rng)
    k = rng.randint(2, max_motifs)
    names = []
    for mi in range(k):
        f = rng.choice(MOTIFS) if only is None else only[mi % len(only)]
        names.append(f(sc, rng, mi))
    if not any(a[3] == 0 for a in sc.actors):
        sc.actor("main", [("sleep", 10)])
    return {"text": sc.text(), "motifs": names, "nactors": len(sc.actors)}


# ---- directed scenarios (always run) --------------------------------------------------------------
def directed():
    """Small fixed scenarios around the orders the kernel must invent; F7a/F7b of DESIGN.md section 6 first."""
    import random
    out = []

    def mk(name, build):
        sc = Scenario(random.Random(7))
        sc.nh, sc.cores, sc.shared_bus, sc.fat, sc.ndisk = 4, [1, 1, 1, 1], True, False, 4
        build(sc)
        out.append({"name": name, "text": sc.text(), "motifs": ["directed:" + name], "nactors": len(sc.actors)})

    def daemons_end(sc):          # only daemons remain when main ends: the kernel kills them all in one go
        for i in range(8):
            sc.actor("d%d" % i, [("sleep", FAR)], host=i, daemon=1)
        sc.actor("main", [("sleep", 3)], host=0)
    mk("daemons-killed-at-end", daemons_end)

    def exit_pending(sc):         # an actor exits with pending comms: its peers are told in some order
        m = sc.mutex()
        ops = []
        for i in range(6):
            mb = sc.new("mbox")
            ops.append(("puta", i, mb, 10 ** 9))
            sc.actor("p%d" % i, [("get", mb), ("lock", m), ("sleep", 1), ("unlock", m)], host=1 + i)
        sc.actor("dying", ops + [("sleep", 5), ("exit",)], host=0)
    mk("exit-with-pending-comms", exit_pending)

    def killed_pending(sc):
        m = sc.mutex()
        ops = []
        for i in range(6):
            mb = sc.new("mbox")
            ops.append(("geta", i, mb))
            sc.actor("p%d" % i, [("put", mb, 10 ** 9), ("lock", m), ("sleep", 1), ("unlock", m)], host=1 + i)
        sc.actor("victim", ops + [("sleep", FAR)], host=0)
        sc.actor("killer", [("sleepu", 5), ("kill", "@victim")], host=1)
    mk("killed-with-pending-comms", killed_pending)

    def waitany_ready(sc):
        ops = [("execa", i, 4 * MFLOP, i) for i in range(4)] + [("ioa", 4 + i, i, "R", 4 * IO_UNIT) for i in range(3)]
        ops += [("waitany", -1, *range(7))] * 7
        sc.actor("w", ops, host=0)
    mk("waitany-all-ready", waitany_ready)

    def same_date_killtime(sc):
        m = sc.mutex()
        for i in range(6):
            sc.actor("v%d" % i, [("sleep", FAR)], host=i, killtime=8)
            sc.actor("j%d" % i, [("join", "@v%d" % (5 - i), -1), ("lock", m), ("sleep", 1), ("unlock", m)], host=i + 1)
    mk("same-date-killtime-joiners", same_date_killtime)

    def returning_pending(sc):    # several actors return in the same round, each with a communication in flight
        m = sc.mutex()
        for i in range(6):
            mb = sc.new("mbox")
            sc.actor("a%d" % i, [("puta", 0, mb, 10 ** 9), ("sleepu", 5)], host=i)
            sc.actor("p%d" % i, [("get", mb), ("lock", m), ("sleep", 1), ("unlock", m)], host=i + 1)
    mk("same-round-returns-with-comms-in-flight", returning_pending)

    def sleepers_mutex(sc):
        m = sc.mutex()
        for i in range(8):
            al = [("sleepu", 8), ("sleep", 8), ("exec", 8 * MFLOP, -1), ("io", i % 4, "R", 8 * IO_UNIT)][i % 4]
            sc.actor("s%d" % i, [al, ("lock", m), ("sleep", 1), ("unlock", m)], host=i)
    mk("mixed-wakeups-then-mutex", sleepers_mutex)
    return out
