"""Helpers for the E5 (MPI programs under smpirun) checks."""
import os
import tempfile

from verif import build, proc

PLATFORM = "/repo/examples/platforms/small_platform.xml"
HOSTS = ["Tremblay", "Jupiter", "Fafard", "Ginette", "Bourassa"]
_hf = None


def hostfile():
    global _hf
    if _hf is None or not os.path.exists(_hf):
        d = tempfile.mkdtemp(prefix="verif-mpi-")
        _hf = os.path.join(d, "hostfile")
        with open(_hf, "w") as f:
            f.write("\n".join(HOSTS) + "\n")
    return _hf


def cleanup():
    global _hf
    if _hf and os.path.exists(_hf):
        os.unlink(_hf)
        os.rmdir(os.path.dirname(_hf))
    _hf = None


def smpirun(exe, np, args, flavour="hooks", timeout=120, cfg=()):
    cmd = [build.smpirun(flavour), "-np", str(np), "-hostfile", hostfile(), "-platform", PLATFORM, "--cfg=smpi/host-speed:1Gf",
           "--log=root.thres:error"] + list(cfg) + [exe] + [str(a) for a in args]
    return proc.run(cmd, timeout=timeout)
