"""Generators for C47: S4U scenarios for harness/trace.cpp, tracing option sets, MPI programs for harness/mpi/tracemix.c.

A scenario is a dict {"text": <stdin of harness/trace.cpp>, "feat": set of feature names, "opts": [--cfg=... strings]}.
Only programs inside the API contract are generated: every pair of hosts has a route, receives/sends have timeouts (no
deadlock), user state pops never exceed the pushes of the same actor, only declared categories / variables / marks / state
values are used, actors never act on a dead VM.
"""

SLEEPS = [0, 0.1, 0.25, 0.5, 0.5, 1, 1, 1.5, 2]


def _fmt(x):
    return repr(float(x)) if isinstance(x, float) else str(x)


def gen_platform(rng, feat, profiles=True, want_fail=True, avoid=()):
    """Returns (lines, hosts, links(all plain link names usable by setbw/linkoff), disks, speeds).
    avoid: known-defect triggers to leave out ("router", "speed-change", "bw-change")."""
    L = []
    layout = rng.choice(["flat", "flat", "two", "nested"])
    feat.add("layout:" + layout)
    if layout == "flat":
        leaves = [("za", "-")]
        parents = []
    elif layout == "two":
        leaves = [("za", "-"), ("zb", "-")]
        parents = []
    else:
        leaves = [("za", "-"), ("zb1", "zb"), ("zb2", "zb")]
        parents = [("zb", "-")]
    for z, p in parents:
        L.append("Z %s %s" % (z, p))
    hosts, links, disks = [], [], []
    speeds = {}
    gw = {}
    hosts_of = {}
    hn = 0
    for z, p in leaves:
        L.append("Z %s %s" % (z, p))
        nh = rng.randint(1, 3) if len(leaves) > 1 else rng.randint(2, 4)
        zh = []
        for _ in range(nh):
            name = "h%d" % hn
            hn += 1
            np_ = rng.choice([1, 1, 2, 3])
            sp = [rng.choice([1e9, 2e9, 5e8]) for _ in range(np_)]
            cores = rng.choice([1, 1, 2, 4])
            L.append("H %s %s %d %d %s" % (z, name, cores, np_, " ".join(_fmt(s) for s in sp)))
            zh.append(name)
            hosts.append(name)
            speeds[name] = sp
            if rng.random() < 0.25:
                d = "d_" + name
                L.append("D %s %s 1e8 5e7" % (name, d))
                disks.append(d)
        hosts_of[z] = zh
        zl = []
        for i in range(rng.randint(1, 3)):
            ln = "l_%s_%d" % (z, i)
            pol = rng.choice(["S", "S", "F", "D"])
            L.append("L %s %s %s %s %s" % (z, ln, _fmt(rng.choice([1e8, 5e7, 1.25e8])), _fmt(rng.choice([0.0, 1e-4, 1e-3])), pol))
            zl.append((ln, pol))
            if pol == "D":
                links += [ln + "_UP", ln + "_DOWN"]
            else:
                links.append(ln)
        rt = None
        if len(leaves) > 1 and rng.random() < 0.6 and "router" not in avoid:
            rt = "r_" + z
            L.append("RT %s %s" % (z, rt))
            feat.add("router")
        pts = zh + ([rt] if rt else [])
        for i in range(len(pts)):
            for j in range(i + 1, len(pts)):
                k = rng.randint(1, min(2, len(zl)))
                pick = rng.sample(zl, k)
                L.append("R %s %s %s %d %s" % (z, pts[i], pts[j], k, " ".join("%s %s" % (ln, "U" if pol == "D" else "N") for ln, pol in pick)))
        gw[z] = rt or zh[0]
        if len(leaves) > 1:
            L.append("GW %s %s" % (z, gw[z]))
    if layout == "nested":
        L.append("L zb l_zb_bb 1e8 1e-3 S")
        links.append("l_zb_bb")
        L.append("ZR zb zb1 zb2 1 l_zb_bb N")
        L.append("GW zb %s" % gw["zb1"])
        seals = ["SEAL " + z for z, _ in leaves[1:]] + ["SEAL zb", "SEAL za"]
        L.append("L - l_bb 1.25e8 1e-3 %s" % rng.choice(["S", "F"]))
        links.append("l_bb")
        L.append("ZR - za zb 1 l_bb N")
    elif layout == "two":
        seals = ["SEAL " + z for z, _ in leaves]
        L.append("L - l_bb 1.25e8 1e-3 %s" % rng.choice(["S", "F"]))
        links.append("l_bb")
        L.append("ZR - za zb 1 l_bb N")
    else:
        seals = ["SEAL za"]
    # profiles (must be attached before the zones are sealed)
    if profiles:
        if rng.random() < 0.35 and "speed-change" not in avoid:
            h = rng.choice(hosts)
            pts = sorted(rng.sample([0.5, 1.0, 1.5, 2.0, 2.5, 3.0, 4.0], rng.randint(1, 3)))
            L.append("P S %s %s %d %s" % (h, rng.choice(["-1", "5"]), len(pts), " ".join("%s %s" % (_fmt(d), _fmt(rng.choice([0.5, 0.25, 1.0]))) for d in pts)))
            feat.add("profile:speed")
        if rng.random() < 0.35 and "bw-change" not in avoid:
            l = rng.choice(links)
            pts = sorted(rng.sample([0.5, 1.0, 1.5, 2.0, 2.5, 3.0, 4.0], rng.randint(1, 3)))
            L.append("P B %s %s %d %s" % (l, rng.choice(["-1", "5"]), len(pts), " ".join("%s %s" % (_fmt(d), _fmt(rng.choice([5e7, 1e8, 2.5e7]))) for d in pts)))
            feat.add("profile:bandwidth")
        if rng.random() < 0.2:
            l = rng.choice(links)
            pts = sorted(rng.sample([0.5, 1.0, 2.0, 3.0], 2))
            L.append("P A %s -1 2 %s" % (l, " ".join("%s %s" % (_fmt(d), _fmt(rng.choice([1e-3, 2e-3, 0.0]))) for d in pts)))
            feat.add("profile:latency")
        if want_fail and rng.random() < 0.3 and "kill-in-comm" not in avoid:
            h = rng.choice(hosts)
            a = rng.choice([0.5, 1.0, 1.5, 2.0])
            L.append("P H %s -1 2 %s 0 %s 1" % (h, _fmt(a), _fmt(a + rng.choice([0.5, 1.0, 2.0]))))
            feat.add("profile:host-state")
        if want_fail and rng.random() < 0.2:
            l = rng.choice(links)
            a = rng.choice([0.5, 1.0, 1.5, 2.0])
            L.append("P K %s -1 2 %s 0 %s 1" % (l, _fmt(a), _fmt(a + rng.choice([0.5, 1.0]))))
            feat.add("profile:link-state")
    L += seals
    L.append("X")
    return L, hosts, links, disks, speeds, layout


def has(opts, name):
    return (name + ":yes") in opts


def needs_platform(opts):
    """Mirror of TRACE_needs_platform()."""
    return any(has(opts, "tracing/" + n) for n in ("actor", "vm", "categorized", "uncategorized", "platform", "smpi/group"))


def known_triggers(opts):
    """Workload features that hit an *open known finding* of C47 under this option set (see known_findings.d/C47.json).
    Tame cases leave them out so that the rest of the trace machinery is still observed; wild cases keep everything."""
    av = set()
    if needs_platform(opts):
        av.add("router")                     # RouterContainer dereferences the not-yet-set englobing zone: SIGSEGV
        if "tracing/platform/topology:no" not in opts:
            av.add("siblings")               # zone containers are chained: out_of_range in recursiveGraphExtraction
        if not (has(opts, "tracing/categorized") or has(opts, "tracing/uncategorized") or has(opts, "tracing/platform")):
            av |= {"speed-change", "bw-change"}      # speed/bandwidth variable types never declared: TracingError
        if has(opts, "tracing/disable_power"):
            av.add("speed-change")
        if has(opts, "tracing/disable_link"):
            av.add("bw-change")
        if has(opts, "tracing/categorized") and not has(opts, "tracing/uncategorized"):
            av.add("categories")             # categorized utilization is written to the uncategorized variable: TracingError
        if has(opts, "tracing/actor"):
            av.add("maestro-comm")           # HOST_STATE value "start" never declared: TracingError
            av.add("migrate-across-levels")  # ACTOR_STATE / ACTOR_LINK are only set up for the zone level of the first actors
            av.add("autorestart")            # the on_exit callback of the first incarnation is replayed by the restarted one
            av.add("kill-in-comm")           # an actor killed while its send is unmatched: null receiver dereferenced
    return av


def triggers_in(text, opts):
    """Known-finding triggers actually present in a scenario (used to key message-less crashes)."""
    av = known_triggers(opts)
    lines = text.split("\n")
    tops = [l for l in lines if l.startswith("Z ")]
    present = set()
    if any(l.startswith("RT ") for l in lines):
        present.add("router")
    if len(tops) >= 2:
        present |= {"siblings", "migrate-across-levels"}
    if any(l.startswith("P S ") or l.startswith("pstate ") for l in lines):
        present.add("speed-change")
    if any(l.startswith("P B ") or l.startswith("setbw ") for l in lines):
        present.add("bw-change")
    if any(l.startswith("cat ") or l.startswith("declcat ") for l in lines):
        present.add("categories")
    if any(l.startswith("M sendto") for l in lines):
        present.add("maestro-comm")
    if any(l.startswith("script ") and l.split()[-1] == "1" for l in lines):
        present.add("autorestart")
    scripts = [l.split() for l in lines if l.startswith("script ")]
    if any(l.startswith("put ") for l in lines) and (any(l.startswith(("kill ", "hostoff ", "P H ")) for l in lines) or
                                                     any(t[4] == "1" or t[5] != "-1" for t in scripts)):
        present.add("kill-in-comm")
    if has(opts, "tracing/vm"):
        present.add("vm-tracing")
    return sorted(present & (av | {"vm-tracing"}))


def gen_s4u(rng, opts=(), tame=False, force=None):
    """One scenario. force: optional set of feature switches {"vm","fail","maestro"} to bias the draw.
    Returns the scenario and the (possibly extended) option list."""
    force = force or set()
    opts = list(opts)
    feat = set()
    avoid = known_triggers(opts) if tame else set()
    want_fail = "nofail" not in force and (("fail" in force) or rng.random() < 0.5)
    nokill = "kill-in-comm" in avoid
    plat, hosts, links, disks, speeds, layout = gen_platform(rng, feat, want_fail=want_fail, avoid=avoid)
    if "siblings" in avoid and layout != "flat":
        opts.append("tracing/platform/topology:no")
    L = list(plat)
    cats = ["c%d" % i for i in range(rng.choice([0, 1, 2, 2]))]
    if "categories" in avoid:
        cats = []
    for c in cats:
        L.append("cat %s %s" % (c, rng.choice(["-", "0.5"])))
    hvars = ["hv%d" % i for i in range(rng.choice([0, 1, 2]))]
    lvars = ["lv%d" % i for i in range(rng.choice([0, 1]))]
    vvars = ["vv0"] if rng.random() < 0.4 else []
    for v in hvars:
        L.append("hvar %s %s" % (v, rng.choice(["-", "0.1"])))
    for v in lvars:
        L.append("lvar %s -" % v)
    for v in vvars:
        L.append("vvar %s -" % v)
    marks = {}
    if rng.random() < 0.5:
        marks["mk"] = ["a", "b"]
        L.append("markt mk")
        L.append("markv mk a -")
        L.append("markv mk b 0.3")
    hstates = {}
    if rng.random() < 0.5:
        hstates["ust"] = ["on", "busy", "idle"]
        L.append("hst ust")
        for v in hstates["ust"]:
            L.append("hsv ust %s 0.4" % v)
    use_vm = ("vm" in force) or rng.random() < 0.3
    vmmig = use_vm and rng.random() < 0.5
    if vmmig:
        L.append("vmplugin")
    if ("maestro" in force) or rng.random() < 0.15:
        if rng.random() < 0.5:
            L.append("M exec %s %s %s" % (rng.choice(hosts), _fmt(rng.choice([5e8, 1e9, 3e9])), rng.choice(cats + ["-"])))
            feat.add("maestro:exec")
        elif len(hosts) >= 2 and "maestro-comm" not in avoid:
            a, b = rng.sample(hosts, 2)
            L.append("M sendto %s %s %s %s" % (a, b, _fmt(rng.choice([1e6, 1e8])), rng.choice(cats + ["-"])))
            feat.add("maestro:sendto")
    nscripts = rng.randint(2, 6)
    ninit = rng.randint(1, max(1, nscripts - 1))
    vm_names = ["vm0", "vm1"] if use_vm else []
    mboxes = ["mb0", "mb1"]
    script_hosts = [rng.choice(hosts) for _ in range(nscripts)]
    for k in range(nscripts):
        initial = 1 if k < ninit else 0
        daemon = 1 if initial and k > 0 and rng.random() < 0.15 and not nokill else 0
        killtime = rng.choice([0.5, 1.0, 2.0, 3.5]) if rng.random() < 0.15 and not nokill else -1
        autorestart = 1 if want_fail and rng.random() < 0.3 and "autorestart" not in avoid else 0
        L.append("script %d %s %d %d %s %d" % (k, script_hosts[k], initial, daemon, _fmt(float(killtime)) if killtime >= 0 else "-1", autorestart))
        nops = rng.randint(3, 12)
        ops = []
        for _ in range(nops):
            r = rng.random()
            cat = rng.choice(cats + ["-"]) if cats else "-"
            if r < 0.16:
                ops.append("sleep %s" % _fmt(rng.choice(SLEEPS)))
            elif r < 0.30:
                ops.append("exec %s %s" % (_fmt(rng.choice([0.0, 1e8, 5e8, 1e9, 2e9])), cat))
                feat.add("exec")
            elif r < 0.35:
                ops.append("execs %s %s %s %s" % (_fmt(rng.choice([1e9, 2e9])), cat, _fmt(rng.choice([0.1, 0.5])), _fmt(rng.choice([0.0, 0.5, 1.0]))))
                feat.add("exec-suspend")
            elif r < 0.38:
                ops.append("execon %s %s %s" % (rng.choice(hosts + vm_names), _fmt(rng.choice([1e8, 1e9])), cat))
                feat.add("exec-remote")
            elif r < 0.46:
                ops.append("put %s %s %s %s" % (rng.choice(mboxes), _fmt(rng.choice([0.0, 1e3, 1e6, 5e7, 1e8])), cat, _fmt(rng.choice([0.5, 2.0, 5.0]))))
                feat.add("mailbox")
            elif r < 0.54:
                ops.append("get %s %s" % (rng.choice(mboxes), _fmt(rng.choice([0.5, 2.0, 5.0]))))
                feat.add("mailbox")
            elif r < 0.59 and len(hosts) >= 2:
                a, b = rng.sample(hosts, 2)
                ops.append("sendto %s %s %s" % (a, b, _fmt(rng.choice([1e3, 1e6, 1e8]))))
                feat.add("sendto")
            elif r < 0.62 and len(hosts) >= 2:
                a, b = rng.sample(hosts, 2)
                ops.append("sendtoa %s %s %s %s %s" % (a, b, _fmt(rng.choice([1e6, 1e8])), cat, _fmt(rng.choice([0.0, 0.5]))))
                feat.add("sendto")
            elif r < 0.64 and disks:
                ops.append("io %s %s %s" % (rng.choice(disks), rng.choice("RW"), _fmt(rng.choice([1e6, 5e7]))))
            elif r < 0.70 and nscripts > ninit:
                ops.append("create %d" % rng.randint(ninit, nscripts - 1))
                feat.add("create")
            elif r < 0.73 and not nokill:
                ops.append("kill %d" % rng.randrange(nscripts))
                feat.add("kill")
            elif r < 0.76:
                t = rng.randrange(nscripts)
                ops.append("suspend %d" % t)
                ops.append("sleep %s" % _fmt(rng.choice([0.0, 0.5, 1.0])))
                ops.append("resume %d" % t)
                feat.add("suspend")
            elif r < 0.82 and "migrate-across-levels" in avoid and layout != "flat":
                ops.append("yield")
            elif r < 0.80:
                ops.append("migrate %s" % rng.choice(hosts + vm_names))
                feat.add("migrate")
            elif r < 0.82:
                ops.append("migrateother %d %s" % (rng.randrange(nscripts), rng.choice(hosts)))
                feat.add("migrate")
            elif r < 0.84:
                ops.append("join %d %s" % (rng.randrange(nscripts), _fmt(rng.choice([0.5, 2.0]))))
            elif r < 0.86 and want_fail and not nokill:
                h = rng.choice(hosts)
                ops.append("hostoff %s" % h)
                ops.append("sleep %s" % _fmt(rng.choice([0.0, 0.5, 1.0])))
                ops.append("hoston %s" % h)
                feat.add("host-off")
            elif r < 0.875 and want_fail:
                l = rng.choice(links)
                ops.append("linkoff %s" % l)
                ops.append("sleep %s" % _fmt(rng.choice([0.0, 0.5])))
                ops.append("linkon %s" % l)
                feat.add("link-off")
            elif r < 0.89 and "speed-change" not in avoid:
                h = rng.choice(hosts)
                ops.append("pstate %s %d" % (h, rng.randrange(len(speeds[h]))))
                feat.add("pstate")
            elif r < 0.90 and "bw-change" not in avoid:
                ops.append("setbw %s %s" % (rng.choice(links), _fmt(rng.choice([5e7, 1e8, 2e8]))))
                feat.add("setbw")
            elif r < 0.93 and hvars:
                ops.append("hvar %s %s %s %s" % (rng.choice(["set", "add", "sub"]), rng.choice(hosts), rng.choice(hvars), _fmt(rng.choice([0.0, 1.0, 2.5]))))
                feat.add("uservar")
            elif r < 0.945 and lvars:
                if rng.random() < 0.5 or len(hosts) < 2:
                    ops.append("lvar %s %s %s %s" % (rng.choice(["set", "add", "sub"]), rng.choice(links), rng.choice(lvars), _fmt(rng.choice([1.0, 3.0]))))
                else:
                    a, b = rng.sample(hosts, 2)
                    ops.append("rvar %s %s %s %s %s" % (rng.choice(["set", "add", "sub"]), a, b, rng.choice(lvars), _fmt(rng.choice([1.0, 3.0]))))
                feat.add("uservar")
            elif r < 0.96 and marks:
                ops.append("mark mk %s" % rng.choice(marks["mk"]))
                feat.add("mark")
            elif r < 0.985 and hstates:
                q = rng.random()
                h = rng.choice(hosts)
                if q < 0.5:
                    ops.append("hpush %s ust %s" % (h, rng.choice(hstates["ust"])))
                elif q < 0.85:
                    ops.append("hpop")
                else:
                    ops.append("hsetst %s ust %s" % (h, rng.choice(hstates["ust"])))
                feat.add("userstate")
            elif r < 0.99 and cats:
                ops.append("declcat late%d -" % rng.randrange(2))
            elif use_vm:
                vm = rng.choice(vm_names)
                q = rng.random()
                if q < 0.3:
                    ops.append("vmcreate %s %s %d" % (vm, rng.choice(hosts), rng.choice([1, 2])))
                    ops.append("vmstart %s" % vm)
                elif q < 0.45:
                    ops.append("createon %d %s" % (rng.randrange(nscripts), vm))
                elif q < 0.6:
                    ops.append("vmsuspend %s" % vm)
                    ops.append("sleep %s" % _fmt(rng.choice([0.0, 0.5])))
                    ops.append("vmresume %s" % vm)
                elif q < 0.7 and vmmig:
                    ops.append("vmmigrate %s %s" % (vm, rng.choice(hosts)))
                    feat.add("vm-migrate")
                elif q < 0.8 and not nokill:
                    ops.append("vmshutdown %s" % vm)
                elif q < 0.9 and not nokill:
                    ops.append("vmdestroy %s" % vm)
                elif vvars:
                    ops.append("vvar %s %s vv0 %s" % (rng.choice(["set", "add", "sub"]), vm, _fmt(rng.choice([1.0, 2.0]))))
                feat.add("vm")
            else:
                ops.append("yield")
        L += ops
    L.append("end")
    return {"text": "\n".join(L) + "\n", "feat": sorted(feat), "uses_vm": use_vm, "tame": tame}, opts


S4U_OPTION_POOL = [
    ["tracing/uncategorized:yes"],
    ["tracing/categorized:yes"],
    ["tracing/platform:yes"],
    ["tracing/actor:yes"],
    ["tracing/actor:yes", "tracing/uncategorized:yes"],
    ["tracing/actor:yes", "tracing/categorized:yes", "tracing/uncategorized:yes"],
    ["tracing/actor:yes", "tracing/platform:yes"],
    ["tracing/platform:yes", "tracing/platform/topology:no"],
    ["tracing/categorized:yes", "tracing/uncategorized:yes"],
    ["tracing/vm:yes", "tracing/actor:yes", "tracing/platform:yes"],
    ["tracing/vm:yes", "tracing/uncategorized:yes"],
]
S4U_MODIFIERS = [
    [], [], [], ["tracing/basic:yes"], ["tracing/precision:3"], ["tracing/precision:12", "precision/timing:1e-12"],
    ["tracing/disable-destroy:yes"], ["tracing/disable_link:yes"], ["tracing/disable_power:yes"], ["tracing/smpi:yes"],
    ["tracing/comment:verif-C47"], ["tracing/precision:0"],
]


def gen_s4u_options(rng):
    o = list(rng.choice(S4U_OPTION_POOL))
    for _ in range(rng.choice([0, 1, 1, 2])):
        for m in rng.choice(S4U_MODIFIERS):
            if m.split(":")[0] not in [x.split(":")[0] for x in o]:
                o.append(m)
    return o


# ------------------------------------------------------------------------------------------------ MPI
MPI_OPTION_POOL = [
    ["tracing/smpi:yes"],
    ["tracing/smpi:yes", "tracing/smpi/internals:yes"],
    ["tracing/smpi:yes", "tracing/smpi/computing:yes"],
    ["tracing/smpi:yes", "tracing/smpi/sleeping:yes"],
    ["tracing/smpi:yes", "tracing/smpi/group:yes"],
    ["tracing/smpi:yes", "tracing/smpi/display-sizes:yes"],
    ["tracing/smpi:yes", "tracing/smpi/internals:yes", "tracing/smpi/computing:yes", "tracing/smpi/sleeping:yes"],
    ["tracing/smpi:yes", "tracing/smpi/group:yes", "tracing/smpi/internals:yes", "tracing/smpi/display-sizes:yes"],
    ["tracing/smpi:yes", "tracing/uncategorized:yes"],
    ["tracing/smpi:yes", "tracing/categorized:yes", "tracing/uncategorized:yes"],
    ["tracing/smpi:yes", "tracing/platform:yes"],
    ["tracing/smpi:yes", "tracing/actor:yes"],
    ["tracing/smpi:yes", "tracing/smpi/group:yes", "tracing/actor:yes", "tracing/uncategorized:yes"],
]
MPI_MODIFIERS = [[], [], ["tracing/basic:yes"], ["tracing/precision:9"], ["tracing/disable-destroy:yes"],
                 ["tracing/platform/topology:no"], ["tracing/precision:2"]]


def gen_mpi_options(rng):
    o = list(rng.choice(MPI_OPTION_POOL))
    for m in rng.choice(MPI_MODIFIERS):
        if m.split(":")[0] not in [x.split(":")[0] for x in o]:
            o.append(m)
    return o
