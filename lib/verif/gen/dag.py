"""C13 generator: workflow-construction scripts for harness/dag.cpp, and JSON (wfformat) / DAX input files for the DAG loaders.

A scenario is a random DAG of Exec / Comm (host-to-host) / Io activities plus a random *construction schedule*: when each activity
is created, when each of its resources is set (before start(), after start(), at a later date, inside the on_veto callback once the
dependencies are solved, inside the completion callback of another activity), when (and whether) start() is called, when each
dependency is declared (before / after the start requests, at a later date, inside a completion callback), extra dependencies that
are declared then removed again.  Dates are dyadic so that independent branches tie exactly.

Only API-compliant programs are produced: the harness additionally guards each operation on get_state()/get_successors() so that
whatever the timing, no call is made outside its contract (no dependency towards an already started activity, no removal of an edge
that does not exist, no assignment of a started activity).
"""
import json

HOSTS = 6
DATES = [0.25, 0.5, 1, 1.5, 2, 3, 4, 6, 8]
SHAPES = ["random", "random", "chain", "diamond", "fanin", "layered", "fanout"]


def _pick_amount(rng, kind, zero_prob):
    if rng.random() < zero_prob:
        return 0
    if kind == "E":
        return rng.choice([1, 1, 2, 2, 3, 4, 8])
    if kind == "C":
        return rng.choice([1, 2, 2, 4, 8])
    return 1024 * rng.choice([2, 4, 4, 8])      # the disk model rounds progress to whole bytes: keep rate*step integral


def gen_graph(rng, n, shape):
    """Edges (i, j) with i < j over n nodes."""
    edges = set()
    if shape == "chain":
        for i in range(n - 1):
            edges.add((i, i + 1))
        for _ in range(n // 4):
            i = rng.randrange(n - 1)
            edges.add((i, rng.randrange(i + 1, n)))
    elif shape == "diamond":
        if n >= 3:
            for m in range(1, n - 1):
                edges.add((0, m))
                edges.add((m, n - 1))
        else:
            edges.add((0, n - 1))
    elif shape == "fanin":
        k = max(1, n - 1 - rng.randint(0, min(2, n - 2))) if n > 2 else 1
        for i in range(k):
            edges.add((i, k))
        for j in range(k + 1, n):
            edges.add((rng.randrange(k, j), j))
    elif shape == "fanout":
        for j in range(1, n):
            edges.add((0, j))
    elif shape == "layered":
        layers, i = [], 0
        while i < n:
            w = rng.randint(1, 4)
            layers.append(list(range(i, min(n, i + w))))
            i += w
        for a, b in zip(layers, layers[1:]):
            for y in b:
                for x in a:
                    if rng.random() < 0.6:
                        edges.add((x, y))
                if not any((x, y) in edges for x in a):
                    edges.add((rng.choice(a), y))
    else:
        p = rng.choice([0.15, 0.3, 0.5])
        for i in range(n):
            for j in range(i + 1, n):
                if rng.random() < p:
                    edges.add((i, j))
    return edges


def topo_order(rng, n, edges):
    preds = {j: {i for (i, jj) in edges if jj == j} for j in range(n)}
    done, out = set(), []
    while len(out) < n:
        ready = [x for x in range(n) if x not in done and preds[x] <= done]
        x = rng.choice(ready)
        done.add(x)
        out.append(x)
    return out


def gen_scenario(rng, name, big=False, known_patterns=0.04, modes="MMMMMAAWTTPP"):
    """Returns {"name", "mode", "text" (harness input), "n", "edges", "tags"}."""
    mode = rng.choice(modes)
    n = rng.randint(13, 30) if big else rng.choice([2, 3, 3, 4, 4, 5, 5, 6, 6, 7, 8, 9, 10, 12])
    shape = rng.choice(SHAPES)
    edges = gen_graph(rng, n, shape)
    kinds = [rng.choice("EEEEECCCII") for _ in range(n)]
    zero_prob = rng.choice([0.0, 0.08, 0.08, 0.3])
    amounts = [_pick_amount(rng, k, zero_prob if k != "C" else zero_prob * 0.6) for k in kinds]
    packed = rng.random() < 0.35
    pool = rng.sample(range(HOSTS), 2) if packed else list(range(HOSTS))
    names = ["%s%d" % (k.lower(), i) for i, k in enumerate(kinds)]
    has_pred = {j for (_, j) in edges}
    tags = set([shape, "mode" + mode])

    nphase = rng.choice([0, 0, 1, 2, 3]) if mode != "W" else rng.choice([0, 0, 1])
    dates = sorted(rng.sample(DATES, nphase))
    # phase p = 0..nphase ; actor 0 = driver, k>0 = helper (actor modes only)

    def later(p):
        return rng.randint(p, nphase)

    def who(p):
        if mode == "M" or p == 0:
            return 0
        return rng.choice([0, 1, 1, 2])

    newp = sorted(0 if rng.random() < 0.85 else later(0) for _ in range(n))     # predecessors are created no later than successors
    if mode == "W":
        newp = [0] * n
    seqs = {p: [] for p in range(nphase + 1)}       # per phase: list of groups [(actor, text)...] whose internal order is kept

    assign_mode = {}
    for x in range(n):
        nm, k, p0 = names[x], kinds[x], newp[x]
        grp = [(0, "new %s %s %d%s" % (nm, k, amounts[x], (" " + rng.choice("rw")) if k == "I" else ""))]
        # resources
        if k == "E":
            parts = ["host %s %d" % (nm, rng.choice(pool))]
        elif k == "I":
            parts = ["disk %s %d" % (nm, rng.choice(pool))]
        else:
            s_, d_ = rng.sample(range(HOSTS), 2) if not packed else (pool[0], pool[1])
            parts = ["src %s %d" % (nm, s_), "dst %s %d" % (nm, d_)]
            if rng.random() < 0.5:
                parts.reverse()
        zero_comm = (k == "C" and amounts[x] == 0)
        explicit = (x not in has_pred) or rng.random() < 0.7
        start_phase = p0 if rng.random() < 0.75 else later(p0)
        pre, post, late = [], [], []
        for part in parts:
            r = rng.random()
            if zero_comm and rng.random() > known_patterns:
                r = 0.0         # keep most zero-byte comms away from the known 'started before assignment' defect
            if r < 0.45:
                pre.append(part)
                assign_mode[x] = assign_mode.get(x, "pre")
            elif r < 0.65:
                post.append(part)
                assign_mode[x] = "post"
            elif r < 0.83 and nphase > 0:
                late.append((later(max(p0, 1)), part))
                assign_mode[x] = "late"
            elif r < 0.93:
                pre.append("veto %s %s" % (nm, part))        # registered before any start request
                assign_mode[x] = "veto"
            else:
                cands = [y for y in range(x) if newp[y] <= p0]
                if cands:
                    pre.append("on %s %s" % (names[rng.choice(cands)], part))
                    assign_mode[x] = "cb"
                else:
                    pre.append(part)
        grp += [(0, t) for t in pre]
        if explicit and start_phase == p0:
            grp.append((0, "start " + nm))
            grp += [(0, t) for t in post]
        else:
            grp += [(0, t) for t in post]
            if explicit:
                seqs[start_phase].append([(who(start_phase), "start " + nm)])
        seqs[p0].append(grp)
        for (p, part) in late:
            seqs[p].append([(who(p), part)])
        if "veto" in assign_mode.get(x, ""):
            tags.add("assign-at-veto")
        if assign_mode.get(x) == "late":
            tags.add("late-assign")
        if not explicit:
            tags.add("implicit-start")

    # dependencies
    edge_ops = {p: [] for p in range(nphase + 1)}
    for (i, j) in sorted(edges):
        p0 = max(newp[i], newp[j])
        r = rng.random()
        if r < 0.7:
            edge_ops[p0].append(("early", i, j))
        elif r < 0.85 or nphase == 0:
            edge_ops[p0].append(("afterstart", i, j))
        elif r < 0.95:
            edge_ops[later(p0)].append(("late", i, j))
            tags.add("late-dep")
        else:
            cands = [y for y in range(j) if newp[y] <= p0 and y != i]
            if cands:
                edge_ops[p0].append(("cb%d" % rng.choice(cands), i, j))
                tags.add("dep-in-callback")
            else:
                edge_ops[p0].append(("early", i, j))
    # extra dependencies that are removed again
    extra = []
    if n >= 2 and rng.random() < 0.2:
        for _ in range(rng.randint(1, 2)):
            i = rng.randrange(n - 1)
            j = rng.randrange(i + 1, n)
            if (i, j) not in edges and (i, j) not in [(a, b) for (a, b, _) in extra]:
                restart = rng.random() >= known_patterns * 3
                extra.append((i, j, restart))
                tags.add("remove-dep" if restart else "remove-dep-no-restart")
    # dependencies declared although the predecessor may already have finished
    forced = []
    if nphase > 0 and rng.random() < known_patterns * 2:
        i = rng.randrange(n - 1) if n > 1 else 0
        j = rng.randrange(i + 1, n) if n > 1 else 0
        if i != j and (i, j) not in edges:
            forced.append((i, j))
            tags.add("dep-after-finish")

    text = ["S %s %s" % (name, mode)]
    for p in range(nphase + 1):
        if p > 0:
            text.append("run %s" % repr(float(dates[p - 1])))
            helpers_ran = set()
        groups = seqs[p]
        early = [e for e in edge_ops[p] if e[0] == "early"]
        after = [e for e in edge_ops[p] if e[0] != "early"]
        rng.shuffle(groups)
        # interleave the groups (keeping each group's internal order), declaring 'early' edges as soon as both ends exist
        created = set(x for x in range(n) if newp[x] < p)
        pending_early = list(early)
        cursors = [0] * len(groups)
        lines = []

        def flush_edges():
            for e in list(pending_early):
                if e[1] in created and e[2] in created:
                    pending_early.remove(e)
                    lines.append((0, "dep %s %s" % (names[e[1]], names[e[2]])))
        # creations first (so that 'early' edges precede the start requests), then the rest interleaved
        rest = []
        for g in groups:
            if g[0][1].startswith("new "):
                lines.append(g[0])
                created.add(names.index(g[0][1].split()[1]))
                rest.append(g[1:])
            else:
                rest.append(g)
        flush_edges()
        if rng.random() < 0.3:
            # sometimes the start requests / assignments come before the dependencies are declared
            late_edges = [l for l in lines if l[1].startswith("dep ")]
            lines = [l for l in lines if not l[1].startswith("dep ")]
        else:
            late_edges = []
        cursors = [0] * len(rest)
        live = [i for i, g in enumerate(rest) if g]
        while live:
            i = rng.choice(live)
            lines.append(rest[i][cursors[i]])
            cursors[i] += 1
            if cursors[i] >= len(rest[i]):
                live.remove(i)
        lines += late_edges
        for (kind, i, j) in after:
            if kind.startswith("cb"):
                lines.append((0, "on %s dep %s %s" % (names[int(kind[2:])], names[i], names[j])))
            else:
                lines.append((who(p), "dep %s %s" % (names[i], names[j])))
        for (i, j, restart) in extra:
            if max(newp[i], newp[j]) == p:
                lines.insert(rng.randint(sum(1 for l in lines if l[1].startswith("new ")), len(lines)), (0, "dep %s %s" % (names[i], names[j])))
                pr = later(p)
                txt = "%s %s %s" % ("undeps" if restart else "undep", names[i], names[j])
                if pr == p:
                    lines.append((0, txt))
                else:
                    seqs[pr].append([(who(pr), txt)])
        for (i, j) in forced:
            if p == nphase:
                lines.append((who(p), "depf %s %s" % (names[i], names[j])))
                lines.append((who(p), "start %s" % names[j]))
        for (actor, t) in lines:
            if actor == 0 or mode == "M":
                text.append(t)
            else:
                if actor not in helpers_ran:
                    helpers_ran.add(actor)
                    text.append("@%d run %s" % (actor, repr(float(dates[p - 1]))))
                text.append("@%d %s" % (actor, t))
    if mode == "P" and rng.random() < 0.5:
        # the waiter actors are spawned right after the creations (they then block on vetoed / unassigned activities)
        k = max(i for i, t in enumerate(text) if t.startswith("new ")) + 1
        text.insert(k, "waiters")
    if mode == "W":
        text.append("waitorder " + " ".join(names[x] for x in topo_order(rng, n, edges)))
    text.append("E")
    if any(a == 0 for a in amounts):
        tags.add("zero-cost")
    return {"name": name, "mode": mode, "text": "\n".join(text) + "\n", "n": n, "edges": len(edges), "tags": sorted(tags),
            "shape": shape}


# ---------------------------------------------------------------------------------------------------------------------------------
# Loader inputs
# ---------------------------------------------------------------------------------------------------------------------------------

def gen_json_case(rng, name, path):
    """wfformat-like JSON accepted by create_DAG_from_json + the operations that schedule what the file leaves unassigned.
    Returns {"text", "expected_edges"}."""
    n = rng.randint(2, 10)
    tasks = []
    kinds = []
    expected = set()
    ops = []
    host_of = {}
    for i in range(n):
        is_comm = i > 0 and rng.random() < 0.3
        nm = ("t%d" if is_comm else "c%d") % i
        kinds.append("C" if is_comm else "E")
        cands = list(range(i))
        parents = []
        if cands:
            if is_comm:
                # a transfer gets its source from its single parent when there is exactly one (the loader's convention); the
                # parent must then already have a host / destination in the file, otherwise we give 0 or 2+ parents
                ok = [c for c in cands if tasks[c].get("machine") is not None and kinds[c] == "E"]
                if ok and rng.random() < 0.7:
                    parents = [rng.choice(ok)]
                elif len(cands) >= 2 and rng.random() < 0.5:
                    parents = rng.sample(cands, 2)
            else:
                parents = [c for c in cands if rng.random() < 0.4]
        t = {"name": nm, "type": "transfer" if is_comm else "compute", "parents": [tasks[p]["name"] for p in parents]}
        if is_comm:
            t["writtenBytes"] = rng.choice([1, 2, 4, 8])
        else:
            t["runtimeInSeconds"] = rng.choice([0, 1, 2, 3, 4])
        h = rng.randrange(HOSTS)
        with_machine = rng.random() < 0.6
        if with_machine:
            t["machine"] = "h%d" % h
        host_of[i] = h
        tasks.append(t)
        for p in parents:
            expected.add((tasks[p]["name"], nm))
        # what the file does not assign is assigned by the program (possibly later)
        if is_comm:
            src_auto = len(parents) == 1
            if not src_auto:
                others = [x for x in range(HOSTS) if x != h]
                ops.append("src %s %d" % (nm, rng.choice(others)))
            else:
                # the source is the parent's host: make sure the destination differs from it
                ph = host_of[parents[0]]
                if ph == h:
                    h = (h + 1) % HOSTS
                    host_of[i] = h
                    if with_machine:
                        t["machine"] = "h%d" % h
            if not with_machine:
                ops.append("dst %s %d" % (nm, h))
        elif not with_machine:
            ops.append("host %s %d" % (nm, h))
        if not parents:
            ops.append("start " + nm)       # the loader only starts Execs without dependencies: starting them again is harmless
    doc = {"name": name, "schemaVersion": "1.4", "workflow": {"tasks": tasks, "machines": [{"nodeName": "h%d" % i} for i in range(HOSTS)]}}
    with open(path, "w") as f:
        json.dump(doc, f, indent=1)
    rng.shuffle(ops)
    text = ["S %s M" % name, "load json %s" % path]
    cut = rng.randint(0, len(ops))
    text += ops[:cut]
    if ops[cut:] and rng.random() < 0.5:
        text.append("run %s" % repr(float(rng.choice(DATES))))
    text += ops[cut:]
    text.append("E")
    return {"name": name, "mode": "M", "text": "\n".join(text) + "\n", "expected_edges": sorted(expected), "file": path,
            "n": n, "edges": len(expected), "tags": ["json"], "doc": doc}


def gen_dax_case(rng, name, path):
    """A DAX 2.1 file + the scheduling operations (the loader assigns nothing). One DAX per process: the loader keeps static state."""
    n = rng.randint(2, 8)
    jobs = [("%d" % (i + 1), "j%d" % i, rng.choice([0, 1, 2, 4])) for i in range(n)]
    jname = lambda i: "%s@%s" % (jobs[i][0], jobs[i][1])
    ctrl = set()
    files = []       # (fname, size, producer or None, [consumers])
    for j in range(1, n):
        for i in range(j):
            if rng.random() < 0.25:
                ctrl.add((i, j))
    nfiles = rng.randint(0, 5)
    for k in range(nfiles):
        r = rng.random()
        size = rng.choice([1, 2, 4, 8])
        if r < 0.2:
            files.append(("f%d" % k, size, None, sorted(rng.sample(range(n), rng.randint(1, min(2, n))))))       # input of the workflow
        elif r < 0.4:
            files.append(("f%d" % k, size, rng.randrange(n), []))                                              # final output
        else:
            p = rng.randrange(n - 1)
            cons = sorted(rng.sample(range(p + 1, n), rng.randint(1, min(2, n - 1 - p))))
            files.append(("f%d" % k, size, p, cons))
    expected = set()
    has_in, has_out = set(), set()
    for (i, j) in ctrl:
        expected.add((jname(i), jname(j)))
        has_in.add(j)
        has_out.add(i)
    comms = []
    for (fn, size, p, cons) in files:
        if p is None:
            for c in cons:
                cn = "root_%s_%s" % (fn, jname(c))
                comms.append((cn, "root", jname(c)))
                has_in.add(c)
        elif not cons:
            cn = "%s_%s_end" % (jname(p), fn)
            comms.append((cn, jname(p), "end"))
            has_out.add(p)
        else:
            for c in cons:
                cn = "%s_%s_%s" % (jname(p), fn, jname(c))
                comms.append((cn, jname(p), jname(c)))
                has_in.add(c)
                has_out.add(p)
    for (cn, a, b) in comms:
        expected.add((a, cn))
        expected.add((cn, b))
    for i in range(n):
        if i not in has_in:
            expected.add(("root", jname(i)))
        if i not in has_out:
            expected.add((jname(i), "end"))
    x = ['<?xml version="1.0" encoding="UTF-8"?>',
         '<adag xmlns="http://pegasus.isi.edu/schema/DAX" xmlns:xsi="http://www.w3.org/2001/XMLSchema-instance" '
         'xsi:schemaLocation="http://pegasus.isi.edu/schema/DAX http://pegasus.isi.edu/schema/dax-2.1.xsd" version="2.1">']
    for i, (jid, jn, rt) in enumerate(jobs):
        x.append('  <job id="%s" name="%s" runtime="%s">' % (jid, jn, repr(rt / 4200000000.0)))
        for (fn, size, p, cons) in files:
            if p == i:
                x.append('    <uses file="%s" link="output" register="true" transfer="true" optional="false" type="data" size="%d"/>' % (fn, size))
            if i in cons:
                x.append('    <uses file="%s" link="input" register="true" transfer="true" optional="false" type="data" size="%d"/>' % (fn, size))
        x.append('  </job>')
    for j in range(n):
        ps = sorted(i for (i, jj) in ctrl if jj == j)
        if ps:
            x.append('  <child ref="%s">' % jobs[j][0])
            for i in ps:
                x.append('    <parent ref="%s"/>' % jobs[i][0])
            x.append('  </child>')
    x.append('</adag>')
    with open(path, "w") as f:
        f.write("\n".join(x) + "\n")
    ops = []
    for nm in ["root", "end"] + [jname(i) for i in range(n)]:
        ops.append("host %s %d" % (nm, rng.randrange(HOSTS)))
    for (cn, a, b) in comms:
        s_, d_ = rng.sample(range(HOSTS), 2)
        pair = ["src %s %d" % (cn, s_), "dst %s %d" % (cn, d_)]
        rng.shuffle(pair)
        ops += pair
    rng.shuffle(ops)
    text = ["S %s M" % name, "load dax %s" % path]
    cut = rng.randint(0, len(ops))
    text += ops[:cut]
    if ops[cut:] and rng.random() < 0.5:
        text.append("run %s" % repr(float(rng.choice(DATES))))
    text += ops[cut:]
    text.append("E")
    return {"name": name, "mode": "M", "text": "\n".join(text) + "\n", "expected_edges": sorted(expected), "file": path,
            "n": n + 2 + len(comms), "edges": len(expected), "tags": ["dax"], "xml": "\n".join(x) + "\n"}
