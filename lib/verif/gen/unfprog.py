"""Generators of textual descriptions of checker-side transitions (grammar: harness/unf_trans.hpp).
C44's private copy of gen/mctrans.py (which C42 owns), so that the two checks can evolve independently.

Every description respects what the checker's deserialisers and dispatch_depends() assume about their inputs:
actor ids in [0, 30] (static_config::max_threads - 2), TestAny's times_considered indexes an existing sub-test, WaitAny's
times_considered is smaller than its number of enabled (sender and receiver known) sub-waits, no *_NOMC type.
A transition is a tuple (aid, times_considered, kind, args...) rendered by `txt`.
"""

FAMILIES = ("mutex", "sem", "barrier", "condvar", "comm", "actor", "any")


def txt(t):
    return " ".join(str(x) for x in t)


_FAMILY = {"ML": "mutex", "MW": "mutex", "MU": "mutex", "MT": "mutex", "Mt": "mutex", "SL": "sem", "SU": "sem", "SW": "sem",
           "BL": "barrier", "BW": "barrier", "CL": "condvar", "CW": "condvar", "CS": "condvar", "CB": "condvar",
           "RV": "comm", "SD": "comm", "IP": "comm", "TS": "comm", "WT": "comm", "TA": "any", "WA": "any",
           "AJ": "actor", "AE": "actor", "AS": "actor", "AC": "actor", "RN": "actor"}


def family(t):
    return _FAMILY[t[2]]


class Env:
    """Object universe of one case: few objects, so that dependencies are dense and ties frequent."""

    def __init__(self, rng, actors, families=None, nobj=None):
        self.rng = rng
        self.actors = list(actors)
        self.families = list(families or FAMILIES)
        self.nobj = nobj or rng.choice([1, 1, 2, 2, 3])
        self.next_comm = 1

    def obj(self):
        return self.rng.randrange(self.nobj)

    def actor(self, none_ok=False):
        if none_ok and self.rng.random() < 0.25:
            return -1
        return self.rng.choice(self.actors)

    def comm(self):
        r = self.rng
        if self.next_comm > 1 and r.random() < 0.6:
            return r.randrange(1, self.next_comm)       # refer to an existing communication
        self.next_comm += 1
        return self.next_comm - 1


def _test_args(env):
    return (env.comm(), env.actor(True), env.actor(True), env.obj())


def _wait_args(env, enabled=None):
    r = env.rng
    en = r.random() < 0.7 if enabled is None else enabled
    s, d = (env.actor(), env.actor()) if en else r.choice([(-1, env.actor()), (env.actor(), -1), (-1, -1)])
    return (int(r.random() < 0.2), env.comm(), s, d, env.obj())


def rand_transition(env, aid, fam=None):
    r = env.rng
    fam = fam or r.choice(env.families)
    tc = 0
    if fam == "mutex":
        k = r.choice(["ML", "MW", "MU", "MT", "Mt"])
        owner = r.choice([aid, aid, env.actor(True)])
        return (aid, tc, k, env.obj(), owner)
    if fam == "sem":
        return (aid, tc, r.choice(["SL", "SU", "SW"]), env.obj(), r.randrange(2), r.randrange(-1, 3))
    if fam == "barrier":
        return (aid, tc, r.choice(["BL", "BW"]), env.obj())
    if fam == "condvar":
        k = r.choice(["CL", "CW", "CS", "CB", "ML", "MW", "MU", "MT", "Mt"])     # condvars interplay with their mutex
        if k == "CL":
            return (aid, tc, k, env.obj(), env.obj())
        if k == "CW":
            return (aid, tc, k, env.obj(), env.obj(), r.randrange(2), r.randrange(2))
        if k in ("CS", "CB"):
            return (aid, tc, k, env.obj())
        return (aid, tc, k, env.obj(), r.choice([aid, env.actor(True)]))
    if fam == "comm":
        k = r.choice(["RV", "SD", "IP", "TS", "WT", "RV", "SD", "WT"])
        if k in ("RV", "SD"):
            return (aid, tc, k, env.comm(), env.obj(), r.randrange(3))
        if k == "IP":
            return (aid, tc, k, env.obj(), r.randrange(2), r.randrange(3))
        if k == "TS":
            return (aid, tc, k) + _test_args(env)
        return (aid, tc, k) + _wait_args(env)
    if fam == "actor":
        k = r.choice(["AJ", "AE", "AS", "AC", "AJ", "AC", "RN"])
        if k == "AJ":
            return (aid, tc, k, env.actor(), r.randrange(2))
        if k == "AC":
            return (aid, tc, k, env.actor())
        if k == "RN":
            return (aid, r.randrange(3), k, 0, 2)
        return (aid, tc, k)
    if fam == "any":
        n = r.randrange(1, 4)
        if r.random() < 0.5:
            subs = [_test_args(env) for _ in range(n)]
            return (aid, r.randrange(n), "TA", n) + tuple(x for s in subs for x in s)
        subs = [_wait_args(env) for _ in range(n)]
        en = [i for i, s in enumerate(subs) if s[2] >= 0 and s[3] >= 0]
        if not en:
            subs[0] = _wait_args(env, enabled=True)
            en = [0]
        return (aid, r.randrange(len(en)), "WA", n) + tuple(x for s in subs for x in s)
    raise ValueError(fam)


def actor_ids(rng, nact):
    """Usually 1..nact; sometimes shifted to the top of the valid range (30 is the largest valid aid), sometimes with 0."""
    x = rng.random()
    if x < 0.12:
        return list(range(31 - nact, 31))
    if x < 0.2:
        return list(range(0, nact))
    if x < 0.3:
        return sorted(rng.sample(range(0, 31), nact))
    return list(range(1, nact + 1))


def soup(rng, n, nact, families=None):
    """n transitions of random actors / kinds over a small object universe."""
    env = Env(rng, actor_ids(rng, nact), families)
    return [rand_transition(env, env.actor()) for _ in range(n)]


def program(rng, nact, maxlen, families=None):
    """Per-actor straight-line programs that look like real code: lock/wait/unlock triples, semaphore acquire/release,
    barrier lock/wait, condvar wait sequences, isend/irecv followed by test/wait, actor create/join/exit."""
    env = Env(rng, actor_ids(rng, nact), families)
    progs = {}
    for a in env.actors:
        p = []
        while len(p) < maxlen:
            f = rng.choice(env.families)
            if f == "mutex":
                m = env.obj()
                if rng.random() < 0.3:
                    got = rng.random() < 0.5
                    p.append((a, 0, "MT", m, a if got else -1))
                    if got:
                        p.append((a, 0, "MU", m, a))
                else:
                    p += [(a, 0, "ML", m, rng.choice([a, env.actor()])), (a, 0, rng.choice(["MW", "MW", "Mt"]), m, a), (a, 0, "MU", m, a)]
            elif f == "sem":
                s = env.obj()
                p += [(a, 0, "SL", s, rng.randrange(2), rng.randrange(0, 3)), (a, 0, "SW", s, 1, rng.randrange(0, 3))]
                if rng.random() < 0.7:
                    p.append((a, 0, "SU", s, 0, rng.randrange(0, 3)))
            elif f == "barrier":
                b = env.obj()
                p += [(a, 0, "BL", b), (a, 0, "BW", b)]
            elif f == "condvar":
                c, m = env.obj(), env.obj()
                if rng.random() < 0.5:
                    p += [(a, 0, "ML", m, a), (a, 0, "MW", m, a), (a, 0, "CL", c, m), (a, 0, "CW", c, m, 1, rng.randrange(2)), (a, 0, "MU", m, a)]
                else:
                    p.append((a, 0, rng.choice(["CS", "CB"]), c))
            elif f == "comm":
                mb, cid = env.obj(), env.comm()
                peer = env.actor()
                snd = rng.random() < 0.5
                p.append((a, 0, "SD" if snd else "RV", cid, mb, 0))
                s, d = (a, peer) if snd else (peer, a)
                x = rng.random()
                if x < 0.5:
                    p.append((a, 0, "WT", int(rng.random() < 0.15), cid, s, d, mb))
                elif x < 0.7:
                    p.append((a, 0, "TS", cid, s, rng.choice([d, -1]), mb))
                elif x < 0.85:
                    p.append((a, 0, "WA", 2, 0, cid, s, d, mb, 0, env.comm(), -1, a, env.obj()))
                else:
                    p.append((a, rng.randrange(2), "TA", 2, cid, s, d, mb, env.comm(), -1, a, env.obj()))
            elif f == "actor":
                p.append(rand_transition(env, a, "actor"))
            else:
                p.append(rand_transition(env, a, f))
        progs[a] = p[:maxlen]
    return env, progs


def interleave(rng, progs, n=None):
    """A random interleaving of the per-actor programs (prefix of total length n)."""
    pos = {a: 0 for a in progs}
    out = []
    live = [a for a in progs if progs[a]]
    while live and (n is None or len(out) < n):
        a = rng.choice(live)
        out.append(progs[a][pos[a]])
        pos[a] += 1
        if pos[a] >= len(progs[a]):
            live.remove(a)
    return out
