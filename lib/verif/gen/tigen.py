"""Generators for C37 (trace replay reproduces the online time): platforms, hostfiles, SMPI configurations and
deadlock-free MPI programs written in the little script language of harness/mpi/ti_prog.c.

A program is the projection on every rank of ONE global sequence of events (collective on all ranks, point-to-point
exchange a->b, sendrecv pattern, local event). Every blocking call is adjacent, in that global order, to the calls it
synchronises with, hence the program cannot deadlock whatever the eager/rendez-vous protocol chosen by SMPI; receives
name their source and tag, and the k-th receive of b from a is posted in the same order as the k-th send of a to b.
Only calls that the replay tool supports are produced, used the way the replay tool interprets them:
 * waitall always waits for every pending request of the rank (that is what the `waitall` action does);
 * two pending requests of a rank never share (src, dst, tag) (the `wait` action designates a request by that triple);
 * no wildcard receives, no communicator other than MPI_COMM_WORLD, predefined datatypes only.
"""

DT_SIZE = {0: 8, 1: 4, 2: 1, 3: 2, 4: 8, 5: 4, 6: 1, 7: 8, 9: 1, 14: 16}
P2P_DT = [0, 1, 2, 3, 4, 5, 6, 7, 9, 14]
RED_DT = [0, 1, 3, 4, 5, 6, 7, 9]          # datatypes valid with MPI_SUM (MPI_BOR for byte/uchar) in ti_prog.c
COLLS = ["barrier", "bcast", "reduce", "allreduce", "alltoall", "gather", "scatter", "allgather", "alltoallv", "gatherv",
         "scatterv", "allgatherv", "reducescatter", "scan", "exscan"]
SPEEDS = ["1Gf", "2.5Gf", "100Mf", "7.3Gf", "48.5Mf", "1f"]
BWS = ["125MBps", "1.25GBps", "12.5MBps", "41.279125MBps", "3.3MBps", "1Bps", "10GBps"]
LATS = ["50us", "0", "1ms", "16.67us", "5.9904e-2", "100ns"]


def platform(rng, kind=None):
    """Returns (xml text, [host names])."""
    kind = kind or rng.choice(["full", "full", "cluster", "small"])
    if kind == "small":
        with open("/repo/examples/platforms/small_platform.xml") as f:
            return f.read(), ["Tremblay", "Jupiter", "Fafard", "Ginette", "Bourassa"]
    head = "<?xml version='1.0'?>\n<!DOCTYPE platform SYSTEM \"https://simgrid.org/simgrid.dtd\">\n<platform version=\"4.1\">\n"
    if kind == "cluster":
        n = rng.randint(2, 8)
        attrs = 'id="c" prefix="n" suffix="" radical="0-%d" speed="%s" bw="%s" lat="%s"' % (
            n - 1, rng.choice(SPEEDS[:4]), rng.choice(BWS[:4]), rng.choice(LATS[:4]))
        if rng.random() < 0.6:
            attrs += ' bb_bw="%s" bb_lat="%s"' % (rng.choice(BWS[:4]), rng.choice(LATS[:4]))
            if rng.random() < 0.5:
                attrs += ' bb_sharing_policy="%s"' % rng.choice(["SHARED", "FATPIPE"])
        if rng.random() < 0.5:
            attrs += ' loopback_bw="%s" loopback_lat="%s"' % (rng.choice(BWS[:2]), rng.choice(LATS[:4]))
        if rng.random() < 0.4:
            attrs += ' sharing_policy="%s"' % rng.choice(["SHARED", "FATPIPE", "SPLITDUPLEX"])
        return head + "  <cluster %s/>\n</platform>\n" % attrs, ["n%d" % i for i in range(n)]
    n = rng.randint(1, 6)
    hard = rng.random() < 0.25          # extreme speeds / bandwidths now and then
    sp = SPEEDS if hard else SPEEDS[:5]
    bw = BWS if hard else BWS[:5]
    out = [head, '  <zone id="z" routing="Full">\n']
    for i in range(n):
        out.append('    <host id="h%d" speed="%s"/>\n' % (i, rng.choice(sp)))
    for i in range(n):
        out.append('    <link id="l%d" bandwidth="%s" latency="%s" sharing_policy="%s"/>\n' % (
            i, rng.choice(bw), rng.choice(LATS), rng.choice(["SHARED", "SHARED", "FATPIPE"])))
    out.append('    <link id="bb" bandwidth="%s" latency="%s" sharing_policy="%s"/>\n' % (
        rng.choice(bw), rng.choice(LATS), rng.choice(["SHARED", "FATPIPE"])))
    out.append('    <link id="lo" bandwidth="%s" latency="%s" sharing_policy="FATPIPE"/>\n' % (
        rng.choice(BWS[:2]), rng.choice(LATS[:4])))
    direct = rng.random() < 0.3
    for i in range(n):
        out.append('    <route src="h%d" dst="h%d"><link_ctn id="lo"/></route>\n' % (i, i))
        for j in range(i + 1, n):
            mid = "" if direct and (i + j) % 2 else '<link_ctn id="bb"/>'
            out.append('    <route src="h%d" dst="h%d"><link_ctn id="l%d"/>%s<link_ctn id="l%d"/></route>\n' % (i, j, i, mid, j))
    out.append("  </zone>\n</platform>\n")
    return "".join(out), ["h%d" % i for i in range(n)]


def hostfile(rng, hosts, np_):
    """One line per rank; several ranks per host are frequent."""
    mode = rng.randrange(3)
    if mode == 0:
        return [hosts[i % len(hosts)] for i in range(np_)]
    if mode == 1:
        return [rng.choice(hosts) for _ in range(np_)]
    k = max(1, min(len(hosts), rng.randint(1, 3)))          # blocks: ranks 0..b-1 on one host, ...
    return [hosts[(i * k // np_) % len(hosts)] for i in range(np_)]


def config(rng, avoid=()):
    """SMPI options given identically to the online run and to the replay.
    avoid "smp-selectors": no collective selector (mpich, mvapich2, impi and some ompi choices call Comm::init_smp())."""
    cfg = []
    r = rng.random()
    if r < 0.25:
        sel = rng.choice(["mpich", "ompi", "mvapich2", "impi"])
        if "smp-selectors" not in avoid:
            cfg.append("--cfg=smpi/coll-selector:%s" % sel)
    det = 65536
    if rng.random() < 0.35:
        det = rng.choice([0, 1000, 65535, 65537, 1000000])
        cfg.append("--cfg=smpi/send-is-detached-thresh:%d" % det)
    if rng.random() < 0.3:
        ok = [x for x in [1, 1000, 65536, 100000] if x <= det]          # SMPI refuses async-small-thresh > send-is-detached-thresh
        if ok:
            cfg.append("--cfg=smpi/async-small-thresh:%d" % rng.choice(ok))
    if rng.random() < 0.3:
        cfg.append("--cfg=smpi/test:%s" % rng.choice(["0", "3e-5", "1e-3"]))
    if rng.random() < 0.25:
        cfg.append("--cfg=smpi/os:0:8.93e-6:7.65e-10;1420:1.1e-5:1.2e-10;65536:0:0")
        cfg.append("--cfg=smpi/or:0:8.14e-6:8.9e-10;1420:1.3e-5:1.9e-10;65536:0:0")
        cfg.append("--cfg=smpi/ois:0:7.7e-6:3.6e-10;1420:2.4e-6:1e-10;65536:0:0")
    if rng.random() < 0.15:
        cfg.append("--cfg=network/model:%s" % rng.choice(["CM02", "LV08", "IB"]))
    if rng.random() < 0.15:
        cfg.append("--cfg=smpi/barrier-finalization:yes")
    return cfg


def _bytes_target(rng, big=True):
    """Message volumes in bytes: zero, tiny, around the eager/detached threshold (65536), larger."""
    r = rng.random()
    if r < 0.08:
        return 0
    if r < 0.30:
        return rng.randint(1, 64)
    if r < 0.55:
        return rng.randint(65, 20000)
    if r < 0.80 and big:
        return 65536 + rng.choice([-17, -8, -1, 0, 1, 8, 16, 1000, -1000])
    if big:
        return rng.randint(65537, 400000)
    return rng.randint(65, 20000)


def _count(rng, dt, big=True):
    b = _bytes_target(rng, big)
    c = b // DT_SIZE[dt]
    if b and c == 0:
        c = 1
    return c


class Prog:
    """Builder of a global event sequence. lines = script lines; kinds = set of action kinds used."""

    def __init__(self, rng, np_, exclude=(), avoid=()):
        self.rng, self.np, self.exclude, self.avoid = rng, np_, set(exclude), set(avoid)
        self.nozero = "zero-coll" in self.avoid
        self.events = []          # list of events; an event = list of script lines that must stay together
        self.kinds = {}
        self.pending = [dict() for _ in range(np_)]        # rank -> {slot: (src, dst, tag)}
        self.burnt = [set() for _ in range(np_)]           # (src,dst,tag) of requests that were MPI_Test'ed on that rank
        self.nops = [0] * np_

    def emit(self, who, op, *args):
        self.events[-1].append(("%s %s %s" % (who, op, " ".join(str(a) for a in args))).strip())
        self.kinds[op] = self.kinds.get(op, 0) + 1
        if who == "*":
            for r in range(self.np):
                self.nops[r] += 1
        else:
            self.nops[who] += 1

    def _free_slot(self, r):
        for s in range(60):
            if s not in self.pending[r]:
                return s
        return None

    def _tag(self, a, b):
        for _ in range(50):
            t = self.rng.choice([0, 0, 1, 2, 7, 42, 1000, 32767])
            k = (a, b, t)
            if "test-key-reuse" in self.avoid and (k in self.burnt[a] or k in self.burnt[b]):
                continue
            if k in self.pending[a].values() or k in self.pending[b].values():
                continue
            return t
        return None

    def p2p(self, a=None, b=None, smode=None, rmode=None, count=None, dt=None, tag=None):
        rng = self.rng
        self.events.append([])
        if a is None:
            a = rng.randrange(self.np)
            b = rng.randrange(self.np - 1)
            b = b + 1 if b >= a else b
        smode = smode or rng.choice(["send", "isend", "isend"])
        rmode = rmode or rng.choice(["recv", "irecv", "irecv"])
        if smode == "isend" and self._free_slot(a) is None:
            smode = "send"
        if rmode == "irecv" and self._free_slot(b) is None:
            rmode = "recv"
        dt = rng.choice(P2P_DT) if dt is None else dt
        count = _count(rng, dt) if count is None else count
        tag = self._tag(a, b) if tag is None else tag
        if tag is None:
            return
        for what, r in [("s", a), ("r", b)]:
            if what == "s":
                if smode == "send":
                    self.emit(a, "send", b, tag, count, dt)
                else:
                    s = self._free_slot(a)
                    self.pending[a][s] = (a, b, tag)
                    self.emit(a, "isend", b, tag, count, dt, s)
            else:
                if rmode == "recv":
                    self.emit(b, "recv", a, tag, count, dt)
                else:
                    s = self._free_slot(b)
                    self.pending[b][s] = (a, b, tag)
                    self.emit(b, "irecv", a, tag, count, dt, s)

    def sendrecv(self):
        """Ring shift by k over all ranks, or a pairwise exchange; every participant calls MPI_Sendrecv."""
        self.events.append([])
        rng, n = self.rng, self.np
        dt = rng.choice(P2P_DT)
        c = _count(rng, dt)
        tag = rng.choice([0, 0, 5])
        if rng.random() < 0.5 or n == 2:
            k = rng.randint(1, n - 1)
            for r in range(n):
                self.emit(r, "sendrecv", c, (r + k) % n, tag, c, (r - k) % n, tag, dt, dt)
        else:
            a, b = rng.sample(range(n), 2)
            c2 = _count(rng, dt)
            self.emit(a, "sendrecv", c, b, tag, c2, b, tag, dt, dt)
            self.emit(b, "sendrecv", c2, a, tag, c, a, tag, dt, dt)

    def _cc(self, dt, big):
        c = _count(self.rng, dt, big)
        return max(1, c) if self.nozero else c

    def coll(self, kind=None):
        self.events.append([])
        rng, n = self.rng, self.np
        kinds = [k for k in COLLS if k not in self.exclude]
        if "reducescatterblock" not in self.avoid and "reducescatterblock" not in self.exclude:
            kinds.append("reducescatterblock")
        kind = kind or rng.choice(kinds)
        root = rng.randrange(n)
        if kind == "barrier":
            self.emit("*", "barrier")
        elif kind == "bcast":
            dt = rng.choice(P2P_DT)
            self.emit("*", "bcast", self._cc(dt, True), root, dt)
        elif kind == "reduce":
            dt = rng.choice(RED_DT)
            self.emit("*", "reduce", self._cc(dt, True), root, dt)
        elif kind in ("allreduce", "scan", "exscan"):
            dt = rng.choice(RED_DT)
            self.emit("*", kind, self._cc(dt, True), dt)
        elif kind in ("alltoall", "allgather"):
            dt = rng.choice(P2P_DT)
            self.emit("*", kind, self._cc(dt, False), dt)
        elif kind in ("gather", "scatter"):
            dt = rng.choice(P2P_DT)
            c = self._cc(dt, False)
            self.emit("*", kind, max(1, c) if "zero-gather-scatter" in self.avoid else c, root, dt)
        elif kind == "alltoallv":
            dt = rng.choice(P2P_DT)
            m = [[self._cc(dt, False) if rng.random() < 0.8 or self.nozero else 0 for _ in range(n)] for _ in range(n)]
            for r in range(n):
                self.emit(r, "alltoallv", dt, *(m[r] + [m[j][r] for j in range(n)]))
        elif kind in ("gatherv", "scatterv"):
            dt = rng.choice(P2P_DT)
            c = [self._cc(dt, False) if rng.random() < 0.8 or self.nozero else 0 for _ in range(n)]
            self.emit("*", kind, root, dt, *c)
        elif kind == "allgatherv":
            dt = rng.choice(P2P_DT)
            c = [self._cc(dt, False) if rng.random() < 0.8 or self.nozero else 0 for _ in range(n)]
            self.emit("*", kind, dt, *c)
        elif kind == "reducescatter":
            dt = rng.choice(RED_DT)
            c = [self._cc(dt, False) if rng.random() < 0.8 or self.nozero else 0 for _ in range(n)]
            self.emit("*", kind, dt, *c)
        elif kind == "reducescatterblock":
            dt = rng.choice(RED_DT)
            self.emit("*", kind, self._cc(dt, False), dt)
        else:
            raise ValueError(kind)

    def local(self):
        rng = self.rng
        self.events.append([])
        r = rng.randrange(self.np)
        x = rng.random()
        if x < 0.25 and "sleep" not in self.exclude:
            # durations with <= 6 significant digits: the trace writer prints them with the default stream precision
            self.emit(r, "sleep", rng.choice([1, 10, 250, 2500, 123456, 99999, 1000000 * rng.randint(1, 3), rng.randint(1, 999)]))
        elif self.pending[r]:
            s = rng.choice(sorted(self.pending[r]))
            if x < 0.5 and "test" not in self.exclude:
                self.burnt[r].add(self.pending[r][s])
                self.emit(r, "test", s)
            elif x < 0.85:
                del self.pending[r][s]
                self.emit(r, "wait", s)
            else:
                self.pending[r].clear()
                self.emit(r, "waitall")

    def finish(self):
        rng = self.rng
        for r in range(self.np):
            if not self.pending[r]:
                continue
            self.events.append([])
            if rng.random() < 0.5:
                self.emit(r, "waitall")
            else:
                for s in sorted(self.pending[r], key=lambda _: rng.random()):
                    self.emit(r, "wait", s)
            self.pending[r].clear()
        if rng.random() < 0.3:
            self.events.append([])
            self.emit("*", "barrier")
        self.events = [e for e in self.events if e]

    def lines(self):
        return [l for e in self.events for l in e]


def script(events, close=False):
    """Script text of a list of events; close=True appends a waitall for every rank (used when a program is truncated)."""
    return "\n".join([l for e in events for l in e] + (["* waitall"] if close else [])) + "\n"


def program(rng, np_, nev, exclude=(), weights=None, avoid=()):
    """avoid: names of known-finding triggers to keep out ("test-key-reuse": never reuse the (src,dst,tag) of a request
    that was MPI_Test'ed; "zero-gather-scatter": no zero count in gather/scatter; "zero-coll": no zero count in any
    collective: several non-default collective algorithms crash online on them, which is C29's business)."""
    p = Prog(rng, np_, exclude, avoid)
    w = weights or rng.choice([(5, 1, 3, 3), (2, 1, 6, 1), (8, 2, 1, 4), (3, 0, 0, 3)])
    for _ in range(nev):
        x = rng.random() * sum(w)
        if x < w[0]:
            p.p2p()
        elif x < w[0] + w[1]:
            if "sendrecv" not in p.exclude:
                p.sendrecv()
        elif x < w[0] + w[1] + w[2]:
            p.coll()
        else:
            p.local()
    p.finish()
    return p
