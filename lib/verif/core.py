"""Check context: seeds, verdict bookkeeping, known-finding routing, evidence and replay files.

A property module (lib/verif/props/Cxx.py) defines
    META = {...}            # see props/README in FRAMEWORK.md
    def run(ctx): ...       # generates cases, runs them, calls ctx.* to report
    def replay(ctx, witness): ...   # optional: re-run exactly the case stored in a replay file
Exit status: 0 held (maybe with KNOWN-FINDING lines) / 1 unlisted violation / 2 harness failure.
"""
import concurrent.futures as cf
import hashlib
import json
import os
import random
import sys
import threading
import time
import traceback

ROOT = os.path.dirname(os.path.dirname(os.path.dirname(os.path.abspath(__file__))))
# VERIF_OUT redirects evidence and replay files (used when a check is pointed at a scratch worktree through
# VERIF_REPO/VERIF_BUILD, e.g. to try a seeded fault or a proposed fix without touching /verif/evidence).
_OUT = os.environ.get("VERIF_OUT") or ROOT
EVIDENCE_DIR = os.path.join(_OUT, "evidence")
REPLAY_DIR = os.path.join(_OUT, "replays")
KNOWN_FILE = os.path.join(ROOT, "known_findings.json")
NCPU = os.cpu_count() or 8


class HarnessFailure(Exception):
    """Something in the machinery (not in SimGrid) failed: exit 2."""


def stable_hash(obj):
    return hashlib.sha1(json.dumps(obj, sort_keys=True, default=str).encode()).hexdigest()[:16]


def load_known():
    """known_findings.json plus the per-property fragments known_findings.d/<ID>.json (all committed, read-only)."""
    out = []
    if os.path.exists(KNOWN_FILE):
        with open(KNOWN_FILE) as f:
            out += json.load(f)["findings"]
    d = os.path.join(ROOT, "known_findings.d")
    if os.path.isdir(d):
        for fn in sorted(os.listdir(d)):
            if fn.endswith(".json"):
                for attempt in range(5):      # a fragment may be in the middle of being rewritten by an editor
                    try:
                        with open(os.path.join(d, fn)) as f:
                            out += json.load(f)["findings"]
                        break
                    except ValueError:
                        if attempt == 4:
                            raise
                        time.sleep(0.5)
    return out


class Ctx:
    def __init__(self, meta, tier, seed, replay_path=None):
        self.meta = meta
        self.pid = meta["id"]
        self.tier = tier
        self.seed = seed
        self.rng = random.Random((seed * 1000003) ^ int(hashlib.sha1(self.pid.encode()).hexdigest()[:8], 16))
        self.replay_path = replay_path
        self.t0 = time.time()
        self._lock = threading.Lock()
        self.evaluations = 0
        self._distinct = set()
        self.samples = []
        self.max_samples = 4
        self.counters = {}
        self.maxima = {}
        self.inconclusives = []
        self.violations = []          # unlisted ones
        self.known_hits = {}          # key -> [entry, count]
        self.assumptions = list(meta.get("assumptions", []))
        self.extra = {}
        self.rule = meta.get("rule", "")
        self.exhaustive = None
        self._known = [k for k in load_known() if k.get("property") == self.pid]
        self._vio_keys = set()

    # -- sizes -------------------------------------------------------------------------------
    def size(self, quick, thorough):
        """Pick a workload size by tier; VERIF_SCALE (float) scales both (used for soaks)."""
        n = quick if self.tier == "quick" else thorough
        sc = float(os.environ.get("VERIF_SCALE", "1"))
        return max(1, int(n * sc))

    def sub_seed(self, *parts):
        return int(hashlib.sha1(("%d/%s/%s" % (self.seed, self.pid, "/".join(map(str, parts)))).encode()).hexdigest()[:12], 16)

    def sub_rng(self, *parts):
        return random.Random(self.sub_seed(*parts))

    # -- bookkeeping (thread-safe) -------------------------------------------------------------
    def evaluation(self, n=1):
        with self._lock:
            self.evaluations += n

    def nontrivial(self, obj):
        """Register a case that satisfies the property's non-triviality rule (distinct by content)."""
        h = obj if isinstance(obj, str) and len(obj) <= 40 else stable_hash(obj)
        with self._lock:
            self._distinct.add(h)

    def count(self, name, n=1):
        with self._lock:
            self.counters[name] = self.counters.get(name, 0) + n

    def maximum(self, name, v):
        with self._lock:
            if name not in self.maxima or v > self.maxima[name]:
                self.maxima[name] = v

    def sample(self, obj):
        with self._lock:
            if len(self.samples) < self.max_samples:
                self.samples.append(obj)

    def assume(self, text):
        with self._lock:
            if text not in self.assumptions:
                self.assumptions.append(text)

    def inconclusive(self, reason, case=None):
        with self._lock:
            self.inconclusives.append(reason)
            self.counters["inconclusive"] = self.counters.get("inconclusive", 0) + 1

    # -- verdicts ----------------------------------------------------------------------------
    def _match_known(self, key):
        import fnmatch
        for k in self._known:
            if k.get("status") != "open":
                continue          # 'fixed' entries suppress nothing
            if k.get("key") == key or ("key_glob" in k and fnmatch.fnmatchcase(key, k["key_glob"])):
                return k
        return None

    def violation(self, key, what, witness):
        """Report a violation. key = oracle rule + minimal discriminating features of the witness.
        witness = JSON-able dict sufficient to re-run the case (stored in the replay file)."""
        with self._lock:
            k = self._match_known(key)
            if k is not None:
                ent = self.known_hits.setdefault(k["key"] if "key" in k else k["key_glob"], [k, 0, key])
                ent[1] += 1
                return "known"
            if key in self._vio_keys:
                self.counters["violations_repeated"] = self.counters.get("violations_repeated", 0) + 1
                return "dup"
            self._vio_keys.add(key)
            d = os.path.join(REPLAY_DIR, self.pid)
            os.makedirs(d, exist_ok=True)
            path = os.path.join(d, "%s-%s.json" % (self.tier, stable_hash([key, self.seed])))
            with open(path, "w") as f:
                json.dump({"property": self.pid, "key": key, "what": what, "seed": self.seed, "tier": self.tier,
                           "witness": witness}, f, indent=1, default=str)
            self.violations.append((key, what, path))
            sys.stdout.write("VIOLATION property=%s replay=%s\n" % (self.pid, path))
            sys.stdout.write("  key=%s\n  %s\n" % (key, what.replace("\n", "\n  ")))
            sys.stdout.flush()
            return "new"

    # -- parallel map ------------------------------------------------------------------------
    def pmap(self, fn, items, workers=None):
        """Run fn(item) over items on a thread pool (cases are subprocess-bound). Exceptions in fn
        are harness failures. Results are returned in input order."""
        items = list(items)
        workers = workers or int(os.environ.get("VERIF_JOBS", NCPU))
        out = [None] * len(items)
        with cf.ThreadPoolExecutor(max_workers=workers) as ex:
            futs = {ex.submit(fn, it): i for i, it in enumerate(items)}
            for fu in cf.as_completed(futs):
                out[futs[fu]] = fu.result()
        return out

    # -- end ---------------------------------------------------------------------------------
    def finish(self):
        wall = time.time() - self.t0
        for keyname, (k, n, firstkey) in sorted(self.known_hits.items()):
            sys.stdout.write("KNOWN-FINDING: property=%s %s [key=%s, seen %d time(s) in this run]\n"
                             % (self.pid, k.get("what", ""), keyname, n))
        cov = {
            "evaluations": self.evaluations,
            "distinct_nontrivial": len(self._distinct),
            "rule": self.rule,
            "samples": self.samples,
            "observed": dict(sorted(self.counters.items())),
            "observed_max": self.maxima,
            "inconclusive": len(self.inconclusives),
            "inconclusive_reasons": sorted(set(self.inconclusives))[:10],
            "known_findings_hit": {kn: v[1] for kn, v in self.known_hits.items()},
        }
        if self.exhaustive is not None:
            cov["exhaustive"] = bool(self.exhaustive)
        cov.update(self.extra)
        ev = {
            "property_id": self.pid,
            "tier": self.tier,
            "seed": self.seed,
            "level": self.meta.get("level", "exploration"),
            "coverage": cov,
            "assumptions": self.assumptions,
            "wall_s": round(wall, 2),
            "violations": len(self.violations),
        }
        if self.replay_path is None:
            os.makedirs(EVIDENCE_DIR, exist_ok=True)
            tmp = os.path.join(EVIDENCE_DIR, ".%s.json.tmp%d" % (self.pid, os.getpid()))
            with open(tmp, "w") as f:
                json.dump(ev, f, indent=1, default=str)
            os.replace(tmp, os.path.join(EVIDENCE_DIR, self.pid + ".json"))
        sys.stdout.write("[%s %s seed=%d] evaluations=%d distinct_nontrivial=%d inconclusive=%d known=%d violations=%d wall=%.1fs\n"
                         % (self.pid, self.tier, self.seed, self.evaluations, len(self._distinct),
                            len(self.inconclusives), len(self.known_hits), len(self.violations), wall))
        for k, v in sorted(self.counters.items()):
            sys.stdout.write("    %-40s %s\n" % (k, v))
        if self.violations:
            return 1
        if self.replay_path is None and (self.evaluations == 0 or len(self._distinct) < 2):
            sys.stderr.write("HARNESS FAILURE: the monitors observed nothing non-trivial (evaluations=%d, distinct=%d)\n"
                             % (self.evaluations, len(self._distinct)))
            return 2
        return 0


def main(argv):
    import argparse
    import importlib
    ap = argparse.ArgumentParser(prog="check")
    ap.add_argument("pid")
    ap.add_argument("--tier", default=os.environ.get("VERIF_TIER", "quick"), choices=["quick", "thorough"])
    ap.add_argument("--seed", type=int, default=None)
    ap.add_argument("--replay", default=None)
    a = ap.parse_args(argv)
    seed = a.seed if a.seed is not None else int(os.environ.get("VERIF_SEED", "1") or 1)
    try:
        mod = importlib.import_module("verif.props." + a.pid)
    except ImportError as e:
        sys.stderr.write("no check for %s: %s\n" % (a.pid, e))
        return 2
    ctx = Ctx(mod.META, a.tier, seed, a.replay)
    try:
        if a.replay:
            with open(a.replay) as f:
                rp = json.load(f)
            if not hasattr(mod, "replay"):
                sys.stderr.write("%s has no replay support\n" % a.pid)
                return 2
            mod.replay(ctx, rp["witness"])
        else:
            mod.run(ctx)
    except Exception as e:   # BuildError, HarnessFailure, bugs in the machinery
        sys.stderr.write("HARNESS FAILURE in %s: %s\n%s\n" % (a.pid, e, traceback.format_exc()))
        return 2
    return ctx.finish()
