"""Subprocess runner with a wall-clock watchdog (watchdog firing = inconclusive, never a verdict)."""
import os
import signal
import subprocess
import time

SAN_ENV = {
    "ASAN_OPTIONS": "abort_on_error=0:halt_on_error=1:detect_leaks=0:detect_stack_use_after_return=0:"
                    "allocator_may_return_null=1:exitcode=86:handle_segv=1:print_legend=0:print_summary=1",
    "UBSAN_OPTIONS": "print_stacktrace=1:halt_on_error=1:exitcode=87",
    "TSAN_OPTIONS": "halt_on_error=0:exitcode=88:second_deadlock_stack=1:history_size=4",
}


class Result:
    __slots__ = ("rc", "out", "err", "timed_out", "wall", "cmd")

    def __init__(self, rc, out, err, timed_out, wall, cmd):
        self.rc, self.out, self.err, self.timed_out, self.wall, self.cmd = rc, out, err, timed_out, wall, cmd

    @property
    def signal(self):
        return -self.rc if self.rc is not None and self.rc < 0 else (self.rc - 128 if self.rc and 128 < self.rc < 160 else 0)

    def brief(self, n=12):
        tail = "\n".join((self.err or "").splitlines()[-n:])
        return "rc=%s timed_out=%s\n%s" % (self.rc, self.timed_out, tail)


def run(cmd, timeout=120, env=None, stdin=None, cwd=None, san=True, text=True, merge_err=False, limit_as_gb=None):
    """Run cmd in its own process group; kill the whole group when the watchdog fires."""
    e = dict(os.environ)
    e.pop("VERIF_SEED", None)
    if san:
        for k, v in SAN_ENV.items():
            e.setdefault(k, v)
    if env:
        e.update(env)

    def pre():
        os.setsid()
        import resource
        resource.setrlimit(resource.RLIMIT_CORE, (0, 0))
        if limit_as_gb:
            b = int(limit_as_gb * (1 << 30))
            resource.setrlimit(resource.RLIMIT_AS, (b, b))

    t0 = time.time()
    p = subprocess.Popen(cmd, stdin=subprocess.PIPE if stdin is not None else subprocess.DEVNULL,
                         stdout=subprocess.PIPE, stderr=subprocess.STDOUT if merge_err else subprocess.PIPE,
                         env=e, cwd=cwd, preexec_fn=pre, text=text, errors="replace" if text else None)
    timed_out = False
    try:
        out, err = p.communicate(stdin, timeout=timeout)
    except subprocess.TimeoutExpired:
        timed_out = True
        try:
            os.killpg(p.pid, signal.SIGKILL)
        except ProcessLookupError:
            pass
        out, err = p.communicate()
    finally:
        try:
            os.killpg(p.pid, signal.SIGKILL)   # stray children (simgrid-mc forks)
        except (ProcessLookupError, PermissionError):
            pass
    return Result(p.returncode, out, err if not merge_err else "", timed_out, time.time() - t0, cmd)


def sanitizer_reports(text):
    """Extract sanitizer report headers from a stderr text: list of (kind, first line)."""
    reps = []
    for line in (text or "").splitlines():
        if "ERROR: AddressSanitizer" in line or "WARNING: ThreadSanitizer" in line or "runtime error:" in line \
                or "ERROR: LeakSanitizer" in line:
            if "ignoring requested __asan_handle_no_return" in line:
                continue
            kind = "asan" if "AddressSanitizer" in line else "tsan" if "ThreadSanitizer" in line else \
                   "lsan" if "LeakSanitizer" in line else "ubsan"
            reps.append((kind, line.strip()))
    return reps
