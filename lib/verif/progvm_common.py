"""Shared by C01 and C02: run batches of scenarios through harness/progvm.cpp and compare the event logs."""
import re

from verif import proc

BASE_FLAGS = ["--log=root.thres:critical"]


def batch_input(cases):
    """cases: list of (tag, padseed, [engine flags], scenario text)."""
    parts = []
    for tag, pad, flags, text in cases:
        parts.append("CASE %s %d %s\n%sENDCASE\n" % (tag, pad, " ".join(flags), text))
    return "".join(parts)


def run_batch(binary, cases, per_case_budget=120, env=None, prefix=()):
    """Run the cases in one progvm process (one forked child per case). Returns {tag: dict(rc, sig, log, err)}; a case that
    does not appear (the whole process was killed by the outer watchdog) or whose child got SIGALRM is to be counted
    inconclusive by the caller (key 'watchdog' True)."""
    e = {"PROGVM_BUDGET": str(per_case_budget)}
    if env:
        e.update(env)
    res = proc.run(list(prefix) + [binary] + BASE_FLAGS, timeout=per_case_budget * len(cases) + 60, env=e,
                   stdin=batch_input(cases))
    out = {}
    cur, buf = None, []
    for line in res.out.splitlines():
        if line.startswith("CASE "):
            cur, buf = line[5:], []
        elif line.startswith("DONE ") and cur is not None:
            t = line.split()
            rc, sig = int(t[2]), int(t[3])
            out[cur] = {"rc": rc, "sig": sig, "log": buf, "err": "", "watchdog": sig == 14}
            cur = None
        elif cur is not None:
            buf.append(line)
    # stderr is split on the same markers
    cur, ebuf = None, []
    for line in (res.err or "").splitlines():
        if line.startswith("CASE "):
            cur, ebuf = line[5:], []
        elif line.startswith("DONE ") and cur is not None:
            if cur in out:
                out[cur]["err"] = "\n".join(ebuf)
            cur = None
        elif cur is not None:
            ebuf.append(line)
    for tag, _pad, _flags, _text in cases:
        if tag not in out:
            out[tag] = {"rc": None, "sig": 0, "log": [], "err": (res.err or "")[-2000:], "watchdog": True,
                        "lost": True, "timed_out": res.timed_out, "proc_rc": res.rc}
    return out


def kind_of(line):
    """Event kind of a log line: phase + op (+ exception class), e.g. 'R:get', 'X:get:NetworkFailure', 'E', 'T'."""
    t = line.split()
    if len(t) < 4:
        return "malformed"
    ph = t[3]
    if ph in ("Q", "R", "S", "L", "W", "F"):
        return "%s:%s" % (ph, t[4] if len(t) > 4 else "?")
    if ph == "X":
        return "X:%s:%s" % (t[4] if len(t) > 4 else "?", t[5] if len(t) > 5 else "?")
    return ph


def first_divergence(a, b):
    """Index of the first differing line of two logs (None when equal)."""
    n = min(len(a), len(b))
    for i in range(n):
        if a[i] != b[i]:
            return i
    return None if len(a) == len(b) else n


def per_actor(log):
    d = {}
    for line in log:
        t = line.split(" ", 2)
        d.setdefault(t[1] if len(t) > 1 else "?", []).append(line)
    return d


def date_of(line):
    try:
        return float(line.split(" ", 1)[0])
    except ValueError:
        return float("nan")


def describe_divergence(a, b, i, ctxlines=4):
    lo = max(0, i - ctxlines)
    s = ["first difference at line %d:" % i]
    s += ["   = " + l for l in a[lo:i]]
    s += ["   A " + l for l in a[i:i + ctxlines]]
    s += ["   B " + l for l in b[i:i + ctxlines]]
    return "\n".join(s)


def classify(a, b, i):
    """Stable description of a divergence between two complete logs a and b whose first difference is at line i:
    the kind of the first diverging event plus the shape of the difference:
      order   - same multiset of lines, another global order (all per-actor sequences equal)
      values  - some actor saw different dates/values
    and the situation in which it happens (what happened at that date just before)."""
    ka = kind_of(a[i]) if i < len(a) else "end-of-log"
    kb = kind_of(b[i]) if i < len(b) else "end-of-log"
    pa, pb = per_actor(a), per_actor(b)
    shape = "order" if pa == pb else "values"
    kinds = sorted({ka, kb})
    return shape, "|".join(kinds)


def tie_stats(log):
    """(number of dates at which >= 3 distinct actors logged a return/exception/exit, max actors at one date, #events)."""
    by = {}
    n = 0
    for line in log:
        t = line.split()
        if len(t) < 4 or t[1] == "-":
            continue
        n += 1
        if t[3] in ("R", "X", "E"):
            by.setdefault(t[0], set()).add(t[1])
    big = [len(v) for v in by.values() if len(v) >= 3]
    return len(big), max(big) if big else 0, n


_HEX = re.compile(r"0x[0-9a-fA-F]+")


def scrub(text):
    return _HEX.sub("0x?", text or "")
