"""Shared by C01 and C02: run batches of scenarios through harness/progvm.cpp and compare the event logs."""
import re

from verif import proc

BASE_FLAGS = ["--log=root.thres:critical"]


def batch_input(cases):
    """cases: list of (tag, padseed, [engine flags], scenario text)."""
    parts = []
    for tag, pad, flags, text in cases:
        parts.append("CASE %s %d %s\n%sENDCASE\n" % (tag, pad, " ".join(flags), text))
    return "".join(parts)


def run_batch(binary, cases, per_case_budget=120, env=None, prefix=()):
    """Run the cases in one progvm process (one forked child per case). Returns {tag: dict(rc, sig, log, err)}; a case that
    does not appear (the whole process was killed by the outer watchdog) or whose child got SIGALRM is to be counted
    inconclusive by the caller (key 'watchdog' True)."""
    e = {"PROGVM_BUDGET": str(per_case_budget)}
    if env:
        e.update(env)
    res = proc.run(list(prefix) + [binary] + BASE_FLAGS, timeout=per_case_budget * len(cases) + 60, env=e,
                   stdin=batch_input(cases))
    out = {}
    cur, buf = None, []
    for line in res.out.splitlines():
        if line.startswith("CASE "):
            cur, buf = line[5:], []
        elif line.startswith("DONE ") and cur is not None:
            t = line.split()
            rc, sig = int(t[2]), int(t[3])
            out[cur] = {"rc": rc, "sig": sig, "log": buf, "err": "", "watchdog": sig == 14}
            cur = None
        elif cur is not None:
            buf.append(line)
    # stderr is split on the same markers
    cur, ebuf = None, []
    for line in (res.err or "").splitlines():
        if line.startswith("CASE "):
            cur, ebuf = line[5:], []
        elif line.startswith("DONE ") and cur is not None:
            if cur in out:
                out[cur]["err"] = "\n".join(ebuf)
            cur = None
        elif cur is not None:
            ebuf.append(line)
    for tag, _pad, _flags, _text in cases:
        if tag not in out:
            out[tag] = {"rc": None, "sig": 0, "log": [], "err": (res.err or "")[-2000:], "watchdog": True,
                        "lost": True, "timed_out": res.timed_out, "proc_rc": res.rc}
    return out


def kind_of(line):
    """Event kind of a log line: phase + op (+ exception class), e.g. 'R:get', 'X:get:NetworkFailure', 'E', 'T'."""
    t = line.split()
    if len(t) < 4:
        return "malformed"
    ph = t[3]
    if ph in ("Q", "R", "S", "L", "W", "F"):
        return "%s:%s" % (ph, t[4] if len(t) > 4 else "?")
    if ph == "X":
        return "X:%s:%s" % (t[4] if len(t) > 4 else "?", t[5] if len(t) > 5 else "?")
    return ph


def first_divergence(a, b):
    """Index of the first differing line of two logs (None when equal)."""
    n = min(len(a), len(b))
    for i in range(n):
        if a[i] != b[i]:
            return i
    return None if len(a) == len(b) else n


def per_actor(log):
    d = {}
    for line in log:
        t = line.split(" ", 2)
        d.setdefault(t[1] if len(t) > 1 else "?", []).append(line)
    return d


def date_of(line):
    try:
        return float(line.split(" ", 1)[0])
    except ValueError:
        return float("nan")


def describe_divergence(a, b, i, ctxlines=4):
    lo = max(0, i - ctxlines)
    s = ["first difference at line %d:" % i]
    s += ["   = " + l for l in a[lo:i]]
    s += ["   A " + l for l in a[i:i + ctxlines]]
    s += ["   B " + l for l in b[i:i + ctxlines]]
    return "\n".join(s)


def classify(a, b, i):
    """Stable description of a divergence between two complete logs a and b whose first difference is at line i:
    the kind of the first diverging event plus the shape of the difference:
      order   - same multiset of lines, another global order (all per-actor sequences equal)
      values  - some actor saw different dates/values
    and the situation in which it happens (what happened at that date just before)."""
    ka = kind_of(a[i]) if i < len(a) else "end-of-log"
    kb = kind_of(b[i]) if i < len(b) else "end-of-log"
    pa, pb = per_actor(a), per_actor(b)
    shape = "order" if pa == pb else "values"
    kinds = sorted({ka, kb})
    return shape, "|".join(kinds)


def tie_stats(log):
    """(number of dates at which >= 3 distinct actors logged a return/exception/exit, max actors at one date, #events)."""
    by = {}
    n = 0
    for line in log:
        t = line.split()
        if len(t) < 4 or t[1] == "-":
            continue
        n += 1
        if t[3] in ("R", "X", "E"):
            by.setdefault(t[0], set()).add(t[1])
    big = [len(v) for v in by.values() if len(v) >= 3]
    return len(big), max(big) if big else 0, n


_HEX = re.compile(r"0x[0-9a-fA-F]+")


def scrub(text):
    return _HEX.sub("0x?", text or "")


# ---- classification of a divergence (stable violation keys) ------------------------------------------------------
def _daemons(log):
    d = set()
    for line in log:
        t = line.split()
        if len(t) > 6 and t[3] == "B" and t[-1] == "daemon=1":
            d.add(t[1])
    return d


def _klass(line):
    """Event class used in violation keys: phase.op, exceptions by class only (the op that was interrupted varies)."""
    if line is None:
        return "end-of-log"
    k = kind_of(line).split(":")
    if k[0] == "X":
        return "X." + k[-1]
    return ".".join(k)


def situation(ref, la, lb, actor_mode=False):
    """What was going on where two runs start to differ. ref = a complete log of one of the runs, la/lb = first differing lines
    (None = the log ended)."""
    if la is None or lb is None:
        return "one-log-ends"
    ta, tb = la.split(), lb.split()
    if ta[0] != tb[0]:
        return "date-differs"
    date = ta[0]
    dm = _daemons(ref)
    # nothing but daemons (and maestro) is heard of after that date: this is the final sweep of Engine::run()
    at_end = not any(date_of(l) > float(date) and l.split()[1] not in dm and l.split()[1] != "-" for l in ref)
    if at_end and ta[3] == tb[3] == "E" and ta[1] in dm and tb[1] in dm:
        return "daemons-killed-at-end"
    if at_end and ta[1] == tb[1] == "-" and ta[3] == tb[3] == "T" and ta[4] in dm and tb[4] in dm:
        return "daemons-killed-at-end"
    died = False
    for line in ref:
        t = line.split(" ", 4)
        if t[0] == date and len(t) > 3 and t[3] == "E":
            died = True
            break
    return "after-actor-death" if died else "same-date-tie"


def divergence_key(prop, ref, other, per_actor_mode=False):
    """Compare two logs. Returns None when they agree, else (key, what, detail dict).
    per_actor_mode: only the per-actor sequences (maestro's included) must agree (parallel runs)."""
    if not per_actor_mode:
        i = first_divergence(ref, other)
        if i is None:
            return None
        la = ref[i] if i < len(ref) else None
        lb = other[i] if i < len(other) else None
        shape = "order" if per_actor(ref) == per_actor(other) else "values"
        text = describe_divergence(ref, other, i)
    else:
        pa, pb = per_actor(ref), per_actor(other)
        if pa == pb:
            return None
        best = None
        for act in sorted(set(pa) | set(pb)):
            x, y = pa.get(act, []), pb.get(act, [])
            j = first_divergence(x, y)
            if j is None:
                continue
            lx = x[j] if j < len(x) else None
            ly = y[j] if j < len(y) else None
            d = min(date_of(l) for l in (lx, ly) if l is not None)
            if best is None or d < best[0]:
                best = (d, act, j, lx, ly, x, y)
        _d, act, j, la, lb, x, y = best
        shape = "values"
        text = "actor %s: " % act + describe_divergence(x, y, j)
        # what this actor had just been through (its last return/exception/wake-up): names the tie whose order was unstable
        prev = [l for l in x[:j] if l.split()[3] not in ("Q", "S")]
        after = _klass(prev[-1]) if prev else "start"
    kinds = sorted({_klass(la), _klass(lb)})
    sit = situation(ref, la, lb)
    key = "%s:diverge:%s:%s" % (prop, "|".join(kinds), sit)
    if per_actor_mode:
        key += ":after=" + after
    return key, text, {"shape": shape, "kinds": kinds, "situation": sit}


def corrupt(log, how, rng):
    """Oracle self-test only: damage a log the way a kernel defect would (see the props modules, VERIF_SELFTEST)."""
    log = list(log)
    if how == "swap":      # two adjacent lines of different actors at the same date change places
        idx = [i for i in range(len(log) - 1) if log[i].split()[0] == log[i + 1].split()[0]
               and log[i].split()[1] != log[i + 1].split()[1] and "-" not in (log[i].split()[1], log[i + 1].split()[1])]
        if idx:
            i = rng.choice(idx)
            log[i], log[i + 1] = log[i + 1], log[i]
    elif how == "date":    # one return happens one ulp-ish later
        idx = [i for i, l in enumerate(log) if " R " in l and not l.startswith("0 ")]
        if idx:
            i = rng.choice(idx)
            t = log[i].split(" ", 1)
            log[i] = "%.17g %s" % (float(t[0]) * (1 + 2 ** -50), t[1])
    elif how == "drop":
        idx = [i for i, l in enumerate(log) if " R " in l]
        if idx:
            del log[rng.choice(idx)]
    elif how == "value":   # a receive gets another message
        idx = [i for i, l in enumerate(log) if "msg=" in l]
        if idx:
            i = rng.choice(idx)
            log[i] = log[i] + "x"
    return log


def sanitizer_key(err):
    """(kind, stable tag) of the first sanitizer report in a stderr text, or None. The tag names the error type and the function
    (ASan/TSan SUMMARY line) or the source line and message (UBSan); addresses and pids are dropped."""
    reps = proc.sanitizer_reports(err)
    if not reps:
        return None
    kind, head = reps[0]
    for line in err.splitlines():
        if line.startswith("SUMMARY:") and kind != "ubsan":
            t = line.split()
            typ = t[2] if len(t) > 2 else "?"
            func = line.split(" in ", 1)[1].strip() if " in " in line else "?"
            func = re.sub(r"\(.*", "", func)
            return kind, "%s:%s" % (typ, scrub(func)[:80])
    if kind == "ubsan":
        m = re.search(r"([^/\s:]+:\d+):\d+: runtime error: (.*)", head)
        if m:
            return kind, "%s:%s" % (m.group(1), "-".join(scrub(m.group(2)).split()[:6]))
    return kind, scrub(head)[-60:]


def death_hazards(log, scenario_text=""):
    """Situations of a (reference) log in which the kernel work done on behalf of dying actors matters: dates at which >= 2 actors
    die while somebody returns from join() ('joiners') or a peer of a pending communication is told that it failed
    ('pending-comms'), or while the scenario arms kill timers ('kill-timers'). Returns '' or the names joined by '+'."""
    by = {}
    for line in log:
        t = line.split()
        if len(t) < 4:
            continue
        d = by.setdefault(t[0], {"E": set(), "join": False, "nf": False})
        if t[3] == "E":
            d["E"].add(t[1])
        elif t[3] == "R" and len(t) > 4 and t[4] == "join":
            d["join"] = True
        elif (t[3] == "X" and t[-1] == "NetworkFailure") or t[3] == "F":
            d["nf"] = True
    j = any(len(d["E"]) >= 2 and d["join"] for d in by.values())
    c = any(len(d["E"]) >= 2 and d["nf"] for d in by.values())
    # dying actors also remove their kill timer from the global timer heap
    timers = any(l.startswith("A ") and l.split()[5] != "-1" for l in scenario_text.splitlines())
    k = timers and any(len(d["E"]) >= 2 for d in by.values())
    return "+".join(x for x, on in (("joiners", j), ("pending-comms", c), ("kill-timers", k)) if on)
