"""Build flavours of /repo (out of tree, hooks on) and compile harness programs against them.

Everything lives under /verif/.build (git-ignored).  A flavour is rebuilt incrementally from /repo's
*current working tree* on every ensure(); ninja makes that a no-op when nothing changed.
"""
import fcntl
import hashlib
import os
import shlex
import subprocess
import sys
import time

ROOT   = os.path.dirname(os.path.dirname(os.path.dirname(os.path.abspath(__file__))))
REPO   = os.environ.get("VERIF_REPO", "/repo")
BUILD  = os.environ.get("VERIF_BUILD") or os.path.join(ROOT, ".build")   # VERIF_BUILD: scratch build tree for VERIF_REPO=<worktree>
GUARD  = "SIMGRID_VERIF"
NCPU   = os.cpu_count() or 8

TARGETS = ["simgrid", "sthread", "simgrid-mc", "smpimain", "smpireplaymain"]

COMMON_CMAKE = [
    "-Denable_lto=OFF", "-Denable_java=OFF", "-Denable_python=OFF", "-Denable_fortran=OFF",
    "-Denable_documentation=OFF", "-Denable_model-checking=ON", "-Denable_smpi=ON",
    "-Denable_compile_warnings=OFF", "-Denable_debug=ON", "-Denable_ns3=OFF",
]

FLAVOURS = {
    # flavour: (extra cmake args, flags appended at the very end of C/CXX flags)
    "hooks": ([], "-O2 -g1 -D%s" % GUARD),
    "asan":  (["-Denable_address_sanitizer=ON", "-Denable_undefined_sanitizer=ON",
               "-Denable_compile_optimizations=OFF"],
              "-O1 -g1 -D%s" % GUARD),
    "tsan":  (["-Denable_thread_sanitizer=ON", "-Denable_compile_optimizations=OFF"],
              "-O1 -g1 -D%s" % GUARD),
}

SAN_FLAGS = {
    "hooks": [],
    "asan":  ["-fsanitize=address,undefined", "-fno-omit-frame-pointer"],
    "tsan":  ["-fsanitize=thread", "-fno-omit-frame-pointer"],
}


class BuildError(Exception):
    pass


def bdir(flavour):
    return os.path.join(BUILD, flavour)


def libdir(flavour):
    return os.path.join(bdir(flavour), "lib")


def _run(cmd, cwd=None, env=None, log=None):
    p = subprocess.run(cmd, cwd=cwd, env=env, stdout=subprocess.PIPE, stderr=subprocess.STDOUT, text=True)
    if log:
        with open(log, "a") as f:
            f.write("$ %s\n%s\n" % (" ".join(map(shlex.quote, cmd)), p.stdout))
    if p.returncode != 0:
        tail = "\n".join(p.stdout.splitlines()[-60:])
        raise BuildError("command failed (%d): %s\n%s" % (p.returncode, " ".join(cmd), tail))
    return p.stdout


class _Lock:
    def __init__(self, path):
        self.path = path

    def __enter__(self):
        os.makedirs(os.path.dirname(self.path), exist_ok=True)
        self.f = open(self.path, "w")
        fcntl.flock(self.f, fcntl.LOCK_EX)
        return self

    def __exit__(self, *a):
        fcntl.flock(self.f, fcntl.LOCK_UN)
        self.f.close()


_ensured = {}


def ensure(flavour, quiet=False):
    """Configure (first time) and incrementally build the flavour. Returns its build dir."""
    if flavour in _ensured:
        return _ensured[flavour]
    if os.environ.get("VERIF_NO_REBUILD") == "1" and os.path.exists(os.path.join(libdir(flavour), "libsimgrid.so")):
        _ensured[flavour] = bdir(flavour)
        return _ensured[flavour]
    cm, flags = FLAVOURS[flavour]
    b = bdir(flavour)
    os.makedirs(b, exist_ok=True)
    log = os.path.join(BUILD, "build-%s.log" % flavour)
    env = dict(os.environ)
    env["CFLAGS"] = flags
    env["CXXFLAGS"] = flags
    # the compiler cache is shared between /verif/.build and scratch build trees (VERIF_BUILD)
    env["CCACHE_DIR"] = os.path.join(ROOT, ".build", "ccache")
    env["CCACHE_MAXSIZE"] = "8G"
    env["CCACHE_BASEDIR"] = REPO
    env["CCACHE_NOHASHDIR"] = "1"
    env.pop("VERIF_SEED", None)
    with _Lock(os.path.join(BUILD, flavour + ".lock")):
        t0 = time.time()
        if not os.path.exists(os.path.join(b, "build.ninja")):
            open(log, "w").close()
            launcher = []
            if os.path.exists("/usr/bin/ccache"):
                launcher = ["-DCMAKE_C_COMPILER_LAUNCHER=ccache", "-DCMAKE_CXX_COMPILER_LAUNCHER=ccache"]
            _run(["cmake", "-G", "Ninja", "-S", REPO, "-B", b] + COMMON_CMAKE + cm + launcher, env=env, log=log)
        _run(["ninja", "-C", b, "-j", str(NCPU)] + TARGETS, env=env, log=log)
        if not quiet and time.time() - t0 > 5:
            sys.stderr.write("[build] %s flavour up to date (%.0fs)\n" % (flavour, time.time() - t0))
    _ensured[flavour] = b
    return b


def _stamp(paths):
    h = hashlib.sha1()
    for p in paths:
        st = os.stat(p)
        h.update(("%s:%d:%d;" % (p, st.st_mtime_ns, st.st_size)).encode())
    return h.hexdigest()[:16]


def harness(name, flavour="hooks", internal=False, extra=(), libs=(), lang=None, deps=()):
    """Compile /verif/harness/<name> against the flavour's libsimgrid. Returns the binary path.

    internal=True gives access to SimGrid's private headers and members (-fno-access-control).
    The binary is cached; it is rebuilt when the source, a dep or libsimgrid.so changed.
    """
    b = ensure(flavour)
    src = os.path.join(ROOT, "harness", name)
    if not os.path.exists(src):
        raise BuildError("no such harness source: " + src)
    lib = os.path.join(b, "lib", "libsimgrid.so")
    deps = [os.path.join(ROOT, "harness", d) for d in deps]
    outdir = os.path.join(b, "verif-harness")
    os.makedirs(outdir, exist_ok=True)
    base = os.path.splitext(os.path.basename(name))[0]
    tag = hashlib.sha1((" ".join(extra) + " ".join(libs) + str(internal)).encode()).hexdigest()[:6]
    out = os.path.join(outdir, "%s-%s" % (base, tag))
    stampf = out + ".stamp"
    hdrs = [os.path.join(REPO, "src", "verif_hooks.hpp")] if os.path.exists(os.path.join(REPO, "src", "verif_hooks.hpp")) else []
    st = _stamp([src, lib] + deps + hdrs)
    if os.path.exists(out) and os.path.exists(stampf) and open(stampf).read() == st:
        return out
    is_c = (lang == "c") or (lang is None and name.endswith(".c"))
    cc = ["gcc"] if is_c else ["g++", "-std=gnu++20" if internal else "-std=c++17"]
    cmd = cc + ["-O1", "-g1", "-D" + GUARD] + SAN_FLAGS[flavour]
    if internal and not is_c:
        cmd += ["-fno-access-control", "-I" + REPO, "-I" + b, "-I" + os.path.join(REPO, "src", "include")]
    cmd += ["-I" + os.path.join(REPO, "include"), "-I" + os.path.join(b, "include"), "-I" + os.path.join(ROOT, "harness")]
    cmd += list(extra) + [src, "-o", out + ".tmp%d" % os.getpid(), "-L" + os.path.join(b, "lib"), "-lsimgrid",
                          "-Wl,-rpath," + os.path.join(b, "lib"), "-lpthread"] + list(libs)
    with _Lock(out + ".lock"):
        if os.path.exists(out) and os.path.exists(stampf) and open(stampf).read() == st:
            return out
        _run(cmd, log=os.path.join(BUILD, "harness.log"))
        os.replace(out + ".tmp%d" % os.getpid(), out)
        with open(stampf, "w") as f:
            f.write(st)
    return out


def smpicc(src, flavour="hooks", extra=(), out=None, deps=()):
    """Compile an MPI C program with the flavour's in-tree smpicc. src is absolute or under harness/."""
    b = ensure(flavour)
    if not os.path.isabs(src):
        src = os.path.join(ROOT, "harness", src)
    lib = os.path.join(b, "lib", "libsimgrid.so")
    outdir = os.path.join(b, "verif-harness")
    os.makedirs(outdir, exist_ok=True)
    base = os.path.splitext(os.path.basename(src))[0]
    tag = hashlib.sha1((" ".join(extra)).encode()).hexdigest()[:6]
    out = out or os.path.join(outdir, "mpi-%s-%s" % (base, tag))
    stampf = out + ".stamp"
    deps = [d if os.path.isabs(d) else os.path.join(ROOT, "harness", d) for d in deps]
    st = _stamp([src, lib] + deps)
    if os.path.exists(out) and os.path.exists(stampf) and open(stampf).read() == st:
        return out
    cc = os.path.join(b, "smpi_script", "bin", "smpicxx" if src.endswith((".cpp", ".cc")) else "smpicc")
    cmd = [cc, "-O1", "-g1", "-I" + os.path.join(ROOT, "harness")] + SAN_FLAGS[flavour] + list(extra) + [src, "-o", out + ".tmp%d" % os.getpid()]
    with _Lock(out + ".lock"):
        if os.path.exists(out) and os.path.exists(stampf) and open(stampf).read() == st:
            return out
        _run(cmd, log=os.path.join(BUILD, "harness.log"))
        os.replace(out + ".tmp%d" % os.getpid(), out)
        with open(stampf, "w") as f:
            f.write(st)
    return out


def smpirun(flavour="hooks"):
    return os.path.join(ensure(flavour), "smpi_script", "bin", "smpirun")


def simgrid_mc(flavour="hooks"):
    return os.path.join(ensure(flavour), "bin", "simgrid-mc")


def sthread_lib(flavour="hooks"):
    return os.path.join(ensure(flavour), "lib", "libsthread.so")


def main(argv):
    import concurrent.futures as cf
    flv = [a for a in argv if a in FLAVOURS] or (list(FLAVOURS) if "--all" in argv else ["hooks"])
    # Builds of distinct flavours are independent: run them concurrently, ninja shares the cores.
    errs = []
    with cf.ThreadPoolExecutor(len(flv)) as ex:
        futs = {ex.submit(ensure, f): f for f in flv}
        for fu in cf.as_completed(futs):
            try:
                print("[build] %s -> %s" % (futs[fu], fu.result()))
            except BuildError as e:
                errs.append((futs[fu], str(e)))
    for f, e in errs:
        sys.stderr.write("[build] %s FAILED:\n%s\n" % (f, e))
    return 2 if errs else 0


if __name__ == "__main__":
    sys.exit(main(sys.argv[1:]))
