"""Reference models for C22 (availability profiles) and C23 (energy accounting), written from the documentation only:

* a profile is a list of (date, value) points, applied once, or repeated: ``LOOPAFTER D`` restarts the pattern D seconds after its last
  point (XML_reference.rst: "1 0.5 / 2 0.2 / 5 1 / LOOPAFTER 5 -> at t=10 the profile is reset, the speed drops to 50% again at t=11"),
  ``PERIODICITY P`` restarts it every P seconds (ProfileBuilder.cpp: "the delay between two iterations");
* the resource has the value of the last point whose date is <= t (piecewise constant, right continuous);
* an activity progresses at the rate the sharing gives it under the *current* values; it ends when the integral reaches its amount.

Nothing here reads SimGrid's own computations; the log of harness/avail.cpp is only used for what the *program* did (when it started
which activity) and for what the API answered (which is what gets judged).
"""
import bisect

INF = float("inf")
PREC_TIMING = 1e-9          # documented precision/timing


# ------------------------------------------------------------------------------------------------------------ profiles
def period_of(profile):
    loop = profile.get("loop")
    if not loop:
        return None
    last = profile["pts"][-1][0]
    return last + loop[1] if loop[0] == "LOOPAFTER" else loop[1]


def expand(profile, horizon):
    """[(date, value)] of every point application with date <= horizon, in application order."""
    pts = profile["pts"]
    out = []
    if not pts:
        return out
    per = period_of(profile)
    k = 0
    while True:
        base = 0.0 if per is None else k * per
        for d, v in pts:
            t = base + d
            if t > horizon:
                return out
            out.append((t, v))
        if per is None:
            return out
        if per <= 0:
            raise ValueError("profile with a null period")
        k += 1


class Step:
    """Piecewise-constant right-continuous function given by its initial value and dated changes (later entries win on ties)."""

    def __init__(self, initial, events):
        self.initial = initial
        self.events = list(events)
        self.dates = [d for d, _ in self.events]

    def at(self, t):
        i = bisect.bisect_right(self.dates, t)
        return self.initial if i == 0 else self.events[i - 1][1]

    def before(self, t):
        i = bisect.bisect_left(self.dates, t)
        return self.initial if i == 0 else self.events[i - 1][1]

    def allowed(self, t, w):
        """Values an observer at date t may legitimately see when dates are only known up to w."""
        if w <= 0:
            return {self.at(t)}
        lo = bisect.bisect_left(self.dates, t - w)
        hi = bisect.bisect_right(self.dates, t + w)
        vals = {self.initial if lo == 0 else self.events[lo - 1][1]}
        for i in range(lo, hi):
            vals.add(self.events[i][1])
        return vals

    def changes_in(self, a, b):
        """Events with a <= date <= b."""
        lo = bisect.bisect_left(self.dates, a)
        hi = bisect.bisect_right(self.dates, b)
        return self.events[lo:hi]

    def next_after(self, t):
        i = bisect.bisect_right(self.dates, t)
        return self.dates[i] if i < len(self.dates) else INF


# ------------------------------------------------------------------------------------------------------------ log
class Log:
    def __init__(self):
        self.samples = []      # (kind 'S'|'T', who, clock, {name: tuple})
        self.cb = []           # (clock, kind, name, values...)
        self.xs, self.xe, self.cs, self.ce = {}, {}, {}, {}
        self.ax = []           # (what, name, clock)
        self.xend, self.cend = {}, {}      # completion dates seen by Exec::on_completion_cb / Comm::on_completion_cb
        self.ops = []          # (actor, clock, op, a, b)
        self.energy = []       # (who, clock, {name: joules})   who = actor or '#final'
        self.done = {}
        self.end = None
        self.bad = []
        self.order = []        # raw record order (kind, key) for sequencing needs


def _state(tok):
    st = {}
    i = 0
    while i < len(tok):
        if tok[i] == "h":
            st[tok[i + 1]] = ("h", float(tok[i + 2]), float(tok[i + 3]), int(tok[i + 4]), int(tok[i + 5]), float(tok[i + 6]))
            i += 7
        elif tok[i] == "l":
            st[tok[i + 1]] = ("l", float(tok[i + 2]), float(tok[i + 3]), int(tok[i + 4]), float(tok[i + 5]))
            i += 6
        else:
            raise ValueError("bad state record %r" % tok[i:i + 3])
    return st


def parse(out):
    lg = Log()
    for line in out.splitlines():
        t = line.split()
        if not t:
            continue
        k = t[0]
        try:
            if k == "S":
                lg.samples.append(("S", t[1], float(t[2]), _state(t[3:])))
            elif k == "T":
                lg.samples.append(("T", "-", float(t[1]), _state(t[2:])))
            elif k == "START":
                lg.start = _state(t[1:])
            elif k == "CB":
                lg.cb.append((float(t[1]), t[2], t[3]) + tuple(float(x) for x in t[4:]))
            elif k == "XS":
                lg.xs[t[1]] = (float(t[2]), t[3])
                lg.order.append(("XS", t[1]))
            elif k == "XE":
                lg.xe[t[1]] = (float(t[2]), t[3], float(t[4]), float(t[5]))
                lg.order.append(("XE", t[1]))
            elif k == "CS":
                lg.cs[t[1]] = float(t[2])
            elif k == "CE":
                lg.ce[t[1]] = (float(t[2]), t[3], float(t[4]), float(t[5]))
            elif k == "AX":
                lg.ax.append((t[1], t[2], float(t[3])))
                if t[1] == "end":
                    lg.xend[t[2]] = float(t[3])
            elif k == "AC":
                lg.cend[t[2]] = float(t[3])
            elif k == "OP":
                lg.ops.append((t[1], float(t[2]), t[3], t[4], t[5]))
                lg.order.append(("OP", len(lg.ops) - 1))
            elif k == "E":
                lg.energy.append((t[1], float(t[2]), {x.split("=")[0]: float(x.split("=")[1]) for x in t[3:]}))
            elif k == "EF":
                lg.energy.append(("#final", float(t[1]), {x.split("=")[0]: float(x.split("=")[1]) for x in t[2:]}))
            elif k == "D":
                lg.done[t[1]] = float(t[2])
            elif k == "END":
                lg.end = float(t[1])
            elif k in ("BADOP", "BADLINE"):
                lg.bad.append(line)
        except (IndexError, ValueError) as e:
            lg.bad.append("unparsable %r (%s)" % (line, e))
    return lg


# ------------------------------------------------------------------------------------------------------------ sharing
def waterfill(capacity, caps):
    """Max-min fair shares of `capacity` between flows of equal weight, flow i being limited to caps[i]."""
    n = len(caps)
    rates = [0.0] * n
    if n == 0:
        return rates
    if capacity == INF:
        return list(caps)
    order = sorted(range(n), key=lambda i: caps[i])
    left = capacity
    k = n
    for pos, i in enumerate(order):
        share = left / k
        if caps[i] <= share:
            rates[i] = caps[i]
            left -= caps[i]
            k -= 1
        else:
            for j in order[pos:]:
                rates[j] = share
            break
    return rates


class Pred:
    __slots__ = ("status", "time", "alts", "tags", "unjudged")

    def __init__(self, status, time):
        self.status, self.time = status, time
        self.alts = []          # other acceptable (status, time)
        self.tags = set()       # features of the history of this activity (zero availability met, bandwidth raised...)
        self.unjudged = None    # reason when the statement does not decide

    def accepts(self, status, time, tol):
        for s, t in [(self.status, self.time)] + self.alts:
            if s == status and (t == time or abs(t - time) <= tol):
                return True
        return False


def tolerance(t):
    # a few precision/timing snaps (an action whose end is within 1e-9 of another event ends with it) + rounding of the double clock
    return 5 * PREC_TIMING + 1e-12 * abs(t)


def simulate_cpu(cores, speed, scale, state, execs, w=0.0, horizon=1e9, forced=None):
    """execs: [{"id", "start", "flops", "bound"(<=0: none)}]; scale/state: Step. -> {id: Pred}.
    Rates: capacity cores*speed*scale shared max-min between the running (single-threaded) executions, each limited to
    min(speed*scale, bound)."""
    pend = sorted(execs, key=lambda x: (x["start"], x["id"]))
    preds = {}
    running = {}        # id -> [remaining, bound]
    t = 0.0
    zero_hit = False
    pi = 0
    guard = 0
    while pi < len(pend) or running:
        guard += 1
        if guard > 100000:
            raise RuntimeError("cpu model does not converge")
        on = state.at(t) > 0
        sc = scale.at(t)
        ids = sorted(running)
        if on and ids:
            caps = [min(speed * sc, running[i][1]) if running[i][1] > 0 else speed * sc for i in ids]
            rates = waterfill(cores * speed * sc, caps)
        else:
            rates = [0.0] * len(ids)
        if ids and sc == 0:
            zero_hit = True
        fin = INF
        for i, r in zip(ids, rates):
            if r > 0:
                fin = min(fin, t + running[i][0] / r)
        nxt = min([fin, scale.next_after(t), state.next_after(t), pend[pi]["start"] if pi < len(pend) else INF] +
                  [forced[i] for i in ids if forced and i in forced and forced[i] > t])
        if nxt == INF or nxt > horizon:
            for i in ids:
                preds[i] = Pred("never", INF)
                preds[i].unjudged = running[i][2]
                if zero_hit:
                    preds[i].tags.add("zero")
            running.clear()
            if pi < len(pend):
                # nothing running, starts still pending: jump
                t = pend[pi]["start"]
                nxt = t
            else:
                break
        finishing = []
        for i, r in zip(ids, rates):
            if i not in running:
                continue
            before = running[i][0]
            running[i][0] -= r * (nxt - t)
            if r > 0 and (t + before / r) <= nxt + 1e-12 * max(1.0, abs(nxt)):
                finishing.append(i)
        t = nxt
        off_now = any(v <= 0 for _, v in state.changes_in(t, t))
        near_off = w > 0 and any(v <= 0 for _, v in state.changes_in(t - w, t + w))
        if forced:
            # activities already reported (or not judged): they leave when SimGrid said they left, so that the others are judged on their own
            for i in list(running):
                if i in forced and forced[i] <= t:
                    if i in finishing:
                        finishing.remove(i)
                    preds[i] = Pred("forced", forced[i])
                    del running[i]
        for i in finishing:
            p = Pred("ok", t)
            if off_now or near_off:
                p.alts.append(("hostfail", t))
            if zero_hit:
                p.tags.add("zero")
            p.unjudged = running[i][2]
            preds[i] = p
            del running[i]
        if off_now or state.at(t) <= 0:
            for i in list(running):
                p = Pred("hostfail", t)
                if zero_hit:
                    p.tags.add("zero")
                p.unjudged = running[i][2]
                preds[i] = p
                del running[i]
        while pi < len(pend) and pend[pi]["start"] <= t:
            x = pend[pi]
            pi += 1
            if w > 0 and state.changes_in(x["start"] - w, x["start"] + w):
                why = "host state changes within precision/timing of the start date"
                if forced and x["id"] in forced and forced[x["id"]] <= x["start"]:
                    preds[x["id"]] = Pred("forced", forced[x["id"]])
                elif state.at(x["start"] + w) > 0:      # follow what the host is after the window
                    running[x["id"]] = [INF if forced and x["id"] in forced else x["flops"], x["bound"], why]
                else:
                    preds[x["id"]] = Pred("hostfail", x["start"])
                    preds[x["id"]].unjudged = why
                continue
            if forced and x["id"] in forced and forced[x["id"]] <= x["start"]:
                preds[x["id"]] = Pred("forced", forced[x["id"]])
            elif state.at(t) <= 0:
                preds[x["id"]] = Pred("hostfail", x["start"])
            else:
                running[x["id"]] = [INF if forced and x["id"] in forced else x["flops"], x["bound"], None]
    return preds


def simulate_route(links, comms, capped=False, w=0.0, horizon=1e9, forced=None):
    """links: [{"name", "policy" 'SHARED'|'FATPIPE', "bw": Step, "lat": Step, "state": Step}] all traversed by every comm;
    comms: [{"id", "start", "size"}] -> {id: Pred}.
    A comm first waits for the sum of the latencies (as they are when it starts), then transfers at
    min(fair share of the SHARED links, bandwidth of the FATPIPE links).
    capped=True is *not* the documented behaviour: it additionally limits every flow to the smallest bandwidth its route had
    when it started (what network_cm02.cpp does through set_user_bound); it is only used to name that deviation precisely."""
    pend = sorted(comms, key=lambda x: (x["start"], x["id"]))
    preds = {}
    flying = {}     # id -> {"lat_end", "rem", "cap"}
    t = 0.0
    pi = 0
    zero_hit = False
    raised_hit = False
    guard = 0

    def all_on(tt):
        return all(l["state"].at(tt) > 0 for l in links)

    while pi < len(pend) or flying:
        guard += 1
        if guard > 100000:
            raise RuntimeError("route model does not converge")
        ids = sorted(i for i in flying if flying[i]["lat_end"] <= t)
        shared = [l["bw"].at(t) for l in links if l["policy"] == "SHARED"]
        fat = [l["bw"].at(t) for l in links if l["policy"] != "SHARED"]
        cs = min(shared) if shared else INF
        cf = min(fat) if fat else INF
        if capped:
            caps = [min(cf, flying[i]["cap"]) for i in ids]
        else:
            caps = [cf for i in ids]
        rates = waterfill(cs, caps) if ids else []
        if ids and min(cs, cf) == 0:
            zero_hit = True
        if ids and any(min(cs, cf) > flying[i]["cap"] for i in ids):
            raised_hit = True
        fin = INF
        for i, r in zip(ids, rates):
            if r > 0:
                fin = min(fin, t + flying[i]["rem"] / r)
        nxt = min([fin, pend[pi]["start"] if pi < len(pend) else INF] +
                  [l["bw"].next_after(t) for l in links] + [l["state"].next_after(t) for l in links] +
                  [flying[i]["lat_end"] for i in flying if flying[i]["lat_end"] > t] +
                  [forced[i] for i in flying if forced and i in forced and forced[i] > t])
        if nxt == INF or nxt > horizon:
            for i in list(flying):
                preds[i] = Pred("never", INF)
                if zero_hit:
                    preds[i].tags.add("zero")
            flying.clear()
            if pi < len(pend):
                t = pend[pi]["start"]
                nxt = t
            else:
                break
        finishing = []
        for i, r in zip(ids, rates):
            before = flying[i]["rem"]
            flying[i]["rem"] -= r * (nxt - t)
            if r > 0 and (t + before / r) <= nxt + 1e-12 * max(1.0, abs(nxt)):
                finishing.append(i)
        t = nxt
        off_now = any(v <= 0 for l in links for _, v in l["state"].changes_in(t, t))
        near_off = w > 0 and any(v <= 0 for l in links for _, v in l["state"].changes_in(t - w, t + w))

        def tag(p):
            if zero_hit:
                p.tags.add("zero")
            if raised_hit:
                p.tags.add("raised")
            return p
        if forced:
            for i in list(flying):
                if i in forced and forced[i] <= t:
                    if i in finishing:
                        finishing.remove(i)
                    preds[i] = Pred("forced", forced[i])
                    del flying[i]
        for i in finishing:
            p = tag(Pred("ok", t))
            if off_now or near_off:
                p.alts.append(("netfail", t))
            if flying[i].get("lat_points"):
                p.tags.add("lat-points-in-latency-phase")
            if flying[i].get("unjudged"):
                p.unjudged = flying[i]["unjudged"]
            preds[i] = p
            del flying[i]
        if off_now or not all_on(t):
            for i in list(flying):
                p = tag(Pred("netfail", t))
                if flying[i].get("unjudged"):
                    p.unjudged = flying[i]["unjudged"]
                preds[i] = p
                del flying[i]
        while pi < len(pend) and pend[pi]["start"] <= t:
            x = pend[pi]
            pi += 1
            s = x["start"]
            unj = None
            if w > 0 and any(l["state"].changes_in(s - w, s + w) for l in links):
                unj = "link state changes within precision/timing of the start date"
            if forced and x["id"] in forced and forced[x["id"]] <= s:
                preds[x["id"]] = Pred("forced", forced[x["id"]])
                continue
            if not all_on(s):
                p = Pred("netfail", s)
                p.unjudged = unj
                preds[x["id"]] = p
                continue
            lat = 0.0
            for l in links:
                lat += l["lat"].at(s)
            # the statement does not say what a latency change does to a message that is still paying the latency
            lat_points = False
            for l in links:
                ch = [(d, v) for d, v in l["lat"].changes_in(s - w, s + lat + w) if not (w == 0 and d == s)]
                if any(v != l["lat"].at(s) for _, v in ch) or (w > 0 and l["lat"].before(s - w) != l["lat"].at(s + w)):
                    unj = unj or "latency of %s changes while the message pays the latency" % l["name"]
                elif ch:
                    lat_points = True     # points that repeat the current value: nothing changes
            if w > 0 and any(l["bw"].changes_in(s - w, s + w) for l in links) and capped:
                unj = unj or "bandwidth changes within precision/timing of the start date"
            cap = min(l["bw"].at(s) for l in links)
            if capped == 2:       # dates only known up to w: the smallest bandwidth seen around the start date
                cap = min(min(l["bw"].allowed(s, w)) for l in links)
            if capped == 3:       # ... or the points dated within w after the start already applied
                cap = min(l["bw"].at(s + w) for l in links)
            flying[x["id"]] = {"lat_end": s + lat, "rem": INF if forced and x["id"] in forced else x["size"], "cap": cap, "unjudged": unj,
                               "lat_points": lat_points}
    return preds


# ------------------------------------------------------------------------------------------------------------ energy
def host_power(spec, on, pstate, load_flops):
    """Documented host power (plugin host_energy): off -> wattage_off; no load -> Idle; else Epsilon + load*(AllCores-Epsilon),
    load = used fraction of the cores at the speed of the current pstate."""
    if not on:
        return spec["off"]
    idle, eps, mx = spec["watts"][pstate]
    if load_flops <= 0:
        return idle
    frac = load_flops / (spec["speeds"][pstate] * spec["cores"])
    frac = min(frac, 1.0)
    return eps + frac * (mx - eps)


def integrate(segments, t):
    """segments: [(t0, t1, power)] sorted; energy consumed in [0, t]."""
    e = 0.0
    for seg in segments:
        a, b, p = seg[0], seg[1], seg[2]
        if a >= t:
            break
        e += p * (min(b, t) - a)
    return e
