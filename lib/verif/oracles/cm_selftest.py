"""Oracle self-test for C39 and C43 (cd /verif/lib && python3 -m verif.oracles.cm_selftest): directed programs are run on the
real checker/application pair, then the combined log is corrupted the way a defective SimGrid would produce it (a field decoded
from the wrong place, two packed fields swapped, an id off by one, a dependency answer flipped, a queue reordered by the other
order of two transitions, ...) and judged again: every corruption must raise a violation of the expected rule that the
untampered log does not raise. Exit status 1 when a corruption goes undetected."""
import re
import sys
import tempfile
import shutil

from verif.oracles import cm_judge as J
from verif.oracles import cm_run as R
from verif.props import C39, C43


class FakeCtx:
    def __init__(self):
        self.v, self.counters = [], {}
        self.tier = "quick"

    def violation(self, key, what, wit):
        self.v.append(key)

    def count(self, k, n=1):
        self.counters[k] = self.counters.get(k, 0) + n

    def evaluation(self, n=1):
        pass

    def nontrivial(self, o):
        pass

    def maximum(self, k, v):
        pass

    def sample(self, o):
        pass

    def inconclusive(self, r, case=None):
        self.v.append("INCONCLUSIVE:" + r)


class Res:
    timed_out, rc, err = False, 0, ""


def keys39(txt, spec):
    c = FakeCtx()
    C39.judge_log(c, J.parse(txt), Res(), spec, {}, "selftest")
    return set(c.v)


def keys43(txt, spec):
    c = FakeCtx()
    C43.judge_log(c, J.parse(txt), Res(), spec, {}, "selftest")
    return set(c.v)


FAILED = []


def T(name, fn_keys, base_txt, spec, corrupt, expect):
    base = fn_keys(base_txt, spec)
    try:
        bad = corrupt(base_txt)
    except LookupError as e:
        print("%-70s -> PATTERN NOT FOUND (%s)" % (name, e))
        FAILED.append(name)
        return
    new = sorted(k for k in fn_keys(bad, spec) if k not in base)
    ok = any(expect in k for k in new)
    print("%-70s -> %s" % (name, new[:3] if ok else "NOT DETECTED (new keys: %s)" % new[:3]))
    if not ok:
        FAILED.append(name)


def sub_line(txt, pred, fn, nth=0):
    lines = txt.split("\n")
    n = 0
    for i, l in enumerate(lines):
        if pred(l):
            if n == nth:
                new = fn(l)
                if new == l:
                    raise LookupError("substitution had no effect on: " + l[:80])
                lines[i] = new
                return "\n".join(lines)
            n += 1
    raise LookupError("no matching line")


def pair_blocks(txt):
    """[(start, end)] line ranges of P..D blocks"""
    lines = txt.split("\n")
    out, st = [], None
    for i, l in enumerate(lines):
        if l.startswith("P "):
            st = i
        elif l.startswith("D ") and st is not None:
            out.append((st, i))
            st = None
    return lines, out


def main():
    tmp = tempfile.mkdtemp(prefix="verif-C39-selftest-")
    try:
        bins = R.binaries()
        specs = {
            "async": C43.DIRECTED[5][1], "mutex": C43.DIRECTED[0][1], "iprobe": C43.DIRECTED[9][1], "waitany": C43.DIRECTED[6][1],
            "mutex3": "mutex 1\nactor L0 U0\nactor L0 U0\nactor L0 T0 U0\n",
        }
        logs = {}
        for n, sp in specs.items():
            res, log, txt = R.run_walk(bins, tmp, "st-" + n, sp, 5, 3, 30, 6 if n == "mutex3" else 0, timeout=900)
            if res.timed_out or not log.ended:
                print("harness failure on", n, res.rc, log.errors)
                return 2
            logs[n] = txt
        print("untampered C43:", {n: sorted(keys43(t, specs[n])) for n, t in logs.items() if keys43(t, specs[n])})
        print("untampered C39:", {n: sorted(keys39(t, specs[n])) for n, t in logs.items() if keys39(t, specs[n])})
        isC = lambda ty: (lambda l: l.startswith("C ") and (" | " + ty + " ") in l)
        # ---- C43
        T("C43 COMM_WAIT: sender and receiver unpacked in the wrong order", keys43, logs["async"], specs["async"],
          lambda t: sub_line(t, lambda l: isC("COMM_WAIT")(l) and not re.search(r"src=(-?\d+) dst=\1 ", l),
                             lambda l: re.sub(r"src=(-?\d+) dst=(-?\d+)", r"src=\2 dst=\1", l, 1)), "C43:fields:COMM_WAIT")
        T("C43 MUTEX_UNLOCK: mutex id off by one", keys43, logs["mutex"], specs["mutex"],
          lambda t: sub_line(t, isC("MUTEX_UNLOCK"), lambda l: re.sub(r"mutex=(\d+)", lambda m: "mutex=%d" % (int(m.group(1)) + 1), l, 1)),
          "C43:fields:MUTEX_UNLOCK")
        T("C43 MUTEX_TRYLOCK decoded as MUTEX_ASYNC_LOCK", keys43, logs["mutex"], specs["mutex"],
          lambda t: sub_line(t, isC("MUTEX_TRYLOCK"), lambda l: l.replace("| MUTEX_TRYLOCK ", "| MUTEX_ASYNC_LOCK ", 1)), "C43:type:")
        T("C43 transition attributed to another actor", keys43, logs["mutex"], specs["mutex"],
          lambda t: sub_line(t, isC("MUTEX_WAIT"), lambda l: re.sub(r"^C (\d+)", lambda m: "C %d" % (int(m.group(1)) + 1), l)), "C43:actor:")
        T("C43 times_considered of a RANDOM lost (truncated to 0)", keys43, C43_actor_log(bins, tmp), C43.DIRECTED[10][1],
          lambda t: sub_line(t, lambda l: l.startswith("C ") and "| RANDOM " in l and not l.split()[2] == "0",
                             lambda l: re.sub(r"^C (\d+) \d+", r"C \1 0", l)), "C43:times:RANDOM")
        T("C43 COMM_IPROBE: tag decoded as 0", keys43, logs["iprobe"], specs["iprobe"],
          lambda t: sub_line(t, isC("COMM_IPROBE"), lambda l: re.sub(r"tag=\d+", "tag=0", l, 1)), "C43:fields:COMM_IPROBE")
        T("C43 COMM_IPROBE: sender/receiver side flag inverted on both sides' records is caught by the program's own record",
          keys43, logs["iprobe"], specs["iprobe"],
          lambda t: flip_iprobe_both(t), "C43:intent:COMM_IPROBE")
        T("C43 WAITANY: one sub-transition dropped", keys43, logs["waitany"], specs["waitany"],
          lambda t: sub_line(t, lambda l: isC("WAITANY")(l) and " n=2 " in l,
                             lambda l: re.sub(r" \{ COMM_WAIT [^}]*\}", "", l.replace(" n=2 ", " n=1 ", 1), 1)), "C43:fields:WAITANY")
        T("C43 COMM_ASYNC_SEND: comm id differs from the one the program got back", keys43, logs["async"], specs["async"],
          lambda t: shift_comm_both(t), "C43:result:")
        T("C43 pending transition: mailbox of a pending isend decoded wrong", keys43, logs["async"], specs["async"],
          lambda t: sub_line(t, lambda l: l.startswith("Q ") and "[[ COMM_ASYNC_SEND" in l,
                             lambda l: re.sub(r"\[\[ COMM_ASYNC_SEND comm=0 mbox=(\d+)", lambda m: "[[ COMM_ASYNC_SEND comm=0 mbox=%d" % (int(m.group(1)) + 1), l, 1)),
          "C43:pending-fields:COMM_ASYNC_SEND")
        T("C43 pending transition: enabled flag of an actor inverted", keys43, logs["mutex"], specs["mutex"],
          lambda t: sub_line(t, lambda l: l.startswith("Q ") and " | 1 1 1 [[" in l, lambda l: l.replace(" | 1 1 1 [[", " | 1 0 1 [[", 1)),
          "C43:pending-enabled")
        # ---- C39
        m3 = logs["mutex3"]
        T("C39 a really non-commuting dependent pair declared independent", keys39, m3, specs["mutex3"],
          lambda t: flip_dep(t, want_noncommuting=True, disabled=False), "C39:noncommute:")
        T("C39 independent pair: the second transition is no longer enabled after the first", keys39, m3, specs["mutex3"],
          lambda t: make_disabled(t), "C39:disables:")
        T("C39 asymmetric answer on a real pair", keys39, m3, specs["mutex3"],
          lambda t: sub_line(t, lambda l: l.startswith("D ") and "sleep=11" in l, lambda l: l.replace("sleep=11", "sleep=10")), "C39:asymmetric:")
        T("C39 independent pair: try_lock answer differs in the second order", keys39, m3, specs["mutex3"],
          lambda t: corrupt_final_state(t, lambda s: re.sub(r"a(\d):(\w+):", lambda m: "a%s:%s:t9=1," % (m.group(1), m.group(2)), s, 1)),
          "C39:noncommute:observations")
        T("C39 independent pair: mutex owner differs in the second order", keys39, m3, specs["mutex3"],
          lambda t: corrupt_final_state(t, lambda s: re.sub(r"M0:o=(-?\d+)", lambda m: "M0:o=%d" % (int(m.group(1)) + 1), s, 1)),
          "C39:noncommute:mutex")
        T("C39 independent pair: an actor stays disabled in the second order (checker view)", keys39, m3, specs["mutex3"],
          lambda t: corrupt_final_q(t), "C39:noncommute:enabled")
        # symmetry matrix
        c = FakeCtx()
        C39.check_symmetry(c, bins[0], "hooks", [(1, 2, 3)], corrupt=True)
        ok = any(k.startswith("C39:asymmetric:") for k in c.v)
        print("%-70s -> %s" % ("C39 one answer of the dispatch_depends matrix flipped", c.v[:2] if ok else "NOT DETECTED"))
        if not ok:
            FAILED.append("sym")
    finally:
        shutil.rmtree(tmp, ignore_errors=True)
    print("FAILED: %s" % FAILED if FAILED else "all corruptions detected")
    return 1 if FAILED else 0


def C43_actor_log(bins, tmp):
    res, log, txt = R.run_walk(bins, tmp, "st-actors", C43.DIRECTED[10][1], 5, 6, 30, 0, timeout=900)
    return txt


def flip_iprobe_both(t):
    """the kernel builds the observer with the wrong kind: application view and checker decoding agree, the program disagrees"""
    def fl(l):
        return re.sub(r"(COMM_IPROBE mbox=\d+ sender=)(\d)", lambda m: m.group(1) + str(1 - int(m.group(2))), l)
    lines = t.split("\n")
    done = False
    for i, l in enumerate(lines):
        if l.startswith("X ") and "COMM_IPROBE" in l and not done:
            f = l.split(" | ")
            f[2] = fl(f[2])
            lines[i] = " | ".join(f)
            lines[i + 1] = fl(lines[i + 1]) if lines[i + 1].startswith("C ") else lines[i + 1]
            done = True
    if not done:
        raise LookupError("no iprobe")
    return "\n".join(lines)


def shift_comm_both(t):
    """isend: observer and decoded transition carry comm+7, the CommPtr handed to the program says otherwise"""
    lines = t.split("\n")
    for i, l in enumerate(lines):
        if l.startswith("X ") and "op=s " in l and "COMM_ASYNC_SEND" in l and lines[i + 1].startswith("C "):
            bump = lambda s: re.sub(r"COMM_ASYNC_SEND comm=(\d+)", lambda m: "COMM_ASYNC_SEND comm=%d" % (int(m.group(1)) + 7), s)
            f = l.split(" | ")
            f[2] = bump(f[2])
            lines[i] = " | ".join(f)
            lines[i + 1] = bump(lines[i + 1])
            return "\n".join(lines)
    raise LookupError("no isend")


def flip_dep(t, want_noncommuting, disabled):
    lines, blocks = pair_blocks(t)
    for st, en in blocks:
        blk = lines[st:en + 1]
        has_n = any(l.startswith("N ") for l in blk)
        if "sleep=11" in lines[en] and has_n == disabled:
            p = J.parse("\n".join(["W 0"] + blk))
            info, _bad = J.judge_pair(p.pairs[0])
            if info["commutes"] is False:
                lines[en] = re.sub(r"=(11)", "=00", lines[en])
                return "\n".join(lines)
    raise LookupError("no dependent non-commuting pair (disabled=%s)" % disabled)


def make_disabled(t):
    for lines, st, en in _indep_complete_blocks(t):
        b2 = [i for i in range(st, en) if lines[i] == "B 2"][0]
        cs = [i for i in range(st, b2) if lines[i].startswith("C ")]
        if len(cs) == 2:
            aid, times = lines[cs[1]].split()[1:3]
            x = cs[1] - 1                      # the application's X record precedes the C record
            return "\n".join(lines[:x] + ["N %s %s" % (aid, times)] + lines[b2:])
    raise LookupError("no independent complete pair")


def _indep_complete_blocks(t):
    lines, blocks = pair_blocks(t)
    for st, en in blocks:
        blk = lines[st:en + 1]
        if "sleep=00" in lines[en] and not any(l.startswith("N ") for l in blk):
            yield lines, st, en


def corrupt_final_state(t, fn):
    for lines, st, en in _indep_complete_blocks(t):
        idx = [i for i in range(st, en) if lines[i].startswith("S ")]
        new = fn(lines[idx[-1]])
        if new != lines[idx[-1]]:
            lines[idx[-1]] = new
            return "\n".join(lines)
    raise LookupError("no independent complete pair")


def corrupt_final_q(t):
    for lines, st, en in _indep_complete_blocks(t):
        idx = [i for i in range(st, en) if lines[i].startswith("Q ")]
        l = lines[idx[-1]]
        new = re.sub(r" \| (\d+) 1 (\d+) \[\[", r" | \1 0 \2 [[", l, 1)
        if new != l:
            lines[idx[-1]] = new
            return "\n".join(lines)
    raise LookupError("no independent complete pair with an enabled actor")


if __name__ == "__main__":
    sys.exit(main())
