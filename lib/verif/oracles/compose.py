"""Independent reference for C24 (hierarchical route composition), written from docs/source/Platform_routing.rst
("Calculating network paths") and the documented behaviour of each zone kind. Nothing here looks at SimGrid's tables:
the only inputs are the declarations recorded by gen.zones.Plat.

  route(a, b):
    L = lowest common ancestor zone of a and b, A_s / A_d = the children of L containing a / b (or L itself)
    1. a bypass route declared in L for (a, b) (both directly in L) or for (A_s, A_d) is used in priority:
         route(a, bypass.gw_src) + bypass links + route(bypass.gw_dst, b)
    2. same zone: the zone's own route
    3. otherwise R = route of L between A_s (or a) and A_d (or b):
         [route(a, R.gw_src) if a is below A_s] + R.links + [route(R.gw_dst, b) if b is below A_d]
    a route from a netpoint to itself inside the recursion is empty (loopbacks are excluded from the recursive search).

Zone-local routes: Full = the declared list (reversed, split-duplex directions flipped, for the symmetrical copy);
Floyd/Dijkstra = the chain of declared routes of minimal link count (unique in the generated trees), gateways of consecutive
hops joined by route(gw_dst(prev), gw_src(next)); Star/Vivaldi = up links of the source then down links of the destination
without repetition, loopback route if declared for a==b; Vivaldi adds (sqrt(dx^2+dy^2)+z_a+z_b) ms to the latency.
"""
import heapq
import math


class NoRoute(Exception):
    pass


class Info:
    """What the derivation of one pair went through (used for non-triviality, keys and the classification of deviations)."""

    def __init__(self):
        self.deep = False            # some recursive call had its gateway in another sub-zone than the one the other end sits in
        self.midseg = 0              # number of zone->gateway segments of >=2 distinct links spliced on the way up, below the top zone
        self.f21 = False             # Dijkstra zone joined two hops whose gateways differ
        self.transit = 0             # hops joined inside a Floyd/Dijkstra zone
        self.transit_spliced = 0     # ... that needed a route between two different gateways of the transit zone
        self.bypass = 0
        self.bypass_in_recursion = False
        self.bypass_gw_is_end = False   # a bypass zone route whose gateway is the source/destination host itself
        self.bypass_self_links = []     # ... and the links of that host's route to itself
        self.ambiguous = False
        self.vivaldi = 0
        self.sym_reversed = 0        # reversed copies of symmetrical declarations used
        self.local_calls = 0
        self.max_depth = 0
        self.lca_kind = None
        self.up = 0                  # levels climbed on the source side at top level
        self.down = 0
        self.default_gw = 0
        self.dijkstra_prepend = False   # a route between two members of one Dijkstra zone is appended to an already started link list
        self.unjudged = None


class Composer:
    def __init__(self, plat):
        self.p = plat
        self.tables = {}
        for z in plat.zone_order:
            kind = plat.zones[z]["kind"]
            if kind in ("full", "floyd", "dijkstra", "dijkstracache"):
                t = {}
                for r in plat.routes[z]:
                    t[(r["src"], r["dst"])] = dict(links=plat.forward(r["links"]), gw_src=r["gw_src"], gw_dst=r["gw_dst"], rev=False,
                                                   default_gw=r.get("default_gw", False))
                    if r["sym"] and r["src"] != r["dst"]:
                        t[(r["dst"], r["src"])] = dict(links=plat.backward(r["links"]), gw_src=r["gw_dst"], gw_dst=r["gw_src"], rev=True,
                                                       default_gw=r.get("default_gw", False))
                self.tables[z] = t
        self.bypass = {}
        for z in plat.zone_order:
            for b in plat.bypass[z]:
                self.bypass[(z, b["src"], b["dst"])] = b
        self._paths = {}

    # -- structure ---------------------------------------------------------------------------------------------------
    def zone_of(self, np):
        return self.p.np[np]["zone"]

    def chain(self, np):
        """Zones containing np, outermost first."""
        return self.p.zone_path(np)

    def lca(self, a, b):
        ca, cb = self.chain(a), self.chain(b)
        i = 0
        while i < len(ca) and i < len(cb) and ca[i] == cb[i]:
            i += 1
        if i == 0:
            raise NoRoute("no common ancestor")
        L = ca[i - 1]
        A_s = ca[i] if i < len(ca) else L
        A_d = cb[i] if i < len(cb) else L
        return L, A_s, A_d, len(ca) - i, len(cb) - i

    # -- zone-local routes -------------------------------------------------------------------------------------------
    def vivaldi_term(self, a, b):
        ca, cb = self.p.coords[a], self.p.coords[b]
        return (math.sqrt((ca[0] - cb[0]) ** 2 + (ca[1] - cb[1]) ** 2) + abs(ca[2]) + abs(cb[2])) / 1000.0

    def shortest_chain(self, zone, a, b, info):
        """Unique chain of declared routes of minimal link count from a to b, or NoRoute. Ties => info.ambiguous."""
        key = (zone, a)
        if key not in self._paths:
            t = self.tables[zone]
            adj = {}
            for (x, y), e in t.items():
                if x != y:
                    adj.setdefault(x, []).append((y, len(e["links"])))
            dist = {a: 0}
            npaths = {a: 1}
            pred = {}
            pq = [(0, a)]
            while pq:
                c, u = heapq.heappop(pq)
                if c > dist.get(u, float("inf")):
                    continue
                for v, w in adj.get(u, ()):
                    nc = c + w
                    if nc < dist.get(v, float("inf")):
                        dist[v] = nc
                        npaths[v] = npaths[u]
                        pred[v] = u
                        heapq.heappush(pq, (nc, v))
                    elif nc == dist.get(v):
                        npaths[v] += npaths[u]
            self._paths[key] = (dist, npaths, pred)
        dist, npaths, pred = self._paths[key]
        if b not in dist:
            raise NoRoute("no chain of declared routes from %s to %s in %s" % (a, b, zone))
        if npaths[b] > 1:
            info.ambiguous = True
        hops = []
        cur = b
        while cur != a:
            hops.append((pred[cur], cur))
            cur = pred[cur]
        hops.reverse()
        return hops

    def local(self, zone, a, b, info, emulate):
        """(links, gw_src, gw_dst, extra latency) of the zone's own route between two of its members."""
        p = self.p
        kind = p.zones[zone]["kind"]
        info.local_calls += 1
        if kind == "full":
            e = self.tables[zone].get((a, b))
            if e is None:
                if a == b and not p.zones[zone]["children"]:
                    return ["__loopback__"], None, None, 0.0
                raise NoRoute("no route declared from %s to %s in Full zone %s" % (a, b, zone))
            if e["rev"]:
                info.sym_reversed += 1
            if e["default_gw"]:
                info.default_gw += 1
            return list(e["links"]), e["gw_src"], e["gw_dst"], 0.0
        if kind in ("floyd", "dijkstra", "dijkstracache"):
            t = self.tables[zone]
            if a == b:
                e = t.get((a, a))
                if e is not None:
                    return list(e["links"]), None, None, 0.0
                if not p.zones[zone]["children"]:
                    return ["__loopback__"], None, None, 0.0
                raise NoRoute("no route from %s to itself in %s" % (a, zone))
            hops = self.shortest_chain(zone, a, b, info)
            links = []
            extra = 0.0
            prev = None
            for (x, y) in hops:
                e = t[(x, y)]
                if e["rev"]:
                    info.sym_reversed += 1
                if e["default_gw"]:
                    info.default_gw += 1
                if prev is not None:
                    info.transit += 1
                    if prev["gw_dst"] is not None and prev["gw_dst"] != e["gw_src"]:
                        info.transit_spliced += 1
                        if kind != "floyd":
                            info.f21 = True
                        l2, x2 = self.route(prev["gw_dst"], e["gw_src"], info, "other", emulate, 1)
                        if self.same_dijkstra_zone(prev["gw_dst"], e["gw_src"]) and links and l2:
                            info.dijkstra_prepend = True
                            if "dijkstra-prepend" in emulate:
                                links, l2 = l2, links
                        links += l2
                        extra += x2
                links += e["links"]
                prev = e
            return links, t[hops[0]]["gw_src"], t[hops[-1]]["gw_dst"], extra
        if kind in ("star", "vivaldi"):
            ents = p.star[zone]
            ea = ents.get(a) or dict(up=[], down=[], loop=None, gw=None)
            eb = ents.get(b) or dict(up=[], down=[], loop=None, gw=None)
            extra = 0.0
            if kind == "vivaldi":
                info.vivaldi += 1
                extra = self.vivaldi_term(a, b)
            if a == b and ea["loop"] is not None:
                return list(ea["loop"]), None, None, extra
            links = []
            for l in ea["up"] + eb["down"]:
                if l not in links:
                    links.append(l)
            return links, ea["gw"], eb["gw"], extra
        raise NoRoute("zone kind %s is not modelled" % kind)

    # -- the documented recursion ------------------------------------------------------------------------------------
    def same_dijkstra_zone(self, a, b):
        return a != b and self.zone_of(a) == self.zone_of(b) and self.p.zones[self.zone_of(a)]["kind"] in ("dijkstra", "dijkstracache")

    def route(self, a, b, info, mode="top", emulate=frozenset(), depth=0, side_top=None):
        """mode: 'top' (a query, or a sub-query SimGrid documents as a full route computation), 'up' (source -> gateway on the
        way up), 'down' (gateway -> destination). emulate=True reproduces the link order of a known deviation (segments spliced
        on the way up below the top zone come out reversed; a Dijkstra zone prepends its route to the list it is given) so that
        these can be told apart from other deviations."""
        p = self.p
        info.max_depth = max(info.max_depth, depth)
        if depth > 40:
            raise NoRoute("recursion too deep")
        if a == b and depth > 0:
            return [], 0.0
        za, zb = self.zone_of(a), self.zone_of(b)
        L, A_s, A_d, nup, ndown = self.lca(a, b)
        if depth == 0:
            info.lca_kind = p.zones[L]["kind"]
            info.up, info.down = nup, ndown
        if depth > 0 and za != zb and mode in ("up", "down"):
            # classification only: a level-by-level descent from the zone that named the gateway (side_top) needs the gateway
            # directly in that zone (or next to the other endpoint)
            g = b if mode == "up" else a
            if self.zone_of(g) != side_top:
                info.deep = True
        # 1. bypass
        bp = None
        if za == L and zb == L:
            bp = self.bypass.get((L, a, b))
        elif A_s != L and A_d != L:
            bp = self.bypass.get((L, A_s, A_d))
        if bp is not None:
            info.bypass += 1
            if mode in ("up", "down"):
                info.bypass_in_recursion = True
            links = []
            extra = 0.0
            if bp["gw_src"]:
                if bp["gw_src"] == a or bp["gw_dst"] == b:
                    info.bypass_gw_is_end = True
                l1, x1 = self.route(a, bp["gw_src"], info, "top", emulate, depth + 1)
                l3, x3 = self.route(bp["gw_dst"], b, info, "top", emulate, depth + 1)
                try:
                    if bp["gw_src"] == a:
                        sl, _, _, sx = self.local(za, a, a, Info(), emulate)
                        info.bypass_self_links += sl
                        if "bypass-endpoint-loopback" in emulate:
                            l1, x1 = sl, sx
                    if bp["gw_dst"] == b:
                        sl, _, _, sx = self.local(zb, b, b, Info(), emulate)
                        info.bypass_self_links += sl
                        if "bypass-endpoint-loopback" in emulate:
                            l3, x3 = sl, sx
                except NoRoute:
                    pass
                dk = ("dijkstra", "dijkstracache")
                if (self.zone_of(bp["gw_dst"]) == zb and p.zones[zb]["kind"] in dk) or (depth > 0 and self.zone_of(bp["gw_src"]) == za and p.zones[za]["kind"] in dk):
                    info.dijkstra_prepend = True
                links = l1 + p.forward(bp["links"])
                zk = p.zones[zb]["kind"]
                if depth == 0 and zk in ("dijkstra", "dijkstracache") and self.zone_of(bp["gw_dst"]) == zb:
                    if l3 or bp["gw_dst"] == b:
                        info.dijkstra_prepend = True
                    if "dijkstra-prepend" in emulate and l3:
                        links, l3 = l3, links
                links = links + l3
                extra = x1 + x3
            else:
                links = p.forward(bp["links"])
            return links, extra
        # 2. same zone
        if za == zb:
            links, _, _, extra = self.local(za, a, b, info, emulate)
            return links, extra
        # 3. through the common ancestor
        s_np = A_s if A_s != L else a
        d_np = A_d if A_d != L else b
        links, gw_s, gw_d, extra = self.local(L, s_np, d_np, info, emulate)
        if mode == "up" and A_s != L and A_d == L:
            distinct = len(set(links)) >= 2 and links != list(reversed(links))
            if distinct:
                info.midseg += 1
                if "up-segment-reversed" in emulate:
                    links = list(reversed(links))
        out = []
        if A_s != L:
            if gw_s is None:
                raise NoRoute("no source gateway for %s in the route of %s" % (A_s, L))
            l1, x1 = self.route(a, gw_s, info, "up", emulate, depth + 1, A_s)
            out += l1
            extra += x1
        out += links
        if A_d != L:
            if gw_d is None:
                raise NoRoute("no destination gateway for %s in the route of %s" % (A_d, L))
            l3, x3 = self.route(gw_d, b, info, "down", emulate, depth + 1, A_d)
            out += l3
            extra += x3
        return out, extra

    def expected(self, a, b, emulate=frozenset()):
        """(links, latency, info) or (None, None, info) with info.unjudged set when the statement/documentation does not
        pin the answer down."""
        info = Info()
        p = self.p
        if a == b:
            z = self.zone_of(a)
            kind = p.zones[z]["kind"]
            if kind == "vivaldi":
                info.unjudged = "loopback of a Vivaldi member"
                return None, None, info
            if p.zones[z]["children"] and kind not in ("star",):
                info.unjudged = "host directly inside a routed zone that has sub-zones"
                return None, None, info
        try:
            links, extra = self.route(a, b, info, "top", emulate, 0)
        except NoRoute as e:
            info.unjudged = "no documented route: %s" % e
            return None, None, info
        if info.ambiguous:
            info.unjudged = "several minimal chains"
            return None, None, info
        if info.bypass_in_recursion:
            info.unjudged = "a bypass route matches a sub-route of the composition"
            return None, None, info
        lat = extra
        for l in links:
            lat += p.link_latency(l)
        return links, lat, info
