"""Offline checker for C10: replays the boundary log of one fault run (harness/faults.cpp) through a small sequential model
(who is alive where, which put matched which get, which activity uses which resource, which resource is on) and demands, event by
event, what the statement promises:

  * when a host goes off every actor on it dies: no further call/return of it, its on_exit runs exactly once, at that date, failed=1;
  * every activity that uses a resource which goes off while the activity is alive (or that starts on a resource which is off)
    is doomed: a surviving actor blocked on it returns *at that date* with the exception of the right family (Network / Host / Storage
    failure); a later wait on it raises that exception at once; no call on it reports success (a completion at exactly the fault date
    is a tie and accepted); test() must not present it as pending for ever nor as successfully finished;
  * no surviving actor is killed, and none stays blocked until the end on a doomed activity;
  * an exception on an activity none of whose resources ever failed is spurious.

Log order is kernel order (sequential kernel, one scheduling round after the other): the n-th put of a mailbox meets the n-th get
(cross-checked against the payload every successful get reports and against Comm::get_sender/get_receiver after every asynchronous
post).  Two reorderings make the log order exact at a fault: (a) with the injector-actor path the calls announced between the
injector's IQ line and the on_onoff signal were announced in the same scheduling round *after* the injector, hence handled after
the state change; (b) Comm::on_completion lines printed just before a host's on_onoff signal come from the kills of that very
turn_off.
"""
from collections import namedtuple

Ev = namedtuple("Ev", "kind clk f idx limbo raw")

FAMILY = {"comm": "NetworkFailure", "exec": "HostFailure", "io": "StorageFailure"}
IO_BW = {"read": 1e8, "write": 5e7, "aread": 1e8, "awrite": 5e7}


class Obj(object):
    __slots__ = ("type", "owner", "host", "lb_end", "snd", "rcv", "mbox", "detached", "matched", "ended", "doom", "ambiguous",
                 "src_host", "dst_host", "handles", "zombie", "start_clk", "off_after_end")

    def __init__(self, type_):
        self.type = type_
        self.owner = None          # (actor, op) for exec / io
        self.host = None           # exec: host; io: host of the disk
        self.lb_end = None         # exec / io: no completion before this date
        self.snd = self.rcv = None  # comm: (actor, op)
        self.mbox = None
        self.detached = False
        self.matched = False
        self.ended = False
        self.doom = None           # {"date", "sure"}
        self.ambiguous = False     # matched with the left-over detached send of a dead actor: nothing is demanded
        self.src_host = self.dst_host = None
        self.handles = set()       # (actor, op) of the asynchronous posts referring to it
        self.zombie = False
        self.start_clk = None
        self.off_after_end = None  # a resource it used that went off after it had completed


def same(a, b):
    """Same simulated date. The kernel's clock may differ by an ulp between a profile event (date taken from the profile) and the
    events that follow (date = previous date + delta): anything below SimGrid's timing precision (1e-9) is the same date.
    The fault points are 1e-6 apart."""
    return abs(a - b) <= 1e-9 * max(1.0, abs(a), abs(b))


def parse(text):
    evs = []
    for ln, raw in enumerate(text.splitlines()):
        t = raw.split()
        if not t:
            continue
        k = t[0]
        if k in ("BEGIN", "DONE"):
            continue
        try:
            clk = float(t[1])
        except (IndexError, ValueError):
            continue
        evs.append(Ev(k, clk, t[2:], ln, False, raw))
    return evs


def reorder(evs, path):
    """See the module docstring: (a) limbo of the injector-actor path, (b) kill-induced completions before a host signal."""
    out = []
    i, n = 0, len(evs)
    while i < n:
        ev = evs[i]
        if ev.kind == "IQ" and path == "A":
            j, found = i + 1, None
            while j < n and evs[j].kind not in ("IR", "IQ", "END", "DL"):
                if evs[j].kind == "S" and evs[j].f[0] == ev.f[1] and evs[j].f[1] == ev.f[2]:
                    found = j
                    break
                j += 1
            if found is None:
                out.append(ev)
                i += 1
                continue
            seg = evs[i + 1:found]
            out.append(ev)
            out += [e for e in seg if e.kind not in ("Q", "K", "F")]
            out.append(evs[found])
            out += [e for e in seg if e.kind == "F"]
            out += [e._replace(limbo=True) for e in seg if e.kind in ("Q", "K")]
            i = found + 1
            continue
        if ev.kind == "S":
            pulled = []
            while out and out[-1].kind == "F" and same(out[-1].clk, ev.clk):
                pulled.append(out.pop())
            out.append(ev)
            out += reversed(pulled)
            i += 1
            continue
        out.append(ev)
        i += 1
    return out


class Drift(Exception):
    """The pairing model disagrees with what the API reports (payload / peer): the run is not judged."""


class Stop(Exception):
    pass


def check(sc, run, text, report, count, trace=None):
    """report(key, what) is called at most once (the first violation of the run); returns the number of demands checked
    (0 = trivial run) or None when the run could not be judged (model drift: count('pairing_drift'))."""
    m = Model(sc, run, report, count)
    if trace is not None:
        m.trace = trace
    try:
        m.play(reorder(parse(text), run["path"]))
    except Stop:
        return None
    except Drift as e:
        count("inconclusive.pairing_drift")
        m.drift = str(e)
        return None
    return m.checked


class Model(object):
    def __init__(self, sc, run, report, count):
        self.sc, self.run, self._report, self.count = sc, run, report, count
        self.na = len(sc["actors"])
        self.host = [a["host"] for a in sc["actors"]]
        self.on = {}
        for i in range(len(sc["hosts"])):
            self.on[("H", i)] = True
        for i in range(len(sc["links"])):
            self.on[("L", i)] = True
        self.route = {}
        for a, b, ls in sc["routes"]:
            self.route[(a, b)] = self.route[(b, a)] = list(ls)
        self.alive = [True] * self.na        # not killed by the model, body not returned
        self.killed = {}                     # actor -> {"date", "x"}
        self.ended = set()                   # actors whose body returned
        self.blocked = {}                    # actor -> {"k", "kind", "objs", "since"}
        self.expect = {}                     # (actor, op) -> {"date", "fams", "objs", "why"}
        self.mbox = {}                       # name -> [Obj] unmatched
        self.handle = {}                     # (actor, op) -> Obj
        self.deadlock = False
        self.checked = 0
        self.drift = None
        self.cur = None
        self.floating = []
        self.fault_dates = set()
        self.started = set()                 # actors whose body began (on_exit callback registered)
        self.trace = []                      # (what, line number): where demands were satisfied (used by the oracle self-test)
        self.end_clk = None
        self.changes_seen = 0

    # -- helpers ---------------------------------------------------------------------------------------------------------
    def report(self, key, what):
        # the injection path is part of the witness class: N none, A actor, T timer, M maestro outside Engine::run, P profile
        self._report("%s:inj=%s" % (key, self.run["path"]), what + " [at log line: %s]" % (self.cur.raw if self.cur else "?"))
        raise Stop()

    def op(self, a, k):
        return self.sc["actors"][a]["ops"][k]

    def links_of(self, o):
        if o.src_host is None or o.dst_host is None or o.src_host == o.dst_host:
            return []
        return self.route.get((o.src_host, o.dst_host), [])

    def off_resource_of(self, o):
        """A resource used by o that is off right now (None if all are on)."""
        if o.type == "comm":
            for h in (o.src_host, o.dst_host):
                if h is not None and not self.on[("H", h)]:
                    return ("H", h)
            for l in self.links_of(o):
                if not self.on[("L", l)]:
                    return ("L", l)
            return None
        if not self.on[("H", o.host)]:
            return ("H", o.host)
        return None

    def uses(self, o, res):
        if o.type == "comm":
            if not o.matched:
                return False
            if res[0] == "H":
                return res[1] in (o.src_host, o.dst_host)
            return res[1] in self.links_of(o)
        return res == ("H", o.host)

    def doom(self, o, clk, sure=True):
        if o.ended or o.doom is not None:
            return
        o.doom = {"date": clk, "sure": sure}
        if not sure or o.ambiguous:
            return
        for a, b in self.blocked.items():
            if self.alive[a] and b["kind"] != "test" and any(x is o for x in b["objs"]):
                e = self.expect.setdefault((a, b["k"]), {"date": clk, "fams": set(), "objs": [], "why": "blocked on it when the resource failed"})
                e["fams"].add(FAMILY[o.type])
                e["objs"].append(o)

    def all_objs(self):
        seen = set()
        for o in self.handle.values():
            if id(o) not in seen:
                seen.add(id(o))
                yield o
        for b in self.blocked.values():
            for o in b["objs"]:
                if id(o) not in seen:
                    seen.add(id(o))
                    yield o
        for q in self.mbox.values():
            for o in q:
                if id(o) not in seen:
                    seen.add(id(o))
                    yield o
        for o in self.floating:
            if id(o) not in seen:
                seen.add(id(o))
                yield o

    # -- state changes ---------------------------------------------------------------------------------------------------
    def change(self, res, is_on, clk):
        if self.on[res] == is_on:
            return
        self.on[res] = is_on
        if is_on:
            self.count("faults.turn_on_applied")
            return
        self.count("faults.turn_off_applied.%s" % ("host" if res[0] == "H" else "link"))
        self.fault_dates.add(clk)
        objs = list(self.all_objs())
        if res[0] == "H":
            for a in range(self.na):
                if self.alive[a] and self.host[a] == res[1]:
                    self.alive[a] = False
                    b = self.blocked.get(a)
                    shared = False
                    for o in (b["objs"] if b else []):
                        if o.type == "comm" and o.matched and o.snd and o.rcv:
                            other = o.rcv[0] if o.snd[0] == a else o.snd[0]
                            shared = shared or self.host[other] == res[1]
                    self.killed[a] = {"date": clk, "x": 0, "tag": "blocked-on-comm-with-actor-of-same-host" if shared else
                                      ("blocked-in-%s" % b["kind"] if b else "not-blocked")}
                    self.blocked.pop(a, None)
                    for key in [key for key in self.expect if key[0] == a]:
                        del self.expect[key]
                    self.count("demands.actor_on_failed_host_must_die")
                    # its unmatched posts leave the mailboxes, except detached sends (they belong to the kernel)
                    for name, q in self.mbox.items():
                        keep = []
                        for o in q:
                            mine = (o.snd and o.snd[0] == a) or (o.rcv and o.rcv[0] == a)
                            if mine and not o.detached:
                                o.ended = True
                                continue
                            if mine:
                                o.zombie = True
                            keep.append(o)
                        self.mbox[name] = keep
        for o in objs:
            if o.ended and o.type == "comm" and o.doom is None and self.uses(o, res):
                o.off_after_end = res
            if o.ended or o.doom is not None or not self.uses(o, res):
                continue
            if o.type == "comm":
                self.doom(o, clk)
            else:
                a = o.owner[0]
                if not self.alive[a]:
                    continue
                waited = a in self.blocked and self.blocked[a]["kind"] != "test" and any(x is o for x in self.blocked[a]["objs"])
                self.doom(o, clk, sure=waited or clk < o.lb_end - 1e-6)

    # -- posts -----------------------------------------------------------------------------------------------------------
    def post(self, a, k, kind, mb, clk):
        side = "S" if kind in ("put", "aput", "dput") else "R"
        q = self.mbox.setdefault(mb, [])
        other = None
        for o in q:
            if (side == "S" and o.rcv is not None and o.snd is None) or (side == "R" and o.snd is not None and o.rcv is None):
                other = o
                break
        if other is None:
            o = Obj("comm")
            o.mbox = mb
            q.append(o)
        else:
            o = other
            q.remove(o)
        if side == "S":
            o.snd = (a, k)
            o.src_host = self.host[a]
            o.detached = kind == "dput"
        else:
            o.rcv = (a, k)
            o.dst_host = self.host[a]
        if kind in ("aput", "aget"):
            o.handles.add((a, k))
            self.handle[(a, k)] = o
        if kind == "dput":
            self.floating.append(o)
        if other is not None:
            o.matched = True
            o.start_clk = clk
            self.count("model.comm_matched")
            if o.zombie:
                o.ambiguous = True
                self.count("model.matched_leftover_detached_send")
            off = self.off_resource_of(o)
            if off is not None:
                self.count("model.comm_started_on_failed_resource")
        return o

    # -- main loop -------------------------------------------------------------------------------------------------------
    def play(self, evs):
        for ev in evs:
            self.cur = ev
            getattr(self, "ev_" + ev.kind, self.ev_other)(ev)
        self.finish()

    def ev_other(self, ev):
        pass

    def ev_S(self, ev):
        self.changes_seen += 1
        self.change((ev.f[0], int(ev.f[1])), ev.f[2] == "1", ev.clk)

    def ev_IR(self, ev):
        res = (ev.f[1], int(ev.f[2]))
        if self.on[res] != (ev.f[3] == "1"):
            # the API call returned but is_on() does not show the requested state and no signal was seen
            self.report("C10:state-change-not-applied:%s" % ("host" if res[0] == "H" else "link"),
                        "after turn_%s() of %s%d is_on() says %s and no on_onoff signal was observed" % (
                            "on" if self.on[res] is False else "off", res[0], res[1], ev.f[3]))

    def ev_B(self, ev):
        a = int(ev.f[0])
        if a in self.killed:
            self.dead_progress(a, ev)
        self.started.add(a)

    def ev_DL(self, ev):
        self.deadlock = True

    def ev_END(self, ev):
        self.end_clk = ev.clk

    def ev_F(self, ev):
        a, k = int(ev.f[0]), int(ev.f[1])
        o = self.handle.get((a, k))
        if o is not None and not o.ended:
            o.ended = True

    def dead_progress(self, a, ev):
        kd = self.killed[a]
        self.report("C10:dead-actor-progress:%s" % ev.kind, "actor %d was on host H%d which went off at %.17g, yet it still produces the event %r"
                    % (a, self.host[a], kd["date"], ev.raw))

    def ev_Q(self, ev):
        a, k, kind = int(ev.f[0]), int(ev.f[1]), ev.f[2]
        if a in self.killed:
            if ev.limbo:
                return      # announced in the very scheduling round of the turn_off, after the injector: never handled
            self.dead_progress(a, ev)
        args = ev.f[3:]
        objs = []
        blocking = True
        pending_doom = []
        if kind in ("put", "get", "aput", "aget", "dput"):
            o = self.post(a, k, kind, args[0], ev.clk)
            objs = [o]
            blocking = kind in ("put", "get")
            if o.matched and not o.ended and o.doom is None and self.off_resource_of(o) is not None:
                pending_doom.append((o, True))
        elif kind in ("exec", "rexec", "aexec"):
            o = Obj("exec")
            o.owner = (a, k)
            if kind == "exec":
                o.host, fl = self.host[a], float(args[0])
            else:
                o.host, fl = int(args[0]), float(args[1])
            o.lb_end = ev.clk + fl / self.sc["hosts"][o.host]["speed"]
            o.start_clk = ev.clk
            objs = [o]
            blocking = kind != "aexec"
            if kind == "aexec":
                self.handle[(a, k)] = o
            if not self.on[("H", o.host)]:
                self.count("model.exec_started_on_failed_host")
                pending_doom.append((o, True))
        elif kind in ("read", "write", "aread", "awrite"):
            o = Obj("io")
            o.owner = (a, k)
            o.host = int(args[0])
            o.lb_end = ev.clk + float(args[1]) / IO_BW[kind]
            o.start_clk = ev.clk
            objs = [o]
            blocking = kind in ("read", "write")
            if not blocking:
                self.handle[(a, k)] = o
            if not self.on[("H", o.host)]:
                self.count("model.io_started_on_failed_disk")
                pending_doom.append((o, True))
        elif kind == "wait":
            o = self.handle.get((a, int(args[0])))
            objs = [o] if o is not None else []
        elif kind == "test":
            o = self.handle.get((a, int(args[0])))
            objs = [o] if o is not None else []
            blocking = False
        elif kind == "waitany":
            objs = [self.handle[(a, int(x))] for x in args if (a, int(x)) in self.handle]
        elif kind == "join":
            objs = []
        if blocking or kind == "test":
            self.blocked[a] = {"k": k, "kind": kind, "objs": objs, "since": ev.clk, "args": args}
        for o, sure in pending_doom:      # the waiter is registered first so that the demand reaches both sides
            self.doom(o, ev.clk, sure)
        if kind in ("wait", "waitany"):
            # waiting for something that already failed: the exception is due at once
            bad = [o for o in objs if o.doom is not None and o.doom["sure"] and not o.ambiguous]
            good = [o for o in objs if o.ended and o.doom is None]
            if bad and not (kind == "waitany" and good):
                self.expect[(a, k)] = {"date": ev.clk, "fams": set(FAMILY[o.type] for o in bad), "objs": bad,
                                       "why": "waits for an activity that failed earlier (at %.17g)" % bad[0].doom["date"]}

    def ev_K(self, ev):
        a = int(ev.f[0])
        if a in self.killed and not ev.limbo:
            self.dead_progress(a, ev)

    def ev_Z(self, ev):
        a = int(ev.f[0])
        if a in self.killed:
            self.dead_progress(a, ev)
        self.alive[a] = False
        self.ended.add(a)
        self.blocked.pop(a, None)

    def ev_X(self, ev):
        a, failed = int(ev.f[0]), ev.f[1] == "1"
        if a in self.killed:
            kd = self.killed[a]
            kd["x"] += 1
            if kd["x"] > 1:
                self.report("C10:on-exit-twice", "the on_exit callback of actor %d (killed by the failure of H%d) ran twice" % (a, self.host[a]))
            if not failed:
                self.report("C10:on-exit-flag", "actor %d was killed by the failure of its host H%d at %.17g but its on_exit callback saw failed=false"
                            % (a, self.host[a], kd["date"]))
            if not same(ev.clk, kd["date"]):
                self.report("C10:on-exit-late", "actor %d was killed by the failure of its host H%d at %.17g but its on_exit callback ran at %.17g"
                            % (a, self.host[a], kd["date"], ev.clk))
            self.checked += 1
            self.count("checked.killed_actor_on_exit_failed_true_at_fault_date")
            if a in self.started:      # otherwise the callback is not demanded (killed before its registration returned)
                self.trace.append(("kill_x", ev.idx))
            return
        if a in self.ended:
            return
        if self.deadlock:
            return
        # a surviving actor dies although its body did not return and no deadlock was declared
        b = self.blocked.get(a)
        e = self.expect.get((a, b["k"])) if b else None
        if e is not None or (b and any(o.doom is not None for o in b["objs"])):
            o = (e["objs"] if e else [o for o in b["objs"] if o.doom is not None])[0]
            self.report("C10:killed-instead-of-exception:%s:%s" % (o.type, b["kind"]),
                        "actor %d on H%d (which is on) was blocked in %s on a %s activity that uses the failed host H%s; instead of getting %sException it "
                        "was killed at %.17g (on_exit failed=%d, body never returned)" % (a, self.host[a], b["kind"], o.type,
                                                                                          o.host if o.type != "comm" else "%s/%s" % (o.src_host, o.dst_host),
                                                                                          FAMILY[o.type], ev.clk, failed))
        self.report("C10:survivor-killed:%s" % (b["kind"] if b else "running"), "actor %d on H%d (on) terminated at %.17g without returning from its body "
                    "(on_exit failed=%d) although no resource it uses failed; it was %s" % (a, self.host[a], ev.clk, failed,
                                                                                          "blocked in %s" % b["kind"] if b else "not blocked"))

    def ev_W(self, ev):
        pass    # handled with the R line of the waitany (the W line follows it)

    def ev_R(self, ev):
        a, k, kind, res = int(ev.f[0]), int(ev.f[1]), ev.f[2], ev.f[3]
        if a in self.killed:
            self.dead_progress(a, ev)
        kv = dict(x.split("=", 1) for x in ev.f[4:] if "=" in x)
        exc = ev.f[4] if res == "exc" else None
        b = self.blocked.pop(a, None)
        if b is None or b["k"] != k:
            b = {"k": k, "kind": kind, "objs": [], "since": ev.clk}
        e = self.expect.pop((a, k), None)
        objs = b["objs"]

        if kind in ("aput", "aget", "aexec", "aread", "awrite", "dput"):
            if exc:
                self.report("C10:spurious-failure:%s" % kind, "starting an asynchronous activity threw %s" % exc)
            if kind in ("aput", "aget"):
                o = self.handle[(a, k)]
                peer = int(kv.get("peer", "-1"))
                other = o.rcv if kind == "aput" else o.snd
                want = other[0] if (o.matched and other) else -1
                # The return line is printed in the run phase that follows the handling of the post, possibly after the announcements of
                # actors that ran earlier in that phase (already in the model, not yet handled by the kernel): the API may lag behind the
                # model (-1), but whenever it names a peer the model must name the same one.
                if peer != -1:
                    if peer != want:
                        raise Drift("peer of %s by actor %d op %d: API says %d, model says %d" % (kind, a, k, peer, want))
                    self.count("model.peer_crosscheck")
            return

        if kind in ("sleep", "yield", "lock", "unlock", "join"):
            if exc:
                self.report("C10:spurious-failure:%s" % kind, "%s() by actor %d threw %s although it involves no failed resource" % (kind, a, exc))
            return

        if kind == "test":
            o = objs[0] if objs else None
            if o is None:
                return
            sure = o.doom is not None and o.doom["sure"] and not o.ambiguous
            if exc:
                self.judge_exc(a, k, kind, [o], exc, ev, e)
                o.ended = True
                return
            if kv.get("val") == "0":
                if sure and ev.clk > o.doom["date"] and not same(ev.clk, o.doom["date"]):
                    self.report("C10:test-pending-on-failed:%s" % o.type, "test() by actor %d at %.17g says the %s activity is still pending although a "
                                "resource it uses failed at %.17g" % (a, ev.clk, o.type, o.doom["date"]))
                return
            # val=1: the failure must at least be visible in the state of the activity
            if sure and not same(ev.clk, o.doom["date"]) and kv.get("state") != "FAILED":
                self.report("C10:test-masks-failure:%s" % o.type,
                            "a resource used by the %s activity of actor %d op %s failed at %.17g; test() at %.17g returns true without any exception and "
                            "the activity's state reads %s%s: the failure is never reported to this actor" % (
                                o.type, a, b.get("args", ["?"])[0], o.doom["date"], ev.clk, kv.get("state"),
                                (", the received payload is " + kv["payload"]) if "payload" in kv else ""))
            if not (sure and kv.get("state") == "FAILED"):
                self.complete_ok(a, k, kind, o, kv, ev)
            else:
                o.ended = True
                self.checked += 1
                self.count("checked.test_shows_failed_state")
            return

        if kind == "waitany":
            if exc:
                self.judge_exc(a, k, kind, objs, exc, ev, e)
                return
            which = int(kv.get("which", "-1"))
            o = self.handle.get((a, which))
            if e is not None:
                if not same(ev.clk, e["date"]):
                    self.late(a, k, kind, e, ev)
                self.checked += 1
                self.count("checked.wait_any_returns_at_fault_date")
            if o is not None:
                self.judge_ok(a, k, kind, o, ev, None)
                self.complete_ok(a, k, kind, o, kv, ev)
            return

        # blocking put/get/exec/rexec/read/write and wait
        o = objs[0] if objs else None
        if exc:
            self.judge_exc(a, k, kind, objs, exc, ev, e)
            if o is not None:
                o.ended = True
            return
        if o is None:
            return
        self.judge_ok(a, k, kind, o, ev, e)
        self.complete_ok(a, k, kind, o, kv, ev)

    # -- judgements --------------------------------------------------------------------------------------------------------
    def late(self, a, k, kind, e, ev):
        o = e["objs"][0]
        self.report("C10:late-report:%s:%s" % (self.tname(o), kind), "actor %d %s: %s; the failure was due at %.17g but %s() only returned at %.17g (%s)"
                    % (a, self.desc(o), e["why"], e["date"], kind, ev.clk, " ".join(ev.f[3:])))

    def desc(self, o):
        if o.type == "comm":
            return "comm %r -> %r on mailbox %s (H%s -> H%s, links %r)" % (o.snd, o.rcv, o.mbox, o.src_host, o.dst_host, self.links_of(o))
        return "%s of actor %d op %d on H%d" % (o.type, o.owner[0], o.owner[1], o.host)

    def judge_exc(self, a, k, kind, objs, exc, ev, e):
        doomed = [o for o in objs if o.doom is not None or o.ambiguous]
        explained = [o for o in doomed if FAMILY[o.type] == exc]
        if e is not None and exc in e["fams"]:
            if not same(ev.clk, e["date"]):
                self.late(a, k, kind, e, ev)
            self.checked += 1
            self.count("checked.exception_at_due_date.%s.%s" % (e["objs"][0].type, kind))
            self.trace.append(("exc_due", ev.idx))
            for o in e["objs"]:
                o.ended = True
            return
        if explained:
            # the exception of another member of the set that (possibly) failed too
            if e is not None and not same(ev.clk, e["date"]):
                self.late(a, k, kind, e, ev)
            self.count("observed.exception_on_possibly_failed_activity")
            if kind != "waitany":
                for o in explained:
                    o.ended = True
            return
        done = [o for o in objs if o.type == "comm" and o.ended and o.doom is None and (o.off_after_end or self.off_resource_of(o))]
        if done and exc == "NetworkFailure":
            o = done[0]
            res = o.off_after_end or self.off_resource_of(o)
            self.report("C10:completed-comm-reported-failed:%s:%s" % (kind, exc), "%s had completed (its other side was told so) before %s%d went off, "
                        "yet %s() by actor %d at %.17g throws %s for it" % (self.desc(o), res[0], res[1], kind, a, ev.clk, exc))
        if e is not None:
            self.report("C10:wrong-exception:%s:%s" % (e["objs"][0].type, exc), "actor %d %s() on %s: expected %s, got %s" % (
                a, kind, self.desc(e["objs"][0]), "/".join(sorted(e["fams"])), exc))
        if doomed:
            self.report("C10:wrong-exception:%s:%s" % (doomed[0].type, exc), "actor %d %s() on %s: expected %s, got %s" % (
                a, kind, self.desc(doomed[0]), FAMILY[doomed[0].type], exc))
        self.report("C10:spurious-failure:%s:%s" % (kind, exc), "actor %d %s() threw %s at %.17g but no resource used by %s is or was off" % (
            a, kind, exc, ev.clk, "; ".join(self.desc(o) for o in objs) or "it"))

    def tname(self, o):
        return "comm-detached" if (o.type == "comm" and o.detached) else o.type

    def judge_ok(self, a, k, kind, o, ev, e):
        sure = o.doom is not None and o.doom["sure"] and not o.ambiguous
        if sure:
            if same(ev.clk, o.doom["date"]):
                self.count("ties.completion_at_fault_date_accepted")
                return
            self.report("C10:success-on-failed-resource:%s:%s" % (self.tname(o), kind), "%s used a resource that failed at %.17g while it was alive%s, yet %s() "
                        "by actor %d reports success at %.17g" % (self.desc(o), o.doom["date"], " (%s)" % e["why"] if e else "", kind, a, ev.clk))
        if e is not None:
            # the demand was attached to another member of a wait_any set
            if not same(ev.clk, e["date"]):
                self.late(a, k, kind, e, ev)
        if o.doom is None and self.fault_dates:
            self.count("observed.unaffected_activity_completed_after_a_fault")
            if kind in ("get", "put", "wait", "rexec"):
                self.trace.append(("plain_ok", ev.idx))

    def complete_ok(self, a, k, kind, o, kv, ev):
        o.ended = True
        if o.type == "comm" and "payload" in kv and kv["payload"] != "null":
            uid = int(kv["payload"])
            if o.snd != (uid // 1000, uid % 1000):
                raise Drift("payload %d received by actor %d op %d but the model paired it with %r" % (uid, a, k, o.snd))
            self.count("model.payload_crosscheck")
        elif o.type == "comm" and kv.get("payload") == "null" and not (o.doom or o.ambiguous):
            self.report("C10:success-without-payload", "actor %d %s() reports success but no payload was delivered (%s)" % (a, kind, self.desc(o)))

    # -- end of run -------------------------------------------------------------------------------------------------------
    def finish(self):
        self.cur = None
        fs = self.run["faults"]
        if self.run["path"] in "PT" and len(fs) == 1 and self.end_clk is not None and self.changes_seen == 0 and fs[0]["t_off"] < self.end_clk - 1e-6:
            # the simulation went past the date of the state profile event / timer and the resource never changed state
            self.report("C10:state-change-not-applied:%s" % ("host" if fs[0]["kind"] == "H" else "link"), "%s%d was to be turned off at %.17g by %s; the simulation "
                        "ran until %.17g and no on_onoff signal was ever observed" % (fs[0]["kind"], fs[0]["idx"], fs[0]["t_off"],
                                                                                  "its state profile" if self.run["path"] == "P" else "a kernel timer", self.end_clk))
        for a, kd in sorted(self.killed.items()):
            if kd["x"] == 0 and a in self.started:
                self.report("C10:on-exit-missing:%s" % kd["tag"], "actor %d was on H%d which went off at %.17g (it was %s); its on_exit callback never ran: "
                            "it was never terminated" % (a, self.host[a], kd["date"], kd["tag"]))
        for (a, k), e in sorted(self.expect.items()):
            if not self.alive[a]:
                continue
            o = e["objs"][0]
            b = self.blocked.get(a, {"kind": "?"})
            self.report("C10:never-reported:%s:%s" % (self.tname(o), b["kind"]), "actor %d %s: %s; the failure was due at %.17g but %s() never returned (the actor was still "
                        "blocked when the simulation ended)" % (a, self.desc(o), e["why"], e["date"], b["kind"]))
        for a, b in sorted(self.blocked.items()):
            if self.alive[a] and b["kind"] == "join":
                t = int(self.op(a, b["k"])[1])
                if t in self.killed:
                    self.report("C10:never-reported:join", "actor %d is still blocked in join(actor %d) at the end although that actor died with its host at %.17g"
                                % (a, t, self.killed[t]["date"]))
