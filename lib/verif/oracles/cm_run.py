"""Runner shared by C39 and C43: builds harness/cm_chk.cpp + harness/cm_app.cpp, runs one program under the checker-side
harness and parses the combined log; a /proc based hang detector for runs of the real simgrid-mc; directed programs."""
import os
import signal
import subprocess
import time

from verif import build, proc
from verif.oracles import cm_judge as J

FLAVOUR = "hooks"


def binaries():
    chk = build.harness("cm_chk.cpp", FLAVOUR, internal=True)
    app = build.harness("cm_app.cpp", FLAVOUR, internal=True)
    return chk, app


def run_walk(bins, tmpdir, name, spec_text, seed, walks, depth, pairs, timeout=600):
    """-> (proc result, parsed Log, raw log text)"""
    chk, app = bins
    sp = os.path.join(tmpdir, name + ".spec")
    lg = os.path.join(tmpdir, name + ".log")
    with open(sp, "w") as f:
        f.write(spec_text)
    if os.path.exists(lg):
        os.remove(lg)
    env = {"CM_MODE": "walk", "VERIF_CM_LOG": lg, "CM_SEED": str(seed), "CM_WALKS": str(walks), "CM_DEPTH": str(depth),
           "CM_PAIRS": str(pairs)}
    res = proc.run([chk, "--log=root.thres:critical", app, sp], timeout=timeout, env=env)
    txt = ""
    if os.path.exists(lg):
        with open(lg, errors="replace") as f:
            txt = f.read()
        os.remove(lg)
    return res, J.parse(txt), txt


def run_sym(chk, text, timeout=300):
    # Channel::unpack<T>() loads at unaligned offsets (wire format): UBSan is told to go on (cf. C42), ASan reports are judged
    return proc.run([chk], stdin=text, timeout=timeout,
                    env={"CM_MODE": "sym", "UBSAN_OPTIONS": "print_stacktrace=0:halt_on_error=0:exitcode=87"})


# ----------------------------------------------------------------------------------------------------------------------
# hang detector: "completes or reports a clear error instead of hanging"

def _group_stats(pgid):
    """(total cpu ticks, all processes sleeping?, number of processes) of the process group"""
    ticks, sleeping, n = 0, True, 0
    for d in os.listdir("/proc"):
        if not d.isdigit():
            continue
        try:
            with open("/proc/%s/stat" % d) as f:
                st = f.read()
        except OSError:
            continue
        rp = st.rfind(")")
        f = st[rp + 2:].split()
        # f[0]=state f[2]=pgrp f[11]=utime f[12]=stime
        if int(f[2]) != pgid:
            continue
        n += 1
        ticks += int(f[11]) + int(f[12])
        if f[0] not in ("S", "Z", "t", "T"):
            sleeping = False
    return ticks, sleeping, n


def run_watch(cmd, quiet_s, budget_s, env=None):
    """Runs cmd in its own process group. Verdict:
       ("exit", rc, out)     the command ended;
       ("hang", None, out)   every process of the group was asleep and the group consumed no CPU for quiet_s seconds;
       ("budget", None, out) neither within budget_s (inconclusive)."""
    e = dict(os.environ)
    e.update(env or {})
    p = subprocess.Popen(cmd, stdout=subprocess.PIPE, stderr=subprocess.STDOUT, env=e, start_new_session=True, text=True,
                         errors="replace")
    pgid = p.pid
    t0 = time.time()
    last_ticks, quiet_since = None, None
    verdict = None
    while True:
        try:
            p.wait(timeout=0.5)
            verdict = "exit"
            break
        except subprocess.TimeoutExpired:
            pass
        ticks, sleeping, n = _group_stats(pgid)
        now = time.time()
        if sleeping and n > 0 and ticks == last_ticks:
            if quiet_since is None:
                quiet_since = now
            elif now - quiet_since >= quiet_s:
                verdict = "hang"
                break
        else:
            quiet_since = None
        last_ticks = ticks
        if now - t0 > budget_s:
            verdict = "budget"
            break
    # also after a normal end: forked application processes may outlive an aborted checker and keep the pipe open
    try:
        os.killpg(pgid, signal.SIGKILL)
    except OSError:
        pass
    try:
        out, _ = p.communicate(timeout=60)
    except subprocess.TimeoutExpired:
        out = "(output not available)"
    return verdict, (p.returncode if verdict == "exit" else None), out
