"""Oracle for C28: validity of an observed point-to-point matching against the MPI rules named in the statement.

Input: the generated case (gen/p2p.py) and the log printed by harness/mpi/p2p.c. The oracle never predicts *which* message a
wildcard receive gets; it checks that what was observed is allowed:
  * every completed receive got a message sent to that rank on the same communicator whose source/tag fit the receive pattern;
  * status source / tag / count are those of that message, the bytes are its bytes, nothing else of the buffer was written;
  * a message longer than the receive buffer gives MPI_ERR_TRUNCATE (through the return code, or MPI_ERR_IN_STATUS + status
    for the multiple-completion calls) and never writes past the buffer; a fitting message never gives an error;
  * non-overtaking: for two messages M1 then M2 of one sender to one receiver on one communicator, a receive that also matches
    M1 must not get M2 if M1 is received by a receive posted later (posting order = program order of the receiving rank);
  * probes answer with the envelope and size of the message the following receive gets, and do not skip an earlier matching
    message of the same sender;
  * every message is received exactly once, every receive completes, the run ends normally (the programs are deadlock-free).
"""
from verif.gen import p2p as G

SINGLE_APIS = {0, 1, 3, 4, 6, 9}      # Recv, Wait, Waitany, Test, Testany, Sendrecv: the return code carries the error
APINAME = {0: "Recv", 1: "Wait", 2: "Waitall", 3: "Waitany", 4: "Test", 5: "Testall", 6: "Testany", 7: "Waitsome", 8: "Testsome",
           9: "Sendrecv"}


def group(case, ci, w):
    c = case["comms"][ci]
    if c["kind"] != "split":
        return list(range(case["np"]))
    if c["color"][w] < 0:
        return None
    mem = [x for x in range(case["np"]) if c["color"][x] == c["color"][w]]
    return sorted(mem, key=lambda x: (c["key"][x], x))


def tables(case):
    sends, recvs, probes = {}, {}, {}
    for r, ops in enumerate(case["ops"]):
        for i, op in enumerate(ops):
            if op[0] == 1:
                _, kind, ci, dest, tag, ln, mid, _s = op
                dst = None if dest == G.PROC_NULL else group(case, ci, r)[dest]
                if dst is not None:
                    sends[mid] = {"mid": mid, "src": r, "dst": dst, "ci": ci, "tag": tag, "len": ln, "seq": i, "kind": kind}
            elif op[0] == 2:
                _, kind, ci, src, tag, cap, _s = op
                recvs[(r, i)] = {"rank": r, "op": i, "ci": ci, "src": src, "tag": tag, "cap": cap, "kind": kind}
            elif op[0] == 3:
                _, ci, dest, stag, slen, mid, src, rtag, cap = op
                if dest != G.PROC_NULL:
                    sends[mid] = {"mid": mid, "src": r, "dst": group(case, ci, r)[dest], "ci": ci, "tag": stag, "len": slen, "seq": i,
                                  "kind": 9}
                recvs[(r, i)] = {"rank": r, "op": i, "ci": ci, "src": src, "tag": rtag, "cap": cap, "kind": 9}
            elif op[0] == 4:
                _, kind, ci, src, tag = op
                probes[(r, i)] = {"rank": r, "op": i, "ci": ci, "src": src, "tag": tag, "kind": kind}
    return sends, recvs, probes


def sizeclass(case, m):
    """Class of a message in the violation keys. smpi/async-small-thresh = 0: 'rdv' (synchronous or >= detached threshold) or
    'eager'. With async-small-thresh = a > 0 (two mailboxes per rank), two letters: the mailbox in which the message waits when
    no receive is posted yet (L: len >= a or synchronous send, S otherwise) and its length class (l: len >= a, s: len < a -
    the sender of an 's' message looks for a posted receive in the large mailbox first). Possible values: Ll, Ls, Ss."""
    a = case["a"]
    if a > 0:
        return ("L" if (m["len"] >= a or m["kind"] in (1, 4)) else "S") + ("l" if m["len"] >= a else "s")
    return "rdv" if (m["len"] >= case["d"] or m["kind"] in (1, 4)) else "eager"


def check(case, out, consts=None):
    """Returns (violations [(key, what)], stats dict). consts come from the H line of the log."""
    cfg = "async=0" if case["a"] == 0 else "async>0:" + case["mode"]
    vio = []
    stats = {"recv_completions": 0, "probe_answers": 0, "wildcard_recvs": 0, "truncations": 0, "order_pairs": 0, "msgs": 0,
             "probed_recvs": 0, "nondeterministic_choices": 0}

    def bad(key, what, suffix=True):
        vio.append(("C28:%s:%s" % (key, cfg) if suffix else "C28:" + key, what))

    def capclass(c):
        return "" if case["a"] == 0 else ("L" if c >= case["a"] else "S")

    sends, recvs, probes = tables(case)
    stats["msgs"] = len(sends)
    H = None
    rrec, prec, erec, done, crash = {}, {}, [], set(), []
    for line in out.splitlines():
        t = line.split()
        if not t:
            continue
        try:
            if t[0] == "H":
                H = dict(zip(("SUCCESS", "TRUNCATE", "IN_STATUS", "PROC_NULL", "ANY_TAG", "ANY_SOURCE"), map(int, t[1:7])))
            elif t[0] == "r" and len(t) == 16:
                v = list(map(int, t[1:]))
                k = (v[0], v[1])
                if k in rrec:
                    bad("recv:completed-twice", "receive op %s completed twice" % (k,))
                rrec[k] = dict(zip(("rank", "op", "api", "rc", "src", "tag", "count", "sterr", "crc", "first", "guard", "cap", "wlen", "wfirst", "wcrc"), v))
                rrec[k]["order"] = len(rrec)
            elif t[0] == "p" and len(t) == 8:
                v = list(map(int, t[1:]))
                prec[(v[0], v[1])] = dict(zip(("rank", "op", "kind", "flag", "src", "tag", "count"), v))
            elif t[0] == "e":
                erec.append(line)
            elif t[0] == "DONE":
                done.add(int(t[1]))
            elif t[0] == "CRASH":
                crash.append(line)
        except ValueError:
            pass
    if H is None:
        H = {"SUCCESS": 0, "TRUNCATE": 9, "IN_STATUS": 19, "PROC_NULL": -666, "ANY_TAG": -444, "ANY_SOURCE": -555}
    for line in erec:
        bad("error-code:" + line.split()[3], "unexpected MPI error code: " + line)
    for line in crash:
        bad("crash", line)

    # resolve probed patterns and identify the message of every completed receive
    received = {}         # mid -> recv key
    match = {}            # recv key -> message (strongly identified: by the bytes of the message)
    weak = {}             # recv key -> message assumed for the exactly-once accounting only (nothing in the bytes identifies it)
    lastprobe = {}
    for k in sorted(prec):
        lastprobe.setdefault(k[0], []).append(k)
    info = {}
    for k, o in sorted(rrec.items(), key=lambda kv: kv[1]["order"]):
        R = recvs.get(k)
        if R is None:
            bad("harness:unknown-recv", "record for an op that is not a receive: %s" % (o,))
            continue
        stats["recv_completions"] += 1
        q, ci = R["rank"], R["ci"]
        g = group(case, ci, q)
        if R["src"] == G.PROC_NULL:
            if (o["src"], o["tag"], o["count"]) != (H["PROC_NULL"], H["ANY_TAG"], 0) or o["rc"] != H["SUCCESS"]:
                bad("status:proc-null", "receive from MPI_PROC_NULL answered %s" % (o,))
            continue
        psrc, ptag = R["src"], R["tag"]
        pr = None
        if psrc == G.PROBED or ptag == G.PROBED:
            pk = [x for x in lastprobe.get(q, []) if x[1] < R["op"]]
            pr = prec.get(pk[-1]) if pk else None
            if pr is None or not pr["flag"]:
                bad("harness:probe-missing", "no probe answer before op %s" % (k,))
                continue
            psrc_c, ptag = pr["src"], pr["tag"]
            stats["probed_recvs"] += 1
        else:
            psrc_c = psrc
        psrc_w = G.ANY if psrc_c == G.ANY else (g[psrc_c] if 0 <= psrc_c < len(g) else None)
        if psrc_w == G.ANY or ptag == G.ANY:
            stats["wildcard_recvs"] += 1
        R["eff"] = (psrc_w, ptag)
        lost = o["src"] == H["ANY_SOURCE"]          # an emptied status
        info[k] = {"pr": pr, "lost": lost, "ssrc_w": g[o["src"]] if 0 <= o["src"] < len(g) else None}
    # pass 1: >= 4 bytes in the buffer: the message id is in the bytes
    order = [k for k, _ in sorted(rrec.items(), key=lambda kv: kv[1]["order"]) if k in info]
    for k in order:
        o = rrec[k]
        n = min(max(o["count"], 0), o["cap"])
        if n >= 4:
            mid = o["first"]
        elif info[k]["lost"] and o["wlen"] >= 4:
            mid = o["wfirst"]
        else:
            continue
        if mid not in sends:
            bad("bytes:unknown-message", "op %s: the received bytes belong to no sent message: %s" % (k, o))
            info[k]["dead"] = True
        elif mid in received:
            bad("match:duplicate", "message %d received twice (ops %s and %s)" % (mid, received[mid], k))
            info[k]["dead"] = True
        else:
            received[mid] = k
            match[k] = sends[mid]
    # pass 2: 1..3 bytes: the low bytes of the id; pass 3: no byte at all: only the envelope of the status (weak)
    def nbytes(k):
        return rrec[k]["wlen"] if info[k]["lost"] else min(max(rrec[k]["count"], 0), rrec[k]["cap"])

    for k in sorted(order, key=lambda k: (nbytes(k) == 0, rrec[k]["order"])):
        if k in match or info[k].get("dead"):
            continue
        o, R = rrec[k], recvs[k]
        q, ci = R["rank"], R["ci"]
        n = nbytes(k)
        cands = [m for m in sends.values() if m["dst"] == q and m["mid"] not in received and
                 (m["len"] == n or m["len"] > o["cap"]) and G.crc(m["mid"], n) == (o["wcrc"] if info[k]["lost"] else o["crc"])]
        env = [m for m in cands if m["ci"] == ci and (info[k]["lost"] or (m["src"] == info[k]["ssrc_w"] and m["tag"] == o["tag"]))]
        env.sort(key=lambda m: ((m["len"] > o["cap"]) != (H["TRUNCATE"] in (o["rc"], o["sterr"])), m["seq"]))
        if n >= 1 and len(cands) == 1:
            received[cands[0]["mid"]] = k
            match[k] = cands[0]
        elif n >= 1 and len(env) == 1:
            received[env[0]["mid"]] = k
            match[k] = env[0]
        elif env:
            received[env[0]["mid"]] = k
            weak[k] = env[0]
            stats["weakly_identified"] = stats.get("weakly_identified", 0) + 1
        else:
            bad("bytes:unknown-message", "op %s: no sent message fits what was received: %s" % (k, o))
    for k in order:
        o, R = rrec[k], recvs[k]
        q, ci = R["rank"], R["ci"]
        g = group(case, ci, q)
        psrc_w, ptag = R["eff"]
        pr, ssrc_w, cap = info[k]["pr"], info[k]["ssrc_w"], o["cap"]
        if info[k]["lost"]:
            bad("status:lost:%s" % APINAME.get(o["api"]), "rank %d op %d: the receive completed through %s with an empty status (source=MPI_ANY_SOURCE, "
                "tag=%d, count=%d) although %d bytes arrived in its buffer" % (q, R["op"], APINAME.get(o["api"]), o["tag"], o["count"], o["wlen"]),
                suffix=False)
        M = match.get(k)
        if M is None:
            continue
        desc = "rank %d op %d %s(src=%s,tag=%s,cap=%d,comm=%d) got message %d (from %d tag %d len %d comm %d %s)" % (
            q, R["op"], APINAME.get(o["api"], "?"), psrc_w, ptag, cap, ci, M["mid"], M["src"], M["tag"], M["len"], M["ci"],
            sizeclass(case, M))
        if M["ci"] != ci:
            bad("match:incompatible-comm", desc)
            continue
        if M["dst"] != q:
            bad("match:wrong-destination", desc)
            continue
        if psrc_w != G.ANY and psrc_w != M["src"]:
            bad("match:incompatible-source", desc)
        if ptag != G.ANY and ptag != M["tag"]:
            bad("match:incompatible-tag", desc)
        if info[k]["lost"]:
            continue
        if ssrc_w != M["src"]:
            bad("status:source", desc + " but status.MPI_SOURCE=%d" % o["src"])
        if o["tag"] != M["tag"]:
            bad("status:tag", desc + " but status.MPI_TAG=%d" % o["tag"])
        multi = o["api"] not in SINGLE_APIS
        if M["len"] <= cap:
            err = (o["rc"] != H["SUCCESS"]) if not multi else (o["rc"] == H["IN_STATUS"] and o["sterr"] != H["SUCCESS"]) or (
                o["rc"] not in (H["SUCCESS"], H["IN_STATUS"]))
            if err:
                bad("truncate:spurious:%s" % APINAME.get(o["api"]), desc + " rc=%d status.MPI_ERROR=%d" % (o["rc"], o["sterr"]))
            if o["count"] != M["len"]:
                bad("status:count", desc + " but MPI_Get_count=%d" % o["count"])
            elif o["crc"] != G.crc(M["mid"], M["len"]):
                bad("bytes:corrupt", desc + ": received bytes differ from the sent ones")
            if not o["guard"]:
                bad("bytes:guard", desc + ": bytes outside the received count were modified")
        else:
            stats["truncations"] += 1
            ok = (o["rc"] == H["TRUNCATE"]) if not multi else (o["rc"] == H["IN_STATUS"] and o["sterr"] == H["TRUNCATE"])
            if not ok and o["sterr"] == H["TRUNCATE"]:
                # the status carries MPI_ERR_TRUNCATE but the call itself returned MPI_SUCCESS (or not MPI_ERR_IN_STATUS)
                bad("truncate:rc-success:%s" % APINAME.get(o["api"]), desc + ": the call returned %d (MPI_SUCCESS) although "
                    "status.MPI_ERROR=%d (MPI_ERR_TRUNCATE)" % (o["rc"], o["sterr"]), suffix=False)
            elif not ok:
                bad("truncate:not-reported:%s" % APINAME.get(o["api"]), desc + " rc=%d status.MPI_ERROR=%d" % (o["rc"], o["sterr"]))
            if not o["guard"]:
                bad("bytes:overflow-on-truncate", desc + ": bytes outside the buffer/count were modified")
        # probe answer vs the message actually received
        if pr is not None:
            if (pr["src"], pr["tag"], pr["count"]) != (g.index(M["src"]), M["tag"], M["len"]):
                bad("probe:status", "probe answered (src=%d,tag=%d,count=%d) but the receive with that envelope got: %s" % (
                    pr["src"], pr["tag"], pr["count"], desc))

    # probes: compatibility and order
    for k, pr in sorted(prec.items()):
        P = probes.get(k)
        if P is None:
            continue
        stats["probe_answers"] += 1
        if not pr["flag"]:
            continue
        q, ci = P["rank"], P["ci"]
        g = group(case, ci, q)
        sw = g[pr["src"]] if 0 <= pr["src"] < len(g) else None
        pw = G.ANY if P["src"] == G.ANY else g[P["src"]]
        if (pw != G.ANY and pw != sw) or (P["tag"] != G.ANY and P["tag"] != pr["tag"]) or sw is None:
            bad("probe:incompatible", "rank %d op %d probe(src=%s,tag=%s,comm=%d) answered src=%s tag=%d" % (q, k[1], pw, P["tag"], ci, sw, pr["tag"]))
            continue
        cands = [m for m in sends.values() if m["dst"] == q and m["ci"] == ci and m["src"] == sw and m["tag"] == pr["tag"] and
                 m["len"] == pr["count"]]
        if not cands:
            bad("probe:no-such-message", "rank %d op %d probe answered src=%s tag=%d count=%d: no such message was sent" % (
                q, k[1], sw, pr["tag"], pr["count"]))
            continue
        # the message seen = the one the next (probed) receive got, when there is one
        nxt = (q, k[1] + 1)
        if nxt in match and recvs[nxt]["src"] == G.PROBED:
            M2 = match[nxt]
            for M1 in sends.values():
                if M1["src"] == M2["src"] and M1["dst"] == q and M1["ci"] == ci and M1["seq"] < M2["seq"] and \
                        (P["tag"] == G.ANY or P["tag"] == M1["tag"]) and M1["mid"] in received and received[M1["mid"]] in match and \
                        received[M1["mid"]][1] > k[1]:
                    bad("probe-overtake:%s:first=%s:second=%s" % ("any_tag" if P["tag"] == G.ANY else "tag", sizeclass(case, M1),
                                                                   sizeclass(case, M2)),
                        "rank %d op %d probe(src=%s,tag=%s,comm=%d) answered message %d (tag %d len %d) although message %d (tag %d len %d) "
                        "was sent earlier by the same rank %d, matches the probe and was still unreceived" % (
                            q, k[1], pw, P["tag"], ci, M2["mid"], M2["tag"], M2["len"], M1["mid"], M1["tag"], M1["len"], M1["src"]))
                    break

    # non-overtaking: a receive that got M2 although an earlier message M1 of the same sender (same destination and communicator)
    # also fits its pattern and went to a receive posted later. Every such pair is counted; one violation is reported per
    # receive, against the *earliest* overtaken message (the one the receive should have got at the latest), so that the key
    # names the root pair and not the pairs that follow from it (a message queued behind the overtaken one is overtaken too).
    byrc = {}
    for k, M in match.items():
        byrc.setdefault((k[0], M["ci"], M["src"]), []).append((M["seq"], k, M))
    for (q, ci, s), lst in sorted(byrc.items()):
        lst.sort()
        for j in range(len(lst)):
            _, kb, M2 = lst[j]
            Rb = recvs[kb]
            es, et = Rb["eff"]
            first = None
            for i in range(j):
                _, ka, M1 = lst[i]
                stats["order_pairs"] += 1
                if et == G.ANY or et == M1["tag"]:
                    stats["order_pairs_matching"] = stats.get("order_pairs_matching", 0) + 1
                    if kb[1] < ka[1] and first is None:
                        first = (ka, M1)
            if first is not None:
                ka, M1 = first
                caps = "" if case["a"] == 0 else ":bufs=%s-then-%s" % (capclass(rrec[kb]["cap"]), capclass(rrec[ka]["cap"]))
                bad("overtake:recv=%s:first=%s:second=%s%s" % ("any_tag" if et == G.ANY else "tag", sizeclass(case, M1),
                                                                sizeclass(case, M2), caps),
                    "rank %d: receive op %d (src=%s,tag=%s,cap=%d,comm=%d) got message %d (tag %d, len %d, sent second) while message %d "
                    "(tag %d, len %d, sent first by the same rank %d, also matching) went to the later receive op %d (cap=%d)" % (
                        q, kb[1], es, et, rrec[kb]["cap"], ci, M2["mid"], M2["tag"], M2["len"], M1["mid"], M1["tag"], M1["len"], s,
                        ka[1], rrec[ka]["cap"]))
    complete = len(done) == case["np"]
    if complete:
        for mid, m in sends.items():
            if mid not in received and not any(v[0].startswith("C28:bytes:unknown") or v[0].startswith("C28:harness") for v in vio):
                bad("match:lost", "message %d (from %d to %d tag %d len %d comm %d) was never received although the run completed" % (
                    mid, m["src"], m["dst"], m["tag"], m["len"], m["ci"]))
                break
        for k in recvs:
            if k not in rrec:
                bad("recv:no-completion", "receive op %s never completed although the run ended" % (k,))
                break
    stats["complete"] = complete
    return vio, stats
