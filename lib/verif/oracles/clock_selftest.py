"""Oracle self-test for C03 (cd /verif/lib && python3 -m verif.oracles.clock_selftest): the directed programs are run on the real
kernel, their recorded streams must be accepted (apart from the open known finding), and each stream corrupted the way a defective
kernel would produce it (a date shifted by 1e-9..1e-6, a clock one ulp lower, a dropped timer firing, ...) must be rejected with
the expected rule. Exit status 1 when a corruption goes undetected."""
import copy
import math
import sys

from verif.oracles import clock as oracle
from verif.props import C03

FAILED=[]
ds=C03.directed()
runs=C03.run_chunk("hooks",[("d%d"%i,sc) for i,sc in enumerate(ds)])
base={}
for i,sc in enumerate(ds):
    vio,st=oracle.check(sc,runs["d%d"%i]); base[i]=[k for k,_ in vio]
print("untampered:",{i:v for i,v in base.items() if v})
def find(recs,pred,nth=0):
    n=0
    for i,r in enumerate(recs):
        if pred(r):
            if n==nth: return i
            n+=1
    raise SystemExit("pattern not found")
def T(name,di,fn):
    run=copy.deepcopy(runs["d%d"%di]); fn(run["recs"])
    vio,st=oracle.check(ds[di],run)
    new=[k for k,_ in vio if k not in base[di]]
    print("%-58s -> %s"%(name,new or "NOT DETECTED"))
    if not new: FAILED.append(name)
# 1 sleep returns 1e-6 late (record clock shifted, and all later records consistent -> shift every later clock too would hide; shift only A)
def t1(recs):
    i=find(recs,lambda r:r[0]=="A" and r[2][:2]==["1","1"]); k,c,f=recs[i]; recs[i]=(k,c+1e-6,f)
T("sleep return date +1e-6 (one record)",1,t1)
# 2 whole stream after a sleeping period shifted by +2e-9 coherently (D delta increased): only the sleep rule can see it
def t2(recs):
    i=find(recs,lambda r:r[0]=="D" and float(r[2][0])>0,1)
    for j in range(i,len(recs)):
        k,c,f=recs[j]
        if j==i: f=[repr(float(f[0])+3e-9)]
        recs[j]=(k,c+3e-9,f)
T("time advance lengthened by 3e-9, stream coherent",0,t2)
# 3 sleep returns 2e-9 early coherently (solo)
def t3(recs):
    i=find(recs,lambda r:r[0]=="D" and float(r[2][0])>0.05,0)
    for j in range(i,len(recs)):
        k,c,f=recs[j]
        if j==i: f=[repr(float(f[0])-2.5e-9)]
        recs[j]=(k,c-2.5e-9,f)
T("time advance shortened by 2.5e-9, stream coherent",0,t3)
# 4 timer fires before its date: date in the Q record pushed 1e-9 later
def t4(recs):
    i=find(recs,lambda r:r[0]=="Q" and r[2][2]=="t" and float(r[2][3])>r[1]); k,c,f=recs[i]; f=list(f); f[3]=repr(float(f[3])+1e-9); recs[i]=(k,c,f)
T("timer asked 1e-9 later than it fired",1,t4)
def t5(recs):
    i=find(recs,lambda r:r[0]=="Q" and r[2][2]=="t" and float(r[2][3])>r[1]); k,c,f=recs[i]; f=list(f); f[3]=repr(float(f[3])-1e-9); recs[i]=(k,c,f)
T("timer asked 1e-9 earlier than it fired",1,t5)
def t6(recs):
    i=find(recs,lambda r:r[0]=="F"); del recs[i]
T("one timer firing dropped",1,t6)
# 7 clock decreases by one ulp at a hook record
def t7(recs):
    i=find(recs,lambda r:r[0]=="H" and r[1]>0.2); k,c,f=recs[i]; recs[i]=(k,math.nextafter(c,0),f)
T("hook record reads clock one ulp lower",1,t7)
# 8 negative delta / mismatch
def t8(recs):
    i=find(recs,lambda r:r[0]=="D" and float(r[2][0])>0); k,c,f=recs[i]; recs[i]=(k,c,[repr(float(f[0])*(1+1e-15))])
T("on_time_advance delta off by 1e-15 relative",1,t8)
# 9 kill 1e-6 late
def t9(recs):
    i=find(recs,lambda r:r[0]=="TM" and r[2][0]=="3")
    for j in (i-1,i):
        k,c,f=recs[j]; recs[j]=(k,c+1e-6,f)
T("killed actor terminates 1e-6 after its kill time",1,t9)
# 10 finish before start
def t10(recs):
    i=find(recs,lambda r:r[0]=="A" and any(x.startswith("fi=") and float(x[3:])>0 for x in r[2])); k,c,f=recs[i]
    f=[("fi="+repr(float(x[3:])-0.5)) if x.startswith("fi=") else x for x in f]; recs[i]=(k,c,f)
T("activity finish date reported 0.5 s earlier",8,t10)
def t11(recs):
    i=find(recs,lambda r:r[0]=="A" and any(x.startswith("fi=") and float(x[3:])>0 for x in r[2])); k,c,f=recs[i]
    f=[("fi="+repr(float(x[3:])+1e-9)) if x.startswith("fi=") else x for x in f]; recs[i]=(k,c,f)
T("wait returns 1e-9 before the reported finish date",8,t11)
def t12(recs):
    i=find(recs,lambda r:r[0]=="AS" and float(r[2][2])>0.01); k,c,f=recs[i]; f=list(f); f[2]=repr(float(f[2])-1e-3); recs[i]=(k,c,f)
T("start time reported before the creation date",8,t12)
def t13(recs):
    i=find(recs,lambda r:r[0]=="H" and r[2][0]=="1" and float(r[2][1])>0); k,c,f=recs[i]; recs[i]=(k,c,[f[0],repr(c)])
T("pending timer dated now at a where=1 hook",1,t13)
def t14(recs):
    i=find(recs,lambda r:r[0]=="RU"); k,c,f=recs[i]; recs[i]=(k,c,[repr(float(f[0])-1e-9)])
T("run_until returns 1e-9 after its date",1,t14)
def t15(recs):
    i=find(recs,lambda r:r[0]=="A" and r[2][:2]==["1","2"]); k,c,f=recs[i]
    for j in range(i,len(recs)):
        k,c,f=recs[j]; recs[j]=(k,c+1e-12,f)
T("sleep_for(0) takes 1e-12",0,t15)

if FAILED:
    print("UNDETECTED:", FAILED)
    sys.exit(1)
print("all %d corruptions detected" % 15)
