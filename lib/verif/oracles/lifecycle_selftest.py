"""Oracle self-test for C11: corrupt real boundary logs of harness/lifecycle.cpp and confirm that the checker fires.

usage (from /verif):  python3 lib/verif/oracles/lifecycle_selftest.py
Runs the directed scenarios on the unchanged tree (hooks flavour), checks that their logs are accepted, then applies one
corruption at a time - each mimics what a faulty kernel would log - and requires the expected violation key.
Nothing under /repo is touched. Exit status 0 iff every corruption is detected with the expected key.
"""
import os
import sys

sys.path.insert(0, os.path.join(os.path.dirname(os.path.abspath(__file__)), "..", ".."))
from verif import build, proc                      # noqa: E402
from verif.gen import lifecycle as gen             # noqa: E402
from verif.oracles import lifecycle as oracle      # noqa: E402


def keys_of(out):
    bad = []
    oracle.check(out, lambda k, w: bad.append(k), lambda *a: None)
    return bad


def lines(out):
    return [(l.split() + ["", ""])[:max(3, len(l.split()))] for l in out.splitlines() if l.strip()]


def join(ls):
    return "\n".join(" ".join(x for x in l if x != "") for l in ls) + "\n"


def shift_clock(ls, pred, delta, first_only=True):
    done = False
    for l in ls:
        if pred(l) and not (done and first_only):
            l[1] = repr(float(l[1]) + delta)
            done = True
    return done


def corruptions(idx, out):
    """yield (name, corrupted log, expected key prefix)"""
    ls = lines(out)

    def fresh():
        return [list(l) for l in ls]

    # --- JOIN: a return later / earlier than min(termination, call + t)
    for delta, k in ((1e-6, "C11:join:late"), (-1e-6, "C11:join:early")):
        c = fresh()
        js = [i for i, l in enumerate(c) if l[0] == "R" and len(l) > 4 and l[4] == "join"]
        for n, i in enumerate(js[:3]):
            d = [list(l) for l in c]
            d[i][1] = repr(float(d[i][1]) + delta)
            yield "join#%d return shifted by %g" % (n, delta), join(d), k
    # --- ON_EXIT
    es = [i for i, l in enumerate(ls) if l[0] == "E"]
    for a, b in zip(es, es[1:]):
        if b == a + 1 and ls[a][2] == ls[b][2] and ls[a][5] == ls[b][5]:
            c = fresh()
            c[a], c[b] = c[b], c[a]
            yield "two on_exit callbacks of actor %s swapped (forward order)" % ls[a][2], join(c), "C11:on_exit:order"
            c = fresh()
            del c[b]
            yield "one on_exit callback of actor %s dropped" % ls[a][2], join(c), "C11:on_exit:missing"
            c = fresh()
            c.insert(b, list(c[b]))
            yield "one on_exit callback of actor %s run twice" % ls[a][2], join(c), "C11:on_exit:twice"
            c = fresh()
            c[a][4] = "1" if c[a][4] == "0" else "0"
            yield "failed flag of a callback of actor %s flipped" % ls[a][2], join(c), "C11:on_exit:failed-flag"
            c = fresh()
            t = [i for i, l in enumerate(c) if l[0] == "T" and l[2] == ls[a][2]][0]
            e = c.pop(a)
            c.insert(t, e)            # t shifted by one after the pop: lands right after the T line
            yield "a callback of actor %s run after its termination signal" % ls[a][2], join(c), "C11:"
            break
    # --- DAEMON: the daemon outlives the last regular actor
    daemons = {l[2] for l in ls if (l[0] == "B" and l[4] == "1") or (l[0] in "QR" and len(l) > 4 and l[4] == "daemonize")}
    end_clk = float([l for l in ls if l[0] == "END"][0][1])
    for d in sorted(daemons):
        t = [i for i, l in enumerate(ls) if l[0] == "T" and l[2] == d]
        if t and idx in (1, 4):
            c = fresh()
            c = [l for i, l in enumerate(c) if not (i == t[0] or (l[0] == "E" and l[2] == d))]
            yield "daemon %s never killed" % d, join(c), "C11:daemon:survives-last-regular"
            break
    # --- KILL TIME: death one second after the kill time
    if idx == 1:
        c = fresh()
        pid = [l[2] for l in c if l[0] == "R" and l[3] == "-1" and l[4] == "killtime"][0]
        t = [i for i, l in enumerate(c) if l[0] == "T" and l[2] == pid][0]
        moved = [l for l in c if l[2] == pid and l[0] in ("E", "T")]
        c = [l for l in c if not (l[2] == pid and l[0] in ("E", "T"))]
        at = [i for i, l in enumerate(c) if float(l[1]) > float(moved[0][1]) + 0.4][0]
        newclk = c[at][1]
        for m in moved:
            m[1] = newclk
        c[at:at] = moved
        yield "actor %s dies after its kill time" % pid, join(c), "C11:killtime:survived"
        # death before the kill time, without a cause
        c = fresh()
        moved = [l for l in c if l[2] == pid and l[0] in ("E", "T")]
        c = [l for l in c if not (l[2] == pid and l[0] in ("E", "T"))]
        at = [i for i, l in enumerate(c) if float(l[1]) >= 0.5][0]
        for m in moved:
            m[1] = c[at][1]
        c[at:at] = moved
        yield "actor %s dies before its kill time" % pid, join(c), "C11:spurious-death"
    # --- KILL: the victim survives the kill / runs after it
    for i, l in enumerate(ls):
        if l[0] == "R" and len(l) > 4 and l[4] == "kill":
            q = [x for x in ls[:i] if x[0] == "Q" and x[2] == l[2] and x[3] == l[3]][-1]
            v = q[5]
            if any(x[0] == "T" and x[2] == v and x[1] == q[1] for x in ls):
                c = fresh()
                moved = [x for x in c if x[2] == v and x[0] in ("E", "T")]
                c = [x for x in c if not (x[2] == v and x[0] in ("E", "T"))]
                endi = [k for k, x in enumerate(c) if x[0] == "END"][0]
                for m in moved:
                    m[1] = c[endi][1]
                c[endi:endi] = moved
                yield "victim %s of kill dies at the end of the run only" % v, join(c), "C11:kill:survived"
                c = fresh()
                c.insert(i + 1, ["R", l[1], v, "0", "sleep"])
                yield "victim %s returns from a call after the kill returned" % v, join(c), "C11:"
                break
    # --- SUSPEND: a return while suspended, exec progress, remaining work
    for i, l in enumerate(ls):
        if l[0] == "R" and len(l) > 5 and l[4] == "suspend" and idx != 7:     # directed[7]: ambiguous suspensions by design
            v = l[5]
            nxt = [k for k in range(i + 1, len(ls)) if ls[k][0] == "Q" and len(ls[k]) > 5 and ls[k][4] == "resume" and ls[k][5] == v]
            if nxt and float(ls[nxt[0]][1]) > float(l[1]):
                c = fresh()
                c.insert(nxt[0], ["R", c[nxt[0] - 1][1], v, "0", "sleep"])
                yield "suspended actor %s returns from a call before being resumed" % v, join(c), "C11:suspended:ran"
                rem = [x for x in ls[i + 1:nxt[0]] if x[0] == "r" and x[2] == l[2] and x[3] == l[3]]
                if rem and float(rem[0][6]) > 0:
                    c = fresh()
                    c[nxt[0]][6] = repr(float(c[nxt[0]][6]) - 1e8)
                    yield "exec of suspended actor %s progressed by 1e8 flops" % v, join(c), "C11:suspended:remaining-changed"
                    c = fresh()
                    r = [k for k in range(nxt[0], len(c)) if c[k][0] == "R" and c[k][2] == v and c[k][4] == "exec"][0]
                    # the exec ends as if the suspension had not happened
                    susp = float(ls[nxt[0]][1]) - float(l[1])
                    e = c.pop(r)
                    e[1] = repr(float(e[1]) - susp)
                    at = [k for k, x in enumerate(c) if float(x[1]) > float(e[1])][0]
                    # keep it after the resume request so that only the duration rule can fire
                    at = max(at, [k for k, x in enumerate(c) if x is not e and x[0] == "R" and len(x) > 4 and x[4] == "resume"][0] + 1)
                    c.insert(at, e)
                    yield "exec of actor %s kept running while suspended" % v, join(c), "C11:"
                break


def main():
    exe = build.harness("lifecycle.cpp", "hooks", internal=True)
    total = missed = 0
    seen = set()
    for idx, sc in enumerate(gen.DIRECTED):
        res = proc.run([exe, "--log=root.thres:critical"], stdin=gen.to_text(sc), timeout=300)
        base = keys_of(res.out)
        if res.rc != 0 or base:
            print("directed[%d]: not accepted on the unchanged tree: rc=%s %r" % (idx, res.rc, base))
            missed += 1
            continue
        for name, bad, expect in corruptions(idx, res.out):
            total += 1
            got = keys_of(bad)
            ok = bool(got) and got[0].startswith(expect)
            seen.update(got[:1])
            print("%s directed[%d] %-70s -> %s" % ("ok  " if ok else "MISS", idx, name, got[:1] or "accepted"))
            if not ok:
                missed += 1
    print("%d corruptions, %d not detected as expected; distinct keys fired: %s" % (total, missed, sorted(seen)))
    return 1 if missed or total < 10 else 0


if __name__ == "__main__":
    sys.exit(main())
