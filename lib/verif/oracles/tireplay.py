"""Oracle of C37: run a ti_prog script online with time-independent tracing, replay the trace, compare the timelines.

case = {"np": n, "hosts": [host of rank 0, ...], "platform": xml text, "cfg": [--cfg=...], "events": [[script lines]...]}

Observation points
 * online: ti_prog prints, per rank, the simulated date after every MPI call (%.17g) and the date just before MPI_Finalize;
 * replay: `--log=smpi_replay.thres:verbose` makes the replay tool log every action when it ends; the log layout
   `R|%a|%.22r|%m` gives the rank (actor name) and the simulated date with 22 decimals.
The k-th traced call of rank r online corresponds to the k-th logged action of rank r in the replay (init and finalize are
not logged; a wait/test on an already completed request is not traced).

Tolerance: |online - replay| <= 1e-9 s + 1e-12 * date. 1e-9 s is `precision/timing`, the resolution below which the
simulation kernel itself merges dates; the relative term covers the last bits of large dates. Nothing more is granted
because nothing is lost in the trace for the programs generated here: counts, ranks and tags are integers printed in
full, datatypes are ids, and sleep durations are generated with at most 6 significant digits (the writer prints doubles
with the default stream precision). In practice the dates are bit-identical (counter `dates_bit_identical`).
"""
import os
import re

from verif import build, proc

ABS_TOL = 1e-9
REL_TOL = 1e-12
ALIAS = {"sendrecv": "sendRecv", "reducescatterblock": "reducescatter", "gatherz": "gather", "scatterz": "scatter"}
LOGFMT = "--log=smpi_replay.fmt:R|%a|%.22r|%m%n"
COMMON = ["--cfg=smpi/simulate-computation:no", "--cfg=smpi/wtime:0", "--log=root.thres:error"]


def tol(t):
    return ABS_TOL + REL_TOL * abs(t)


def write_case(d, case, events=None, close=False):
    from verif.gen import tigen
    os.makedirs(d, exist_ok=True)
    with open(os.path.join(d, "plat.xml"), "w") as f:
        f.write(case["platform"])
    with open(os.path.join(d, "hf"), "w") as f:
        f.write("\n".join(case["hosts"]) + "\n")
    with open(os.path.join(d, "script"), "w") as f:
        f.write(tigen.script(case["events"] if events is None else events, close))


def run_online(d, case, timeout):
    exe = build.smpicc("mpi/ti_prog.c", "hooks")
    cmd = [build.smpirun("hooks"), "-np", str(case["np"]), "-hostfile", os.path.join(d, "hf"), "-platform",
           os.path.join(d, "plat.xml"), "-trace-ti", "--cfg=tracing/filename:" + os.path.join(d, "tr"),
           "--cfg=tracing/smpi/sleeping:yes"] + COMMON + list(case["cfg"]) + [exe, os.path.join(d, "script")]
    return proc.run(cmd, timeout=timeout, cwd=d)


def run_replay(d, case, timeout):
    cmd = [build.smpirun("hooks"), "-np", str(case["np"]), "-hostfile", os.path.join(d, "hf"), "-platform",
           os.path.join(d, "plat.xml"), "-replay", os.path.join(d, "tr")] + COMMON + list(case["cfg"]) + \
          ["--log=smpi_replay.thres:verbose", LOGFMT]
    return proc.run(cmd, timeout=timeout, cwd=d)


def parse_online(text, np_):
    """-> dict rank -> list of (name, emits, date, aux), dict rank -> final date, set of ranks that passed MPI_Finalize."""
    acts = {r: [] for r in range(np_)}
    fin, done = {}, set()
    for l in text.splitlines():
        p = l.split()
        if len(p) == 7 and p[0] == "A":
            acts[int(p[1])].append((p[3], int(p[4]), float(p[5]), int(p[6])))
        elif len(p) == 3 and p[0] == "F":
            fin[int(p[1])] = float(p[2])
        elif len(p) == 2 and p[0] == "Z":
            done.add(int(p[1]))
    return acts, fin, done


def parse_replay(text, np_):
    """-> dict rank -> list of (action name, date, whole line), simulation time printed by the replay (or None)."""
    acts = {r: [] for r in range(np_)}
    simtime = None
    for l in text.splitlines():
        if not l.startswith("R|"):
            continue
        p = l.split("|", 3)
        if len(p) != 4:
            continue
        m = re.match(r"Simulation time ([0-9.eE+-]+)", p[3])
        if m:
            simtime = float(m.group(1))
            continue
        w = p[3].split()
        if len(w) < 3 or not p[1].isdigit():
            continue
        acts[int(p[1])].append((w[1], float(p[2]), p[3]))
    return acts, simtime


def trace_files(d):
    """Per-rank TI trace files, in rank order (the main file lists them)."""
    with open(os.path.join(d, "tr")) as f:
        return [l.strip() for l in f if l.strip()]


def compare(on_acts, on_fin, re_acts, simtime, np_, check_simtime=True):
    """Returns (verdict, info). verdict in ok / seq / diverge / final / simtime.
    info for diverge: the earliest (by online date) call whose end date differs."""
    stats = {"dates": 0, "identical": 0, "worst": 0.0}
    firsts = []
    for r in range(np_):
        on = [a for a in on_acts[r] if a[1]]
        re_ = re_acts[r]
        names_on = [ALIAS.get(a[0], a[0]) for a in on]
        names_re = [a[0] for a in re_]
        if names_on != names_re:
            k = next((i for i, (x, y) in enumerate(zip(names_on, names_re)) if x != y), min(len(names_on), len(names_re)))
            return "seq", {"rank": r, "index": k, "online": names_on[k] if k < len(names_on) else None,
                           "replay": names_re[k] if k < len(names_re) else None, "stats": stats}
        for k, (a, b) in enumerate(zip(on, re_)):
            stats["dates"] += 1
            dlt = abs(a[2] - b[1])
            if dlt == 0.0:
                stats["identical"] += 1
            if dlt > tol(a[2]):
                firsts.append((min(a[2], b[1]), r, k, a[0], a[2], b[1], b[2]))
                break
            stats["worst"] = max(stats["worst"], dlt)
    if firsts:
        firsts.sort()
        t, r, k, name, ton, tre, line = firsts[0]
        return "diverge", {"rank": r, "index": k, "action": name, "online": ton, "replay": tre, "line": line,
                           "ranks_diverging": len(firsts), "stats": stats}
    for r in range(np_):
        if re_acts[r] and r in on_fin and abs(on_fin[r] - re_acts[r][-1][1]) > tol(on_fin[r]):
            return "final", {"rank": r, "online": on_fin[r], "replay": re_acts[r][-1][1], "stats": stats}
    if check_simtime and simtime is not None and on_fin:
        end = max(on_fin.values())
        if abs(end - simtime) > 1e-6 + tol(end):          # printed with %f
            return "simtime", {"online": end, "replay": simtime, "stats": stats}
    return "ok", {"stats": stats}


def evaluate(d, case, events=None, close=False, timeout=300, tamper=None):
    """Runs online + replay in directory d. Returns (status, info) with status in
    ok / seq / diverge / final / simtime / replay-abort / replay-deadlock / online-fail / watchdog.
    tamper(stage, obj) lets the self-test corrupt the trace files ("trace", directory) or the parsed replay log ("replay", acts)."""
    write_case(d, case, events, close)
    np_ = case["np"]
    on = run_online(d, case, timeout)
    if on.timed_out:
        return "watchdog", {"stage": "online"}
    on_acts, on_fin, done = parse_online(on.out, np_)
    if on.rc != 0 or len(done) != np_ or len(on_fin) != np_:
        crit = next((l for l in (on.err or "").splitlines() if "CRITICAL" in l or "xception" in l), "")
        return "online-fail", {"rc": on.rc, "err": crit + "\n" + (on.err or "")[-600:], "out": on.out[-300:]}
    if tamper:
        tamper("trace", d)
    rp = run_replay(d, case, timeout)
    if rp.timed_out:
        return "watchdog", {"stage": "replay"}
    text = rp.out + "\n" + rp.err
    re_acts, simtime = parse_replay(text, np_)
    if tamper:
        tamper("replay", re_acts)
    if rp.rc != 0 or simtime is None:
        noise = [l for l in text.splitlines() if not l.startswith("R|")]
        dead = any("eadlock" in l for l in noise)
        last = {r: (re_acts[r][-1][0] if re_acts[r] else None) for r in range(np_)}
        return ("replay-deadlock" if dead else "replay-abort"), {"rc": rp.rc, "msg": "\n".join(noise)[-900:], "last": last}
    bf = any("barrier-finalization:yes" in c for c in case["cfg"])
    v, info = compare(on_acts, on_fin, re_acts, simtime, np_, check_simtime=not bf)
    info["nact"] = sum(len(x) for x in re_acts.values())
    return v, info
