"""Driver and oracles of the reduction checks (C38 soundness of the reductions, C40 optimality of ODPOR).

Runs harness/mc_vm2.cpp (the VM of mc_vm.cpp + asynchronous communications + a per-execution dependency log computed by
the checker's own Transition::dispatch_depends) under simgrid-mc for one (reduction, explorer, strategy, seed)
configuration and parses what came out.  Everything is watchdogged; a fired watchdog is *inconclusive* for the callers.

A terminal record is      T <kind> <trace> | <fingerprint> | <aid>:<times>:<TYPE>:<j,j,...> ...
  kind        END (no actor left) | DEADLOCK (actors left, none enabled) | ASSERT (an MC_assert is about to fail)
  trace       pid[/times];...   the transitions executed from the initial state (replays included)
  fingerprint per-actor program counter / pending simcall / observation vector: the program-visible outcome
  events      the executed transitions as the checker sees them; the list after the type holds the indices of the
              earlier transitions *of other actors* on which the checker declares this one dependent.
"""
import os
import re

from verif import build, proc

_PATH_RE = re.compile(r"--cfg=model-check/replay:'([^']*)'")
_END_RE = re.compile(r"(DFS|BeFS|Parallel\w*) exploration ended\. (\d+) unique states visited; (\d+) explored traces")
_CAME_RE = re.compile(r"Execution came to an end at ([0-9;/]*)")
_UDPOR_END_RE = re.compile(r"UDPOR exploration ended\. (\d+) unique events considered; (\d+) backtracks")

REDUCTIONS = ("none", "dpor", "sdpor", "odpor")
EXPLORERS = ("DFS", "BeFS")
STRATEGIES = ("none", "uniform")


def binaries(flavour="hooks"):
    return build.harness("mc_vm2.cpp", flavour=flavour, internal=True), build.simgrid_mc(flavour)


class Config:
    """One way of running the checker."""
    __slots__ = ("reduction", "explorer", "strategy", "seed")

    def __init__(self, reduction, explorer="DFS", strategy="none", seed=0):
        self.reduction, self.explorer, self.strategy, self.seed = reduction, explorer, strategy, seed

    def name(self):
        """Stable name (no seed: seeds vary with VERIF_SEED, keys must not)."""
        return "%s/%s/%s" % (self.reduction, self.explorer, self.strategy)

    def tag(self):
        return "%s-%s-%s-%d" % (self.reduction, self.explorer, self.strategy, self.seed)

    def args(self, max_errors=-1):
        a = ["--cfg=model-check/reduction:%s" % self.reduction]
        if self.reduction != "udpor" and self.explorer != "DFS":
            a.append("--cfg=model-check/exploration-algo:%s" % self.explorer)
        if self.strategy != "none":
            a += ["--cfg=model-check/strategy:%s" % self.strategy, "--cfg=model-check/rand-seed:%d" % self.seed]
        if max_errors is not None:
            a.append("--cfg=model-check/max-errors:%d" % max_errors)
        return a

    def to_json(self):
        return {"reduction": self.reduction, "explorer": self.explorer, "strategy": self.strategy, "seed": self.seed}

    @staticmethod
    def from_json(d):
        return Config(d["reduction"], d.get("explorer", "DFS"), d.get("strategy", "none"), d.get("seed", 0))


class Event:
    __slots__ = ("aid", "times", "type", "deps")

    def __init__(self, aid, times, type_, deps):
        self.aid, self.times, self.type, self.deps = aid, times, type_, deps


class Record:
    """acked: the checker itself acknowledged this terminal state (see McResult.ack)."""
    __slots__ = ("kind", "trace", "fp", "events", "raw", "acked")

    def __init__(self, kind, trace, fp, events, raw):
        self.kind, self.trace, self.fp, self.events, self.raw = kind, trace, fp, events, raw
        self.acked = True


def parse_events(text):
    ev = []
    for tok in text.split():
        aid, times, ty, deps = tok.split(":")
        ev.append(Event(int(aid), int(times), ty, tuple(int(x) for x in deps.split(",")) if deps else ()))
    return ev


def parse_records(text):
    recs = []
    for line in text.splitlines():
        if not line.startswith("T "):
            continue
        parts = line.split(" | ")
        if len(parts) != 3:
            continue                      # truncated by a kill: ignored (the run is inconclusive anyway)
        t = parts[0].split()
        if len(t) != 3:
            continue
        try:
            ev = parse_events(parts[2])
        except ValueError:
            continue
        recs.append(Record(t[1], "" if t[2] == "-" else t[2], parts[1].strip(), ev, line))
    return recs


def _parse_trace(t):
    out = []
    for c in t.strip(";").split(";"):
        if c:
            a, _, k = c.partition("/")
            out.append((int(a), int(k or 0)))
    return out


def _same_steps(steps, events):
    return len(steps) == len(events) and all(a == e.aid and (k == e.times or e.type not in MULTI) for (a, k), e in zip(steps, events))


_FAILING_RE = re.compile(r"^\d+:B\d+:")


def assert_part(fp):
    """The failing actor's part of the fingerprint of an ASSERT record (the only one with a program counter)."""
    parts = [x for x in fp.split("|") if _FAILING_RE.match(x)]
    return parts[0] if len(parts) == 1 else fp


class McResult:
    def __init__(self):
        self.rc = None
        self.timed_out = False
        self.records = []
        self.paths = []           # [(kind, path)] reported counter-examples, in order
        self.states = None
        self.traces = None        # "explored traces" counter of the explorer (complete executions without deadlock)
        self.log = ""
        self.wall = 0.0
        self.aborted = None       # first line of an abort message of the checker or of the application
        self.ended = None         # traces of "Execution came to an end at" (None: explorer that does not print them)
        self.unacked = 0          # terminal states the application ran into but the checker did not explore
        self.ended_unlogged = 0   # executions the checker says it completed without a matching record of the application
        self.records_all = None
        self.env_failure = False  # died of a wall-clock / resource limit of the environment (loaded machine)
        self.join_inconsistent = False   # the traces printed by the checker do not match those of the application
        self.explored = []        # complete executions explored, with the multiplicity the checker reports

    def verdict(self):
        if self.timed_out:
            return "timeout"
        return {0: "ok", 1: "safety", 2: "deadlock", 3: "rc3", 4: "crash", 5: "rc5", 6: "rc6", 63: "rc63"}.get(self.rc, "rc%s" % self.rc)

    def ack(self):
        """Tell the complete executions that the checker *explored* from what the application merely ran into.

        The explorers may ask the application to "go one way": it then runs ahead on its own to the end of an
        arbitrary execution and the checker consumes what it sent lazily - or drops it when it backtracks earlier;
        replays walk through terminal states again.  So the application logs some terminal states several times and
        may log one that the checker never explored.  Records are therefore made distinct by (kind, trace), and the
        successful executions (END) are matched with the lines "Execution came to an end at <trace>" that the DFS and
        BeFS explorers print once per completed exploration: their multiplicity is the number of times the execution
        was explored.  When that join is not one-to-one (the BeFS explorer prints truncated record traces after a
        backtrack), every distinct logged execution counts once.  Deadlocked executions count once each (the deadlock
        report is printed again while the DFS unwinds, its multiplicity means nothing).  UDPOR prints none of these."""
        seen = {}
        for r in self.records:
            seen.setdefault((r.kind, r.trace.rstrip(";")), r)
        self.records_all = self.records
        distinct = list(seen.values())
        ends = [r for r in distinct if r.kind == "END"]
        others = [r for r in distinct if r.kind != "END"]
        deadlocks = [r for r in distinct if r.kind == "DEADLOCK"]
        if self.ended is None:
            self.records = distinct
            self.explored = ends + deadlocks
            return
        by_end = {r.trace.rstrip(";"): r for r in ends}
        matched = []
        for t in self.ended:
            r = by_end.get(t)
            if r is None and len(t) >= 100:                  # DFS prints at most 100 characters of the trace
                cands = [x for tt, x in by_end.items() if tt.startswith(t)]
                r = cands[0] if len(cands) == 1 else None
            if r is None:
                # the trace of the checker may carry a stale times_considered on a single-outcome transition
                # (ODPOR executes e.g. "iSend with times_considered 1"): compare what selects an outcome only
                steps = _parse_trace(t)
                cands = [x for x in ends if _same_steps(steps, x.events)]
                r = cands[0] if len(cands) == 1 else None
            if r is None:
                self.ended_unlogged += 1                     # no record of the application with that trace
            else:
                matched.append(r)
        if self.ended_unlogged == 0:
            ok = set(id(r) for r in matched)
            for r in ends:
                r.acked = id(r) in ok
            self.unacked = sum(1 for r in ends if not r.acked)
            self.records = [r for r in ends if r.acked] + others
            self.explored = matched + deadlocks
        else:
            self.join_inconsistent = True
            self.records = distinct
            self.explored = ends + deadlocks

    def outcomes(self):
        """Set of (kind, fingerprint) of the terminal records: the program-visible outcomes that were reached.
        An assertion failure is not a terminal state of the whole program: how far the *other* actors went when it
        fails is not preserved by a partial-order reduction (and need not be).  Its outcome is the local state of the
        failing actor (program counter + observation vector), which only depends on its causal past."""
        return set((r.kind, assert_part(r.fp) if r.kind == "ASSERT" else r.fp) for r in self.records)

    def complete(self):
        """Records of the complete executions (maximal: no enabled actor) that were explored (see ack)."""
        return self.explored


_ENV_MARKS = ("failed to connect within the", "Going to die of SIGALRM", "Cannot allocate memory", "Resource temporarily unavailable")
_ABORT_MARKS = ("xbt_assert", "Assertion", "terminate called", "Segmentation", "Backtrace", "xbt_die", "Fix me", "FixMe",
                "Please report", "what():")


def run_mc(vm, mc, spec_path, workdir, cfg, max_errors=-1, timeout=120, extra=(), app_extra=(), mutate=None):
    """One exploration. `mutate` (self-test only) rewrites the raw record text before it is parsed."""
    fp = os.path.join(workdir, "fp-%s-%s-%d.log" % (os.path.basename(spec_path), cfg.tag(), os.getpid()))
    if os.path.exists(fp):
        os.unlink(fp)
    cmd = [mc] + cfg.args(max_errors) + list(extra) + \
          ["--log=xbt_cfg.thres:warning", "--log=mc_dfs.thres:verbose", "--log=mc_befs.thres:verbose",
           "--", vm, spec_path, "--log=root.thres:critical"] + list(app_extra)
    r = proc.run(cmd, timeout=timeout, env={"VERIF_MC_FP": fp}, merge_err=True)
    out = McResult()
    out.rc, out.timed_out, out.wall = r.rc, r.timed_out, r.wall
    out.log = r.out or ""
    if os.path.exists(fp):
        with open(fp, errors="replace") as f:
            text = f.read()
        os.unlink(fp)
        if mutate is not None:
            text = mutate(text)
        out.records = parse_records(text)
    kind = None
    if cfg.reduction != "udpor":
        out.ended = [m.group(1).strip() for m in _CAME_RE.finditer(out.log)]
    for line in out.log.splitlines():
        if "mc_global/INFO] Counter-example execution trace" in line or "DEADLOCK DETECTED" in line:
            kind = "DEADLOCK"
        elif "PROPERTY NOT VALID" in line:
            kind = "ASSERT"
        elif "CRASH IN THE PROGRAM" in line:
            kind = "CRASH"
        m = _PATH_RE.search(line)
        if m:
            out.paths.append((kind or "?", m.group(1)))
            kind = None
        m = _END_RE.search(line)
        if m:
            out.states, out.traces = int(m.group(2)), int(m.group(3))
    # message of an abort: the first CRITICAL line (xbt_assert / xbt_die / uncaught exception), else any abort mark
    for line in out.log.splitlines():
        if "/CRITICAL]" in line:
            out.aborted = line.split("/CRITICAL]", 1)[1].strip()[:300]
            break
    if out.aborted is None:
        for line in out.log.splitlines():
            if any(k in line for k in _ABORT_MARKS):
                out.aborted = re.sub(r"^\[[^\]]*\] *(\[[^\]]*\] *)?", "", line.strip())[:300]
                break
    # simgrid-mc gives a forked application 5 seconds of wall-clock time to connect (CheckerSide.cpp, SIGALRM): on a
    # loaded machine that limit fires.  It says nothing about the exploration: callers treat it like a watchdog.
    out.env_failure = any(m in out.log for m in _ENV_MARKS)
    out.ack()
    return out


# ---------------------------------------------------------------------------------------------------------------------
# Mazurkiewicz classes under the checker's own dependency relation
MULTI = ("RANDOM", "WAITANY", "TESTANY")      # transitions with several outcomes selected by times_considered


def event_name(e, k):
    """(actor, rank among the events of this actor, type, times considered when it selects an outcome).
    times_considered is ignored for single-outcome transitions: the application ignores it too (ODPOR sometimes
    executes e.g. an iSend "with times_considered 1": physically the same transition)."""
    return (e.aid, k, e.type, e.times if e.type in MULTI else 0)


def canonical(events):
    """Foata normal form of one execution.

    An event is named by event_name(): this is what stays the same when adjacent independent transitions are
    swapped.  Its level is 1 + the highest level among the earlier events it depends on (same actor: always; other
    actor: as answered by dispatch_depends in that very execution)."""
    level = []
    rank = {}
    last_of = {}
    names = []
    for i, e in enumerate(events):
        k = rank.get(e.aid, 0)
        rank[e.aid] = k + 1
        lv = 0
        if e.aid in last_of:
            lv = level[last_of[e.aid]] + 1
        for j in e.deps:
            if level[j] + 1 > lv:
                lv = level[j] + 1
        level.append(lv)
        last_of[e.aid] = i
        names.append(event_name(e, k))
    n = (max(level) + 1) if level else 0
    out = [[] for _ in range(n)]
    for nm, lv in zip(names, level):
        out[lv].append(nm)
    return tuple(tuple(sorted(x)) for x in out)


def hb_pairs(events):
    """The partial order itself, as the set of ((actor, rank), (actor, rank)) of *direct* dependencies: two executions
    are equivalent iff they have the same named events and the same transitive closure of these pairs.  Used as a
    second, independent characterisation of a class (self-check of `canonical`)."""
    rank = {}
    nm = []
    for e in events:
        k = rank.get(e.aid, 0)
        rank[e.aid] = k + 1
        nm.append(event_name(e, k))
    n = len(events)
    before = [set() for _ in range(n)]
    last_of = {}
    for i, e in enumerate(events):
        direct = list(e.deps)
        if e.aid in last_of:
            direct.append(last_of[e.aid])
        for j in direct:
            before[i].add(j)
            before[i] |= before[j]
        last_of[e.aid] = i
    return frozenset(nm), frozenset((nm[j], nm[i]) for i in range(n) for j in before[i])


def classes(records):
    """{canonical form: [records]} of the complete executions among `records`."""
    cl = {}
    for r in records:
        if r.kind in ("END", "DEADLOCK"):
            cl.setdefault(canonical(r.events), []).append(r)
    return cl


def explored_classes(res):
    """{canonical form: [records]} of the complete executions explored by a run, with multiplicity."""
    return classes(res.complete())


# ---------------------------------------------------------------------------------------------------------------------
# Differential oracle of C38: every configuration against the exploration without reduction
def reports(res):
    """What the checker *said* in its log: (#deadlock reports, #assertion reports, #crash reports).
    The DEADLOCK DETECTED banner itself is printed by the application (silenced here); the checker follows it with a
    counter-example in the mc_global category; assertion failures and crashes are reported in mc_explo."""
    d = a = c = 0
    for line in res.log.splitlines():
        if "mc_global/INFO] Counter-example execution trace" in line:
            d += 1
        elif "PROPERTY NOT VALID" in line:
            a += 1
        elif "CRASH IN THE PROGRAM" in line:
            c += 1
    return d, a, c


def slug(text, n=48):
    s = re.sub(r"0x[0-9a-f]+|\d+", "N", text or "")
    s = re.sub(r"[^A-Za-z]+", "-", s).strip("-")
    return s[:n].rstrip("-") or "unknown"


def self_consistency(res):
    """Rules that hold for any single exploration run with max-errors:-1, whatever the reduction:
    the exit status and the printed reports agree with the terminal states the application really reached.
    Returns [(rule, detail, text)].
      abort        the checker (or the application) died: exit status outside {0, 2}
      unreported   the application reached a deadlocked / assertion-failing state in this very run, no report printed
      spurious     a report of a kind of failure that the application did not reach in this run
      status       exit status inconsistent with the reports that were printed"""
    out = []
    kinds = set(r.kind for r in res.records)
    d, a, c = reports(res)
    if res.rc not in (0, 2):
        out.append(("abort", "rc%s:%s" % (res.rc, slug(res.aborted)), "simgrid-mc ended with status %s: %s" % (res.rc, res.aborted)))
        return out
    if "DEADLOCK" in kinds and d == 0:
        out.append(("unreported", "deadlock", "the application reached a deadlocked terminal state in this very exploration "
                    "but no deadlock report was printed"))
    if "DEADLOCK" not in kinds and d > 0:
        out.append(("spurious", "deadlock", "a deadlock was reported but the application never reached a terminal state "
                    "with live, disabled actors"))
    if "ASSERT" in kinds and a == 0:
        out.append(("unreported", "assert", "an MC_assert failed in this very exploration but no PROPERTY NOT VALID report was printed"))
    if "ASSERT" not in kinds and a > 0:
        out.append(("spurious", "assert", "an assertion failure was reported but no MC_assert of the application failed"))
    if c > 0:
        out.append(("spurious", "crash", "a crash of the application was reported (the generated programs do not crash)"))
    errors = d + a + c
    if errors > 0 and res.rc == 0:
        out.append(("status", "rc0-with-errors", "%d deadlock / %d assertion report(s) were printed but the exit status is 0 (success)" % (d, a)))
    if errors == 0 and res.rc != 0:
        out.append(("status", "rc%s-without-error" % res.rc, "exit status %s without any error report" % res.rc))
    return out


def compare(ref, res):
    """Differential rules of one configuration against the reference exploration. Returns [(rule, detail, text)].
      lost           terminal outcomes of the reference that this configuration never reaches (detail: their kinds)
      lost-verdict   a kind of failure is reachable (reference) and this configuration reports none of that kind
      invented       terminal outcomes that the reference never reaches
      spurious-verdict  a kind of failure is reported that is not reachable"""
    out = []
    ro, co = ref.outcomes(), res.outcomes()
    lost, inv = ro - co, co - ro
    if lost:
        kinds = "+".join(sorted(set(k for k, _ in lost)))
        ex = sorted(lost)[0]
        out.append(("lost", kinds, "%d of the %d terminal outcomes reached without reduction are never reached (e.g. %s %s)"
                    % (len(lost), len(ro), ex[0], ex[1])))
    if inv:
        kinds = "+".join(sorted(set(k for k, _ in inv)))
        ex = sorted(inv)[0]
        out.append(("invented", kinds, "%d terminal outcome(s) that the exploration without reduction never reaches (e.g. %s %s)"
                    % (len(inv), ex[0], ex[1])))
    rk = set(k for k, _ in ro)
    d, a, c = reports(res)
    if "DEADLOCK" in rk and d == 0:
        out.append(("lost-verdict", "deadlock", "a deadlock is reachable (found without reduction) but none is reported%s"
                    % (": exit status 0" if res.rc == 0 else "")))
    if "ASSERT" in rk and a == 0:
        out.append(("lost-verdict", "assert", "an assertion failure is reachable (found without reduction) but none is reported%s"
                    % (": exit status 0" if res.rc == 0 else "")))
    if "DEADLOCK" not in rk and d > 0:
        out.append(("spurious-verdict", "deadlock", "a deadlock is reported but none is reachable"))
    if "ASSERT" not in rk and a > 0:
        out.append(("spurious-verdict", "assert", "an assertion failure is reported but none is reachable"))
    return out


def refclass(ref):
    """Which failures are reachable according to the exploration without reduction: part of every violation key."""
    k = set(r.kind for r in ref.records)
    c = [n for n, kk in (("deadlock", "DEADLOCK"), ("assert", "ASSERT")) if kk in k]
    return "+".join(c) or "clean"


def cut_short(res):
    """The exploration stopped at its first assertion failure although max-errors:-1 was given: the BeFS explorer
    does not catch the warning raised by a failing MC_assert (DFS does, through a soft-locked state).  The reported
    failure is real; the outcome set is then a subset by construction and is not held against the reduction."""
    return res.rc == 1 and any(r.kind == "ASSERT" for r in res.records) and "PROPERTY NOT VALID" in res.log


def default_mode_rules(ref, res):
    """Rules of a run with the default max-errors:0 (stop at the first error, then search the critical transition).
    Returns [(rule, detail, text)]."""
    out = []
    rk = set(r.kind for r in ref.records)
    failing = bool(rk & {"DEADLOCK", "ASSERT"})
    if res.rc not in (0, 1, 2):
        out.append(("abort", "rc%s:%s" % (res.rc, slug(res.aborted)), "simgrid-mc ended with status %s: %s" % (res.rc, res.aborted)))
        return out
    if failing and res.rc == 0:
        out.append(("lost-default", "rc0", "exit status 0 (no error found) although a %s is reachable"
                    % " and a ".join(sorted(k.lower() for k in rk & {"DEADLOCK", "ASSERT"}))))
    if not failing and res.rc != 0:
        out.append(("default", "rc%d-but-no-failure" % res.rc, "exit status %d although no failure is reachable" % res.rc))
    if res.rc == 1 and failing and "ASSERT" not in rk:
        out.append(("default", "rc1-but-no-assert-reachable", "a property violation is reported but no MC_assert can fail"))
    if res.rc == 2 and failing and "DEADLOCK" not in rk:
        out.append(("default", "rc2-but-no-deadlock-reachable", "a deadlock is reported but none is reachable"))
    return out


class Runner:
    """Runs configurations on one program (spec file written once) inside a scratch directory."""

    def __init__(self, vm, mc, workdir, name, spec_text):
        self.vm, self.mc, self.workdir, self.name = vm, mc, workdir, name
        self.spec_path = os.path.join(workdir, name + ".spec")
        with open(self.spec_path, "w") as f:
            f.write(spec_text)

    def run(self, cfg, timeout, max_errors=-1, extra=(), mutate=None):
        return run_mc(self.vm, self.mc, self.spec_path, self.workdir, cfg, max_errors=max_errors, timeout=timeout,
                      extra=extra, mutate=mutate)

    def run_confirmed(self, cfg, timeout, max_errors=-1, extra=(), mutate=None):
        """Watchdog discipline: a first timeout is retried once with three times the budget.
        Returns (result, hang) where hang is True only when both runs were killed by the watchdog."""
        r = self.run(cfg, timeout, max_errors, extra, mutate)
        if not r.timed_out and not r.env_failure:
            return r, False
        r2 = self.run(cfg, 3 * timeout, max_errors, extra, mutate)
        if r2.env_failure:                 # the machine is too loaded for simgrid-mc's own 5 s limits: inconclusive
            r2.timed_out = True
            return r2, False
        return r2, r2.timed_out and r.timed_out
