"""Oracle self-test of C21 (not a registered check): runs the deterministic directed workload of props/C21.py on the real tree and
corrupts the *recorded log* before the checker reads it; every corruption must reach ctx.violation with the expected key.
    VERIF_OUT=/tmp/xx python3 -m verif.oracles.conserve_selftest        (from /verif/lib; nothing is written under /verif)
"""
import sys

from verif import core
from verif.props import C21


def _edit(lines, pred, fn, nth=0):
    """Apply fn to the fields of the nth line satisfying pred."""
    out = []
    seen = 0
    for ln in lines:
        f = ln.split()
        if f and pred(f):
            if seen == nth:
                ln = " ".join(fn(f))
            seen += 1
        out.append(ln)
    assert seen > nth, "corruption target not found"
    return out


def running(f):
    return f[0] == "A" and float(f[3]) > 0 and float(f[2]) > 0


CORRUPTIONS = [
    ("one sampled rate multiplied by 1.001", "C21:step:",
     lambda ls: _edit(ls, lambda f: running(f) and f[1] == "1", lambda f: f[:3] + [repr(float(f[3]) * 1.001)], nth=3)),
    ("one sampled remaining raised above the previous one", "C21:remaining-increased:",
     lambda ls: _edit(ls, lambda f: running(f) and f[1] == "1", lambda f: f[:2] + [repr(float(f[2]) * 1.5 + 1e9)] + f[3:], nth=2)),
    ("one sampled remaining made negative", "C21:remaining-negative:",
     lambda ls: _edit(ls, running, lambda f: f[:2] + ["-0.5"] + f[3:], nth=3)),
    ("finish date of an exec shifted by 1e-6", "C21:finish-date-not-sampled:",
     lambda ls: _edit(ls, lambda f: f[0] == "F" and f[1] == "1", lambda f: f[:4] + [repr(float(f[4]) - 1e-6)])),
    ("a host load report raised by 0.1 %", "C21:load-over-capacity:H",
     lambda ls: _edit(ls, lambda f: f[0] == "U" and f[1] == "H" and float(f[3]) == float(f[4]), lambda f: f[:3] + [repr(float(f[3]) * 1.001)] + f[4:])),
    ("every rate of one exec doubled (as if it had two cores)", "C21:exec-rate-over-bound:",
     lambda ls: [" ".join(f[:3] + [repr(float(f[3]) * 2)]) if f and f[0] == "A" and f[1] == "1" else " ".join(f) for f in (l.split() for l in ls)]),
    ("one time step lengthened by 1 % (work of that step lost)", "C21:step:",
     lambda ls: _edit(ls, lambda f: f[0] == "T" and float(f[2]) > 1e-3, lambda f: f[:2] + [repr(float(f[2]) * 1.01)] + f[3:], nth=2)),
    ("zero remaining reported one sample early", "C21:zero-before-completion:",
     lambda ls: _edit(ls, lambda f: running(f) and f[1] == "11", lambda f: f[:2] + ["0"] + f[3:], nth=0)),
]


def main():
    failures = 0
    w = C21.directed_basic()
    for cfg in (C21.CONFIGS[0], C21.CONFIGS[1]):
        for text, prefix, fn in CORRUPTIONS:
            ctx = core.Ctx(C21.META, "quick", 1)
            keys = []
            ctx.violation = lambda key, what, wit, keys=keys: keys.append(key)
            C21.run_batch(ctx, [(w, cfg)], "hooks", corrupt=fn)
            hit = [k for k in keys if k.startswith(prefix)]
            print("%-9s %-62s -> %s" % (cfg[0], text, sorted(set(keys)) or "SILENT"))
            if not hit:
                failures += 1
        # k equal execs: one rate off by 1e-6 relative
        wk = C21.directed_keq()[3]
        ctx = core.Ctx(C21.META, "quick", 1)
        keys = []
        ctx.violation = lambda key, what, wit, keys=keys: keys.append(key)
        C21.run_batch(ctx, [(wk, cfg)], "hooks",
                      corrupt=lambda ls: _edit(ls, lambda f: running(f) and f[1] == "1001", lambda f: f[:3] + [repr(float(f[3]) * (1 + 1e-6))], nth=1))
        print("%-9s %-62s -> %s" % (cfg[0], "k-equal: one rate off by 1e-6", sorted(set(keys)) or "SILENT"))
        if not any(k.startswith("C21:k-equal-execs:rate") for k in keys):
            failures += 1
        # uncorrupted control
        ctx = core.Ctx(C21.META, "quick", 1)
        keys = []
        ctx.violation = lambda key, what, wit, keys=keys: keys.append(key)
        C21.run_batch(ctx, [(w, cfg), (wk, cfg)], "hooks")
        keys = [k for k in keys if k != C21.KEY_RINT]
        print("%-9s %-62s -> %s" % (cfg[0], "control (no corruption)", keys or "silent"))
        if keys:
            failures += 1
    print("self-test %s" % ("FAILED (%d)" % failures if failures else "passed"))
    return 1 if failures else 0


if __name__ == "__main__":
    sys.exit(main())
