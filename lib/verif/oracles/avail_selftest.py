"""Oracle self-test of C22 and C23: the observation (never SimGrid) is corrupted and the oracle must fire.

    VERIF_OUT=/tmp/somewhere python3 -m verif.oracles.avail_selftest        (from /verif/lib)
Every line must end with 'fired'.
"""
import random
import sys

from verif import core
from verif.props import C22, C23


class Probe(core.Ctx):
    def __init__(self, meta):
        core.Ctx.__init__(self, meta, "quick", 1, replay_path="selftest")
        self.keys = []

    def violation(self, key, what, witness):
        self.keys.append(key)
        return "new"


def c22():
    cases = dict(C22.directed())
    out = []

    def run(name, label, corrupt, expect):
        sc = cases[name]
        if not any(a["name"] == "sampler" for a in sc["actors"]):
            C22.finalize(sc, random.Random(7))
        res = C22.run_case(sc, "hooks")
        base = Probe(C22.META)
        C22.judge(base, sc, "hooks", res)
        p = Probe(C22.META)
        C22.judge(p, sc, "hooks", res, corrupt=corrupt)
        new = [k for k in p.keys if k not in base.keys]
        ok = any(expect in k for k in new)
        out.append(ok)
        print("C22 %-18s %-58s -> %s %s" % (name, label, "fired" if ok else "SILENT", new[:2]))

    def shift_exec(lg):
        i = sorted(lg.xe)[0]
        c, st, a, b = lg.xe[i]
        lg.xe[i] = (c + 1e-6, st, a, b + 1e-6)
    run("ties:cpu", "an exec ends 1e-6 s later", shift_exec, "exec-finish")

    def fail_exec(lg):
        i = sorted(lg.xe)[0]
        c, st, a, b = lg.xe[i]
        lg.xe[i] = (c, "hostfail", a, -1.0)
    run("ties:cpu", "an exec reported failed instead of done", fail_exec, "exec-finish")

    def shift_comm(lg):
        i = sorted(lg.ce)[0]
        c, st, a, b = lg.ce[i]
        lg.ce[i] = (c - 1e-6, st, a, b - 1e-6)
    run("ties:link", "a message arrives 1e-6 s earlier", shift_comm, "comm-finish")

    def late_value(lg):
        # the new speed only visible one sample later: the value read exactly at a profile date is still the old one
        for k, (kind, who, t, st) in enumerate(lg.samples):
            if kind == "S" and t == 2.0:
                h = st["h1"]
                st["h1"] = (h[0], h[1], 0.5, h[3], h[4], h[5])
    run("ties:cpu", "speed read exactly at date 2 is still the previous one", late_value, "value:speed")

    def wrong_latency(lg):
        for kind, who, t, st in lg.samples:
            if "l1a" in st and 3.0 < t < 3.9:
                l = st["l1a"]
                st["l1a"] = (l[0], l[1], 0.001, l[3], l[4])
    run("doc-examples:api", "latency still the old one after its date (3 < t < 3.9)", wrong_latency, "value:lat")

    def drop_signal(lg):
        k = [i for i, c in enumerate(lg.cb) if c[1] == "hspeed" and c[0] > 5][0]
        del lg.cb[k]
    run("ties:cpu", "one periodic repetition of a speed point not applied", drop_signal, "signal:speed")

    def misdated_signal(lg):
        k = [i for i, c in enumerate(lg.cb) if c[1] == "lbw" and c[0] > 4][0]
        c = lg.cb[k]
        lg.cb[k] = (c[0] + 0.5,) + c[1:]
    run("ties:link", "a bandwidth point applied 0.5 s late", misdated_signal, "signal:bw")

    def on_seen_off(lg):
        for kind, who, t, st in lg.samples:
            if "h1" in st and 20.0 <= t < 20.4:
                h = st["h1"]
                st["h1"] = (h[0], h[1], h[2], 1, h[4], h[5])
    run("ties:cpu", "host still seen on after its off date", on_seen_off, "value:hstate")
    return out


def c23():
    out = []
    cases = dict(C23.directed() + C23.directed_links())

    def run(name, label, corrupt, expect, link=False):
        sc = cases[name]
        res, resq = C23.run_cases([sc, C23.quiet(sc)], "hooks")
        judge = C23.judge_links if link else C23.judge_hosts
        base = Probe(C23.META)
        judge(base, sc, "hooks", res, resq)
        p = Probe(C23.META)
        judge(p, sc, "hooks", res, resq, corrupt=corrupt)
        new = [k for k in p.keys if k not in base.keys]
        ok = any(expect in k for k in new)
        out.append(ok)
        print("C23 %-18s %-58s -> %s %s" % (name, label, "fired" if ok else "SILENT", new[:2]))

    def scale(lg, lq):
        who, t, vals = lg.energy[5]
        vals["e1"] *= 1 + 1e-6
    run("doc-table", "one energy reading 1e-6 too high", scale, "energy!=integral")

    def new_pstate_for_past(lg, lq):
        # the interval before a pstate switch billed with the power of the new pstate: shift everything after t=2 by (93-95)*1 J
        for who, t, vals in lg.energy:
            if t > 2.0:
                vals["e1"] -= 2.0
    run("pstates", "elapsed interval billed at the power of the new pstate", new_pstate_for_past, "energy!=integral")

    def decrease(lg, lq):
        who, t, vals = lg.energy[6]
        vals["e1"] = lg.energy[4][2]["e1"] - 1.0
    run("doc-table", "energy decreases", decrease, "energy-decreased")

    def quiet_differs(lg, lq):
        for who, t, vals in lq.energy:
            if who == "#final":
                vals["e1"] += 0.5
    run("pstates", "total differs when nobody looked meanwhile", quiet_differs, "observation-changes-total")

    def link(lg, lq):
        for who, t, vals in lg.energy:
            if t >= 8:
                vals["l1a"] += 1e-3
    run("link:lat=0.0", "link energy 1 mJ too high after the message", link, "link:energy!=integral", link=True)
    return out


if __name__ == "__main__":
    r = c22() + c23()
    print("%d/%d corruptions detected" % (sum(r), len(r)))
    sys.exit(0 if all(r) else 1)
