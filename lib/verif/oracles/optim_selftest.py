"""Oracle self-test of C19 (not a registered check): runs two directed workloads of props/C19.py that agree on the real tree under every
configuration and corrupts the *parsed log of one configuration* before the comparison; every corruption must reach ctx.violation with the
expected key, and the uncorrupted control must stay silent.
    VERIF_OUT=/tmp/xx python3 -m verif.oracles.optim_selftest        (from /verif/lib; nothing is written under /verif)
"""
import copy
import sys

from verif import core
from verif.props import C19


def shift(kind, delta, only=None, pick=0):
    """Shift the date of the pick-th event of that kind by delta in the log of configuration `only` (all configurations when None)."""
    def fn(cfg, r):
        if only is not None and cfg != only:
            return r
        r = copy.deepcopy(r)
        keys = sorted(k for k in r["ev"] if k[0] == kind)
        k = keys[min(pick, len(keys) - 1)]
        r["ev"][k] += delta
        return r
    return fn


def drop(kind, only):
    def fn(cfg, r):
        if cfg != only:
            return r
        r = copy.deepcopy(r)
        k = sorted(k for k in r["ev"] if k[0] == kind)[0]
        del r["ev"][k]
        return r
    return fn


def scale_after(t0, factor, only):
    """Every date after t0 stretched (what a wrong rate after an event would do)."""
    def fn(cfg, r):
        if cfg != only:
            return r
        r = copy.deepcopy(r)
        for k, t in r["ev"].items():
            if t > t0:
                r["ev"][k] = t0 + (t - t0) * factor
        return r
    return fn


CORRUPTIONS = [
    ("finish date of one exec + 1e-6 under cpu=Lazy,net=Full", "C19:date:exec:cpu/optim:Lazy-vs-Full:", shift("finish", 1e-6, ("Lazy", "Full"), 1)),
    ("finish date of one exec - 3e-9 under cpu=Fullsel,net=Full", "C19:date:exec:cpu/optim:Fullsel-vs-Full:", shift("finish", -3e-9, ("Fullsel", "Full"), 2)),
    ("end of one sleep + 1e-6 under cpu=TI,net=Full", "C19:date:sleep:cpu/optim:TI-vs-Full:", shift("sleep", 1e-6, ("TI", "Full"))),
    ("all dates after t=1 stretched by 1e-6 under cpu=Full,net=Lazy", "C19:date:", scale_after(1.0, 1 + 1e-6, ("Full", "Lazy"))),
    ("completion signal of one activity + 1e-6 under cpu=Full,net=Fullsel", "C19:date:", shift("sig-done", 1e-6, ("Full", "Fullsel"), 3)),
    ("one completion missing from the log of cpu=Lazy,net=Lazy", "C19:events-differ:cpu=Lazy,net=Lazy-vs-", drop("finish", ("Lazy", "Lazy"))),
    ("final clock + 2e-9 under cpu=Full,net=Lazy", "C19:date:actor:network/optim:Lazy-vs-Full:", shift("END", 2e-9, ("Full", "Lazy"))),
]
HARMLESS = [
    ("finish date of one exec + 5e-10 (below precision/timing) under cpu=Lazy,net=Full", shift("finish", 5e-10, ("Lazy", "Full"), 1)),
]


def main():
    failures = 0
    d = {n: w for n, w, _ in C19.directed()}
    for name in ("ti-profile-sharing", "multicore-all-features"):
        w = d[name]
        cfgs = C19.configs(w["ti"])
        for text, prefix, fn in CORRUPTIONS:
            if "TI" in text and not w["ti"]:
                continue
            ctx = core.Ctx(C19.META, "quick", 1)
            keys = []
            ctx.violation = lambda key, what, wit, keys=keys: keys.append(key)
            C19.run_workload(ctx, w, "hooks", cfgs, corrupt=fn)
            hit = [k for k in keys if k.startswith(prefix)]
            print("%-24s %-72s -> %s" % (name, text, sorted(set(keys)) or "SILENT"))
            if not hit:
                failures += 1
        for text, fn in HARMLESS + [("control (no corruption)", None)]:
            ctx = core.Ctx(C19.META, "quick", 1)
            keys = []
            ctx.violation = lambda key, what, wit, keys=keys: keys.append(key)
            C19.run_workload(ctx, w, "hooks", cfgs, corrupt=fn)
            print("%-24s %-72s -> %s" % (name, text, sorted(set(keys)) or "silent"))
            if keys:
                failures += 1
    print("self-test %s" % ("FAILED (%d)" % failures if failures else "passed"))
    return 1 if failures else 0


if __name__ == "__main__":
    sys.exit(main())
