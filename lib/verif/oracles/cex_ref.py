"""Reference semantics used by C41 and C14 (private copy of oracles/sync_sem.py, which is shared with C38/C40 and frozen,
extended with: start order of the initial actors, peers of matched communications, the text simgrid-mc prints for each
transition of a counter-example (`expect`), the status of the blocked actors (`blocked`), a step-by-step checked
replay (`replay_checked`) and native-format (observer-less) terminal fingerprints in `explore`.

Reference semantics of the S4U synchronisation layer *as the model checker sees it* (two-step request/wait
transitions, FIFO queues), for the program spec interpreted by harness/mc_vm_cex.cpp.

The interpreter explores *states* (not traces) with memoisation and returns the set of terminal fingerprints, in the
exact textual format mc_vm writes them ("T <kind> <trace> | <fingerprint>"), so that the comparison is a string
comparison.  It can also replay a checker path ("pid/times;pid;...") and say where it leads, and name the transition
each step executes (type + objects), which is what the independence-based checks (C40/C41) use.

Semantics transcribed from the S4U entry points (MC branch) and the kernel activities:
  lock      = MUTEX_ASYNC_LOCK (free -> owner, else FIFO queue)  ; MUTEX_WAIT enabled iff this acquisition was granted
  unlock    = MUTEX_UNLOCK (hand over to the queue head)         ; try_lock = MUTEX_TRYLOCK (succeeds iff free)
  acquire   = SEM_ASYNC_LOCK (value>0 -> granted, else FIFO)     ; SEM_WAIT enabled iff granted ; release = SEM_UNLOCK
  cv.wait   = CONDVAR_ASYNC_LOCK (unlocks the mutex, joins the FIFO of the condvar) ; CONDVAR_WAIT enabled iff signalled
              (or timed: then it leaves the queue and reports a timeout), does a mutex lock_async ; MUTEX_WAIT
  notify    = CONDVAR_SIGNAL (queue head) / CONDVAR_BROADCAST (all)
  barrier   = BARRIER_ASYNC_LOCK (the expected-th arrival grants everybody and re-arms) ; BARRIER_WAIT enabled iff granted
  put/get   = COMM_ASYNC_SEND / COMM_ASYNC_RECV (FIFO matching inside a mailbox) ; COMM_WAIT enabled iff matched
  join      = ACTOR_JOIN enabled iff the target terminated ; create = ACTOR_CREATE ; MC_random = RANDOM (one successor per value)
Local code (counter observations, skips, assertion, bookkeeping) runs in the same step as the transition before it.
"""
import sys

N_, LIVE, DONE = 0, 1, 2


class Program:
    def __init__(self):
        self.nmutex = 0
        self.sems = []        # (init, binary)
        self.ncond = 0
        self.barriers = []    # expected counts
        self.nmbox = 0
        self.actors = []      # (dyn, [ (k, a, b) ])

    def text(self):
        out = []
        if self.nmutex:
            out.append("mutex %d" % self.nmutex)
        if self.sems:
            out.append("sem " + " ".join("%d%s" % (i, "b" if b else "") for i, b in self.sems))
        if self.ncond:
            out.append("cond %d" % self.ncond)
        if self.barriers:
            out.append("barrier " + " ".join(map(str, self.barriers)))
        if self.nmbox:
            out.append("mbox %d" % self.nmbox)
        for dyn, ops in self.actors:
            out.append(("dyn " if dyn else "actor ") + " ".join(op_text(o) for o in ops))
        return "\n".join(out) + "\n"

    def n_ops(self):
        return sum(len(o) for _, o in self.actors)


TWO_ARG = set("WwSQ")


def op_text(o):
    k, a, b = o
    if k in "YX":
        return k
    if k in TWO_ARG:
        return "%s%d.%d" % (k, a, b)
    return "%s%d" % (k, a)


def parse(text):
    p = Program()
    for line in text.splitlines():
        t = line.split()
        if not t or t[0].startswith("#"):
            continue
        if t[0] == "mutex":
            p.nmutex = int(t[1])
        elif t[0] == "sem":
            for x in t[1:]:
                b = x.endswith("b")
                p.sems.append((int(x[:-1] if b else x), b))
        elif t[0] == "cond":
            p.ncond = int(t[1])
        elif t[0] == "barrier":
            p.barriers = [int(x) for x in t[1:]]
        elif t[0] == "mbox":
            p.nmbox = int(t[1])
        elif t[0] in ("actor", "dyn"):
            ops = []
            for x in t[1:]:
                k = x[0]
                a = b = 0
                if len(x) > 1:
                    if "." in x:
                        a, b = x[1:].split(".")
                        a, b = int(a), int(b)
                    else:
                        a = int(x[1:])
                ops.append((k, a, b))
            p.actors.append((t[0] == "dyn", ops))
        else:
            raise ValueError("bad spec line: " + line)
    seen_dyn = False
    for dyn, _ in p.actors:
        if dyn:
            seen_dyn = True
        elif seen_dyn:
            raise ValueError("actor lines must precede dyn lines")
    return p


class AssertionFailed(Exception):
    def __init__(self, actor):
        self.actor = actor
        self.state = None      # frozen state at the instant of the failure (set by execute)


# Actor record (tuple): status, pc, phase, obs, heldm, helds, last, tmp, exiting
A_ST, A_PC, A_PH, A_OBS, A_HM, A_HS, A_LAST, A_TMP, A_EXIT = range(9)


class W:
    """Mutable working copy of a state."""
    __slots__ = ("ac", "mu", "se", "cv", "ba", "mb", "mc", "sc", "pids")

    def __init__(self, s):
        self.ac = [list(x) for x in s[0]]
        self.mu = [list(x) for x in s[1]]
        self.se = [list(x) for x in s[2]]
        self.cv = [list(x) for x in s[3]]
        self.ba = [list(x) for x in s[4]]
        self.mb = list(s[5])
        self.mc = list(s[6])
        self.sc = list(s[7])
        self.pids = s[8]

    def freeze(self):
        return (tuple(tuple(x) for x in self.ac), tuple(tuple(x) for x in self.mu), tuple(tuple(x) for x in self.se),
                tuple(tuple(x) for x in self.cv), tuple(tuple(x) for x in self.ba), tuple(self.mb), tuple(self.mc),
                tuple(self.sc), self.pids)


class Ref:
    def __init__(self, prog, relock_by_owner_succeeds=False):
        """relock_by_owner_succeeds=True is NOT the reference: it is a *diagnosis* variant reproducing one known defect of
        the native (non-MC) path - MutexAcquisitionImpl::wait_for() tests the ownership instead of the acquisition, so the
        owner of a non-recursive mutex that locks it again is not blocked, and its queued acquisition is granted to itself
        by its next unlock.  C14 uses it only to give that defect its own violation key."""
        self.relock_ok = relock_by_owner_succeeds
        self.p = prog
        self.ops = [ops for _, ops in prog.actors]
        self.n = len(prog.actors)

    # ------------------------------------------------------------------ initial state
    def initial(self, order=None):
        """Initial state (may raise AssertionFailed when an assertion fails during the start-up round).
        order: start order of the initial actors (default: file order); pids are given in that order."""
        p = self.p
        ac = tuple((N_, 0, 0, "", (), (), 0, None, False) for _ in range(self.n))
        s = (ac, tuple((-1, ()) for _ in range(p.nmutex)), tuple((i, (), ()) for i, _ in p.sems),
             tuple(((), ()) for _ in range(p.ncond)), tuple(((), ()) for _ in p.barriers), tuple(() for _ in range(p.nmbox)),
             tuple(0 for _ in range(p.nmutex)), tuple(0 for _ in p.sems), ())
        w = W(s)
        pids = []
        idx = list(order) if order is not None else list(range(self.n))
        idx += [i for i in range(self.n) if i not in idx]
        for i in idx:
            if not p.actors[i][0]:
                w.ac[i][A_ST] = LIVE
                pids.append(i)
        w.pids = tuple(pids)
        for i in pids:
            self._advance(w, i)
        return w.freeze()

    # ------------------------------------------------------------------ local steps
    def _advance(self, w, a):
        """Run the local code of actor a up to its next visible operation (or its end)."""
        A = w.ac[a]
        ops = self.ops[a]
        while True:
            if A[A_PH] != 0:
                return
            pc = A[A_PC]
            if pc >= len(ops):
                if A[A_HM] or A[A_HS]:
                    return            # pending epilogue release
                if A[A_EXIT]:
                    return            # pending ACTOR_EXIT
                A[A_ST] = DONE
                return
            k, x, y = ops[pc]
            if k == "O":
                if x in A[A_HM]:
                    v = w.mc[x]
                    w.mc[x] = v + 1
                    A[A_OBS] += "o%d=%d," % (x, v)
                    A[A_LAST] = v
            elif k == "o":
                if self.p.sems[x][1] and x in A[A_HS]:
                    v = w.sc[x]
                    w.sc[x] = v + 1
                    A[A_OBS] += "s%d=%d," % (x, v)
                    A[A_LAST] = v
            elif k == "I":
                if A[A_LAST] == 0:
                    A[A_PC] = pc + x
            elif k == "E":
                if A[A_LAST] == x:
                    raise AssertionFailed(a)
            elif k == "U":
                if x in A[A_HM]:
                    return
            elif k == "V":
                if not self.p.sems[x][1] or x in A[A_HS]:
                    return
            elif k in "Ww":
                if y in A[A_HM]:
                    return
            elif k == "J":
                if w.ac[x][A_ST] != N_ and x != a:
                    return
            elif k == "K":
                if w.ac[x][A_ST] == N_:
                    return
            elif k == "X":
                A[A_EXIT] = True
                A[A_PC] = len(ops)
                continue
            else:
                return
            A[A_PC] += 1

    # ------------------------------------------------------------------ pending transition
    def pending(self, s, a):
        """(type, object ids...) of the next visible transition of live actor a, and max times considered."""
        A = s[0][a]
        pc, ph = A[A_PC], A[A_PH]
        ops = self.ops[a]
        if pc >= len(ops):
            if A[A_HM]:
                return ("MUTEX_UNLOCK", A[A_HM][0]), 1
            if A[A_HS]:
                return ("SEM_UNLOCK", A[A_HS][0]), 1
            return ("ACTOR_EXIT",), 1
        k, x, y = ops[pc]
        if k == "L":
            return (("MUTEX_ASYNC_LOCK", x) if ph == 0 else ("MUTEX_WAIT", x)), 1
        if k == "U":
            return ("MUTEX_UNLOCK", x), 1
        if k == "T":
            return ("MUTEX_TRYLOCK", x), 1
        if k == "P":
            return (("SEM_ASYNC_LOCK", x) if ph == 0 else ("SEM_WAIT", x)), 1
        if k == "V":
            return ("SEM_UNLOCK", x), 1
        if k in "Ww":
            if ph == 0:
                return ("CONDVAR_ASYNC_LOCK", x, y), 1
            if ph == 1:
                return ("CONDVAR_WAIT", x, y, k == "w"), 1
            return ("MUTEX_WAIT", y), 1
        if k == "N":
            return ("CONDVAR_SIGNAL", x), 1
        if k == "A":
            return ("CONDVAR_BROADCAST", x), 1
        if k == "R":
            return (("BARRIER_ASYNC_LOCK", x) if ph == 0 else ("BARRIER_WAIT", x)), 1
        if k == "S":
            return (("COMM_ASYNC_SEND", x) if ph == 0 else ("COMM_WAIT", x)), 1
        if k == "G":
            return (("COMM_ASYNC_RECV", x) if ph == 0 else ("COMM_WAIT", x)), 1
        if k == "J":
            return ("ACTOR_JOIN", x), 1
        if k == "K":
            return ("ACTOR_CREATE", x), 1
        if k == "Q":
            return ("RANDOM",), y - x + 1
        if k == "Y":
            return ("ACTOR_SLEEP",), 1
        raise ValueError("no pending transition for op %s" % (ops[pc],))

    OBSERVER = {
        "COMM_ASYNC_SEND": "CommAsyncSend", "COMM_ASYNC_RECV": "CommAsyncRecv", "COMM_WAIT": "CommWait",
        "ACTOR_JOIN": "ActorJoin", "ACTOR_CREATE": "ActorCreate", "ACTOR_EXIT": "ActorExit", "ACTOR_SLEEP": "ActorSleep",
        "RANDOM": "Random",
    }

    def enabled(self, s, a):
        A = s[0][a]
        if A[A_ST] != LIVE:
            return False
        t, _ = self.pending(s, a)
        ty = t[0]
        if ty == "MUTEX_WAIT":
            if self.relock_ok:
                return s[1][t[1]][0] == a
            return a not in s[1][t[1]][1] and s[1][t[1]][0] == a
        if ty == "SEM_WAIT":
            return a in s[2][t[1]][2]
        if ty == "CONDVAR_WAIT":
            return t[3] or a in s[3][t[1]][1]
        if ty == "BARRIER_WAIT":
            return a in s[4][t[1]][1]
        if ty == "COMM_WAIT":
            return A[A_TMP] is not None and A[A_TMP][0] == "m"
        if ty == "ACTOR_JOIN":
            return s[0][t[1]][A_ST] == DONE
        return True

    def enabled_actors(self, s):
        return [a for a in range(self.n) if self.enabled(s, a)]

    # ------------------------------------------------------------------ executing one transition
    @staticmethod
    def _mutex_release(w, m):
        owner, q = w.mu[m]
        if q:
            w.mu[m] = [q[0], q[1:]]
        else:
            w.mu[m] = [-1, ()]

    @staticmethod
    def _mutex_lock_async(w, m, a):
        owner, q = w.mu[m]
        if owner == -1:
            w.mu[m] = [a, q]
        else:
            w.mu[m] = [owner, q + (a,)]

    def execute(self, s, a, times=0):
        """Successor state after actor a executes its pending (enabled) transition. May raise AssertionFailed."""
        w = W(s)
        A = w.ac[a]
        ops = self.ops[a]
        pc, ph = A[A_PC], A[A_PH]
        nxt = True        # move to the next op
        if pc >= len(ops):
            nxt = False
            if A[A_HM]:
                m = A[A_HM][0]
                A[A_HM] = A[A_HM][1:]
                self._mutex_release(w, m)
            elif A[A_HS]:
                x = A[A_HS][0]
                A[A_HS] = A[A_HS][1:]
                self._sem_release(w, x)
            else:
                A[A_EXIT] = False      # ACTOR_EXIT executed: the actor is gone
        else:
            k, x, y = ops[pc]
            if k == "L":
                if ph == 0:
                    self._mutex_lock_async(w, x, a)
                    A[A_PH] = 1
                    nxt = False
                else:
                    A[A_HM] = tuple(sorted(set(A[A_HM]) | {x}))
                    A[A_PH] = 0
            elif k == "U":
                A[A_HM] = tuple(m for m in A[A_HM] if m != x)
                self._mutex_release(w, x)
            elif k == "T":
                ok = w.mu[x][0] == -1
                if ok:
                    w.mu[x][0] = a
                    A[A_HM] = tuple(sorted(A[A_HM] + (x,)))
                A[A_OBS] += "t%d=%d," % (x, ok)
                A[A_LAST] = int(ok)
            elif k == "P":
                if ph == 0:
                    v, q, g = w.se[x]
                    if v > 0:
                        w.se[x] = [v - 1, q, tuple(sorted(g + (a,)))]
                    else:
                        w.se[x] = [v, q + (a,), g]
                    A[A_PH] = 1
                    nxt = False
                else:
                    v, q, g = w.se[x]
                    w.se[x] = [v, q, tuple(i for i in g if i != a)]
                    if self.p.sems[x][1]:
                        A[A_HS] = tuple(sorted(A[A_HS] + (x,)))
                    A[A_PH] = 0
            elif k == "V":
                if self.p.sems[x][1]:
                    A[A_HS] = tuple(i for i in A[A_HS] if i != x)
                self._sem_release(w, x)
            elif k in "Ww":
                if ph == 0:
                    self._mutex_release(w, y)
                    q, g = w.cv[x]
                    w.cv[x] = [q + (a,), g]
                    A[A_PH] = 1
                    nxt = False
                elif ph == 1:
                    q, g = w.cv[x]
                    if a in g:
                        w.cv[x] = [q, tuple(i for i in g if i != a)]
                        A[A_TMP] = ("w", 0)
                    else:                      # timed wait fired before any signal
                        assert k == "w"
                        w.cv[x] = [tuple(i for i in q if i != a), g]
                        A[A_TMP] = ("w", 1)
                    self._mutex_lock_async(w, y, a)
                    A[A_PH] = 2
                    nxt = False
                else:
                    if k == "w":
                        A[A_OBS] += "w%d=%d," % (x, A[A_TMP][1])
                        A[A_LAST] = A[A_TMP][1]
                    A[A_TMP] = None
                    A[A_PH] = 0
            elif k == "N":
                q, g = w.cv[x]
                if q:
                    w.cv[x] = [q[1:], tuple(sorted(g + (q[0],)))]
            elif k == "A":
                q, g = w.cv[x]
                if q:
                    w.cv[x] = [(), tuple(sorted(g + q))]
            elif k == "R":
                if ph == 0:
                    wt, g = w.ba[x]
                    if len(wt) < self.p.barriers[x] - 1:
                        w.ba[x] = [wt + (a,), g]
                    else:
                        w.ba[x] = [(), tuple(sorted(g + wt + (a,)))]
                    A[A_PH] = 1
                    nxt = False
                else:
                    wt, g = w.ba[x]
                    w.ba[x] = [wt, tuple(i for i in g if i != a)]
                    A[A_PH] = 0
            elif k == "S":
                if ph == 0:
                    q = w.mb[x]
                    if q and q[0][0] == "r":
                        r = q[0][1]
                        w.mb[x] = q[1:]
                        w.ac[r][A_TMP] = ("m", y, a, r)
                        A[A_TMP] = ("m", y, a, r)
                    else:
                        w.mb[x] = q + (("s", a, y),)
                        A[A_TMP] = ("p",)
                    A[A_PH] = 1
                    nxt = False
                else:
                    A[A_TMP] = None
                    A[A_PH] = 0
            elif k == "G":
                if ph == 0:
                    q = w.mb[x]
                    if q and q[0][0] == "s":
                        _, snd, v = q[0]
                        w.mb[x] = q[1:]
                        w.ac[snd][A_TMP] = ("m", v, snd, a)
                        A[A_TMP] = ("m", v, snd, a)
                    else:
                        w.mb[x] = q + (("r", a),)
                        A[A_TMP] = ("p",)
                    A[A_PH] = 1
                    nxt = False
                else:
                    v = A[A_TMP][1]
                    A[A_OBS] += "g%d=%d," % (x, v)
                    A[A_LAST] = v
                    A[A_TMP] = None
                    A[A_PH] = 0
            elif k == "J":
                pass
            elif k == "K":
                C = w.ac[x]
                C[A_ST] = LIVE
                w.pids = w.pids + (x,)
                try:
                    self._advance(w, x)
                except AssertionFailed as e:
                    e.state = w.freeze()
                    raise
            elif k == "Q":
                v = x + times
                A[A_OBS] += "q=%d," % v
                A[A_LAST] = v
            elif k == "Y":
                pass
            else:
                raise ValueError("cannot execute %s" % (ops[pc],))
        if nxt:
            A[A_PC] = pc + 1
        try:
            self._advance(w, a)
        except AssertionFailed as e:
            e.state = w.freeze()
            raise
        return w.freeze()

    @staticmethod
    def _sem_release(w, x):
        v, q, g = w.se[x]
        if q:
            w.se[x] = [v, q[1:], tuple(sorted(g + (q[0],)))]
        else:
            w.se[x] = [v + 1, q, g]

    # ------------------------------------------------------------------ fingerprints (same text as mc_vm)
    def fingerprint(self, s, observers=True, failing=None):
        out = []
        for i, A in enumerate(s[0]):
            if A[A_ST] == N_:
                out.append("%d:N:%s" % (i, A[A_OBS]))
            elif A[A_ST] == DONE or (A[A_EXIT] and A[A_PC] >= len(self.ops[i]) and not A[A_HM] and not A[A_HS]):
                out.append("%d:D:%s" % (i, A[A_OBS]))
            else:
                b = "B%d" % A[A_PC]
                if failing is not None:
                    b = ("B%d" % A[A_PC]) if i == failing else "B"
                elif observers:
                    t, _ = self.pending(s, i)
                    b += "@" + self.OBSERVER.get(t[0], t[0])
                out.append("%d:%s:%s" % (i, b, A[A_OBS]))
        return "|".join(out)

    def own(self, s, a):
        """Projection of a failure fingerprint on the failing actor (what a native run determines for sure)."""
        A = s[0][a]
        return "%d:B%d:%s" % (a, A[A_PC], A[A_OBS])

    # ------------------------------------------------------------------ what simgrid-mc prints for a transition
    def expect(self, s, s2, a, t, times):
        """(type word, {field: value}) that Transition::to_string() must show for transition t of actor a executed from s
        (s2 = successor; the observer is serialised *after* the execution)."""
        pid = lambda i: s2[8].index(i) + 1
        ty = t[0]
        if ty.startswith("MUTEX_"):
            o = s2[1][t[1]][0]
            return ty, {"mutex": t[1], "owner": (pid(o) if o >= 0 else -1)}
        if ty in ("SEM_ASYNC_LOCK", "SEM_UNLOCK"):
            v, q, _ = s2[2][t[1]]
            return ty, {"semaphore": t[1], "capacity": v - len(q)}
        if ty == "SEM_WAIT":
            return ty, {"semaphore": t[1], "capacity": s2[2][t[1]][0], "granted": "yes"}
        if ty == "CONDVAR_ASYNC_LOCK":
            return ty, {"cond": t[1], "mutex": t[2]}
        if ty in ("CONDVAR_SIGNAL", "CONDVAR_BROADCAST"):
            return ty, {"cond": t[1]}
        if ty == "CONDVAR_WAIT":
            return ty, {"cond": t[1], "mutex": t[2], "granted": "yes" if a in s[3][t[1]][1] else "no",
                        "timeout": "yes" if t[3] else "none"}
        if ty.startswith("BARRIER_"):
            return ty, {"barrier": t[1]}
        if ty == "COMM_ASYNC_SEND":
            return "iSend", {"mbox": t[1]}
        if ty == "COMM_ASYNC_RECV":
            return "iRecv", {"mbox": t[1]}
        if ty == "COMM_WAIT":
            m = s[0][a][A_TMP]
            return "WaitComm", {"from": pid(m[2]), "to": pid(m[3]), "mbox": t[1]}
        if ty == "RANDOM":
            k, x, y = self.ops[a][s[0][a][A_PC]]
            return "Random", {"min": x, "max": y, "value": times}
        if ty == "ACTOR_JOIN":
            return "ActorJoin", {"target": pid(t[1])}
        if ty == "ACTOR_CREATE":
            return "ActorCreate", {"child": pid(t[1])}
        if ty == "ACTOR_EXIT":
            return "ActorExit", {}
        if ty == "ACTOR_SLEEP":
            return "ActorSleep", {}
        raise ValueError(ty)

    def blocked(self, s):
        """{pid: (observer type word, object id or None)} of the live actors of s (the application's view of who waits
        for what: EngineImpl::display_all_actor_status)."""
        out = {}
        for i, A in enumerate(s[0]):
            if A[A_ST] != LIVE:
                continue
            t, _ = self.pending(s, i)
            out[s[8].index(i) + 1] = (t[0], t[1] if len(t) > 1 and t[0] not in ("RANDOM",) else None)
        return out

    def replay_checked(self, steps, reported=None, order=None):
        """Follow the path [(pid, times)] from the initial state, checking at every step that the actor exists, is
        enabled, that times_considered is in range and - when `reported` (list of parsed trace lines
        (pid, type word, {field: value})) is given - that the line simgrid-mc printed for this step is the transition the
        reference executes, field by field.  Returns dict(ok, reason, step, kind, fingerprint, state, failing, n)."""
        steps = self.parse_path(steps) if isinstance(steps, str) else steps
        try:
            s = self.initial(order)
        except AssertionFailed as e:
            return {"ok": not steps, "reason": "the start-up round already fails", "kind": "ASSERT", "step": -1,
                    "fingerprint": "startup:%d" % e.actor, "state": None, "failing": e.actor, "n": 0, "types": []}
        types = []
        if reported is not None and len(reported) != len(steps):
            return {"ok": False, "reason": "the textual trace has %d lines, the path %d steps" % (len(reported), len(steps)),
                    "kind": None, "step": -1, "fingerprint": None, "state": s, "failing": None, "n": 0, "types": types,
                    "length_mismatch": True}
        for i, (pid, times) in enumerate(steps):
            bad = None
            if pid < 1 or pid > len(s[8]):
                bad = "no actor with pid %d" % pid
            else:
                a = s[8][pid - 1]
                if s[0][a][A_ST] != LIVE:
                    bad = "actor %d (pid %d) is terminated" % (a, pid)
                elif not self.enabled(s, a):
                    bad = "actor %d (pid %d) is not enabled: pending %s" % (a, pid, self.pending(s, a)[0])
                else:
                    t, mx = self.pending(s, a)
                    if times >= mx or times < 0:
                        bad = "times_considered %d out of [0,%d)" % (times, mx)
            if bad:
                return {"ok": False, "reason": "step %d: %s" % (i, bad), "kind": None, "step": i, "fingerprint": None,
                        "state": s, "failing": None, "n": i, "types": types}
            types.append(t[0])
            failed = None
            try:
                s2 = self.execute(s, a, times)
            except AssertionFailed as e:
                failed = e
                s2 = e.state
            if reported is not None:
                rp, rty, rf = reported[i]
                ety, ef = self.expect(s, s2, a, t, times)
                if rp != pid:
                    bad = "trace line says actor %d, path says %d" % (rp, pid)
                elif rty != ety:
                    bad = "simgrid-mc reports %s, the reference executes %s" % (rty, ety)
                else:
                    for k, v in ef.items():
                        if k in rf and str(rf[k]) != str(v):
                            bad = "%s: field %s is %s in the report, %s in the reference" % (ety, k, rf[k], v)
                            break
                        if k not in rf:
                            bad = "%s: field %s missing from the report" % (ety, k)
                            break
                if bad:
                    return {"ok": False, "reason": "step %d: %s" % (i, bad), "kind": None, "step": i, "fingerprint": None,
                            "state": s, "failing": None, "n": i, "field_mismatch": (ety, rty), "types": types}
            if failed is not None:
                last = i == len(steps) - 1
                return {"ok": last, "reason": "" if last else "an assertion fails at step %d, before the end of the path" % i,
                        "kind": "ASSERT", "step": i, "fingerprint": self.fingerprint(s2, failing=failed.actor), "state": s2,
                        "failing": failed.actor, "n": i + 1, "types": types}
            s = s2
        en = self.enabled_actors(s)
        live = any(A[A_ST] == LIVE for A in s[0])
        kind = "RUNNING" if en else ("DEADLOCK" if live else "END")
        return {"ok": True, "reason": "", "kind": kind, "step": len(steps), "fingerprint": self.fingerprint(s), "state": s,
                "failing": None, "n": len(steps), "types": types}

    # ------------------------------------------------------------------ exhaustive exploration over states
    def explore(self, max_states=200000):
        """Returns dict: end (set of fingerprints), deadlock (set), asserts (set), states, complete (bool),
        paths (number of maximal interleavings, None when not complete), max_depth."""
        res = {"end": set(), "deadlock": set(), "assert": set(), "states": 0, "complete": True, "paths": None,
               "transitions": 0, "end_n": set(), "deadlock_n": set(), "assert_own": set()}
        try:
            s0 = self.initial()
        except AssertionFailed as e:
            res["assert"].add("startup:%d" % e.actor)
            res["assert_own"].add(self.own(e.state, e.actor) if e.state is not None else "startup:%d" % e.actor)
            res["paths"] = 1
            return res
        succ = {}
        order = []
        stack = [s0]
        seen = {s0}
        while stack:
            s = stack.pop()
            order.append(s)
            if len(seen) > max_states:
                res["complete"] = False
                break
            nx = []
            en = self.enabled_actors(s)
            if not en:
                live = any(A[A_ST] == LIVE for A in s[0])
                (res["deadlock"] if live else res["end"]).add(self.fingerprint(s))
                (res["deadlock_n"] if live else res["end_n"]).add(self.fingerprint(s, observers=False))
            for a in en:
                _, mx = self.pending(s, a)
                for t in range(mx):
                    res["transitions"] += 1
                    try:
                        n = self.execute(s, a, t)
                    except AssertionFailed as e:
                        nx.append(("assert", a, t))
                        res["assert"].add(self.fingerprint(e.state, failing=e.actor))
                        res["assert_own"].add(self.own(e.state, e.actor))
                        continue
                    nx.append(n)
                    if n not in seen:
                        seen.add(n)
                        stack.append(n)
            succ[s] = nx
        res["states"] = len(seen)
        if res["complete"]:
            # number of maximal interleavings = number of root-to-leaf paths of the (acyclic) state graph
            cnt = {}
            depth = {}
            for s in self._topo(s0, succ):
                nx = succ[s]
                if not nx:
                    cnt[s] = 1
                    depth[s] = 0
                else:
                    cnt[s] = sum(1 if isinstance(n, tuple) and n and n[0] == "assert" else cnt[n] for n in nx)
                    depth[s] = 1 + max(0 if isinstance(n, tuple) and n and n[0] == "assert" else depth[n] for n in nx)
            res["paths"] = cnt[s0]
            res["max_depth"] = depth[s0]
        return res

    @staticmethod
    def _topo(s0, succ):
        """States in reverse topological order (children before parents), iteratively."""
        out = []
        state = {}
        stack = [(s0, iter(succ[s0]))]
        state[s0] = 1
        while stack:
            s, it = stack[-1]
            adv = False
            for n in it:
                if isinstance(n, tuple) and n and n[0] == "assert":
                    continue
                if n not in state:
                    state[n] = 1
                    stack.append((n, iter(succ[n])))
                    adv = True
                    break
            if not adv:
                out.append(s)
                stack.pop()
        return out

    # ------------------------------------------------------------------ replay of a checker path
    @staticmethod
    def parse_path(path):
        out = []
        for c in path.strip().strip(";").split(";"):
            if not c or c == "-":
                continue
            if "/" in c:
                p, t = c.split("/")
                out.append((int(p), int(t)))
            else:
                out.append((int(c), 0))
        return out

    def replay(self, path, want_transitions=False):
        """Follow a path of (pid, times). Returns dict(ok, reason, state, kind, fingerprint, transitions)."""
        steps = self.parse_path(path) if isinstance(path, str) else path
        trs = []
        try:
            s = self.initial()
        except AssertionFailed as e:
            return {"ok": not steps, "kind": "ASSERT", "fingerprint": "startup:%d" % e.actor, "transitions": trs, "state": None}
        for i, (pid, times) in enumerate(steps):
            if pid < 1 or pid > len(s[8]):
                return {"ok": False, "reason": "step %d: no actor with pid %d" % (i, pid), "transitions": trs, "state": s}
            a = s[8][pid - 1]
            if not self.enabled(s, a):
                return {"ok": False, "reason": "step %d: actor %d (pid %d) is not enabled" % (i, a, pid), "transitions": trs, "state": s}
            t, mx = self.pending(s, a)
            if times >= mx:
                return {"ok": False, "reason": "step %d: times_considered %d >= %d" % (i, times, mx), "transitions": trs, "state": s}
            if want_transitions:
                trs.append(self.describe(s, a, t))
            try:
                s = self.execute(s, a, times)
            except AssertionFailed as e:
                fp = self.fingerprint(e.state, failing=e.actor)
                ok = i == len(steps) - 1
                return {"ok": ok, "reason": "" if ok else "assertion fails at step %d, before the end of the path" % i,
                        "kind": "ASSERT", "fingerprint": fp, "transitions": trs, "state": None}
        en = self.enabled_actors(s)
        live = any(A[A_ST] == LIVE for A in s[0])
        kind = "RUNNING" if en else ("DEADLOCK" if live else "END")
        return {"ok": True, "kind": kind, "fingerprint": self.fingerprint(s), "transitions": trs, "state": s}

    def describe(self, s, a, t):
        """Transition descriptor used by the independence relation: (type, pid, objects...)."""
        pid = s[8].index(a) + 1
        ty = t[0]
        if ty == "ACTOR_JOIN":
            tgt = s[8].index(t[1]) + 1
            return (ty, pid, tgt)
        if ty == "ACTOR_CREATE":
            return (ty, pid, len(s[8]) + 1)
        if ty == "COMM_WAIT":
            return (ty, pid, t[1])
        return (ty, pid) + tuple(t[1:])


# ---------------------------------------------------------------------- independence (conservative, for C40's sub-check)
def dependent(t1, t2):
    """Transcription of Transition::dispatch_depends restricted to the transition kinds of the spec.
    Over-approximates dependency where the checker's rule needs run-time ids we do not model (comm ids): a pair
    declared independent here is declared independent by the checker too."""
    if t1[1] == t2[1]:
        return True
    a, b = t1[0], t2[0]
    for x, y in ((t1, t2), (t2, t1)):
        if x[0] == "ACTOR_JOIN" and x[2] == y[1]:
            return True
        if x[0] == "ACTOR_CREATE" and (x[2] == y[1] or y[0] == "ACTOR_CREATE"):
            return True
    if a in ("RANDOM", "ACTOR_SLEEP", "ACTOR_EXIT", "ACTOR_JOIN", "ACTOR_CREATE") or \
       b in ("RANDOM", "ACTOR_SLEEP", "ACTOR_EXIT", "ACTOR_JOIN", "ACTOR_CREATE"):
        return False
    fa, fb = a.split("_")[0], b.split("_")[0]
    if fa == "MUTEX" and fb == "MUTEX":
        if t1[2] != t2[2]:
            return False
        pair = frozenset((a, b))
        dep = [frozenset(("MUTEX_ASYNC_LOCK",)), frozenset(("MUTEX_ASYNC_LOCK", "MUTEX_TRYLOCK")), frozenset(("MUTEX_TRYLOCK",)),
               frozenset(("MUTEX_TRYLOCK", "MUTEX_UNLOCK")), frozenset(("MUTEX_UNLOCK", "MUTEX_WAIT"))]
        return pair in dep
    if fa == "SEM" and fb == "SEM":
        if t1[2] != t2[2]:
            return False
        pair = frozenset((a, b))
        return pair in (frozenset(("SEM_ASYNC_LOCK",)), frozenset(("SEM_UNLOCK", "SEM_WAIT")))
    if fa == "BARRIER" and fb == "BARRIER":
        return t1[2] == t2[2]                                     # conservative: same barrier => dependent
    if fa == "COMM" and fb == "COMM":
        return t1[2] == t2[2]                                     # conservative: same mailbox => dependent
    if fa == "CONDVAR" and fb == "CONDVAR":
        pair = frozenset((a, b))
        if pair in (frozenset(("CONDVAR_ASYNC_LOCK", "CONDVAR_SIGNAL")), frozenset(("CONDVAR_ASYNC_LOCK", "CONDVAR_BROADCAST")),
                    frozenset(("CONDVAR_SIGNAL", "CONDVAR_WAIT")), frozenset(("CONDVAR_BROADCAST", "CONDVAR_WAIT"))):
            return t1[2] == t2[2]
        if pair == frozenset(("CONDVAR_WAIT",)):
            return t1[3] == t2[3]
        return False
    if {fa, fb} == {"MUTEX", "CONDVAR"}:
        m, c = (t1, t2) if fa == "MUTEX" else (t2, t1)
        if c[0] == "CONDVAR_ASYNC_LOCK" and m[0] in ("MUTEX_WAIT", "MUTEX_UNLOCK", "MUTEX_TRYLOCK"):
            return m[2] == c[3]
        if c[0] == "CONDVAR_WAIT" and m[0] in ("MUTEX_ASYNC_LOCK", "MUTEX_TRYLOCK"):
            return m[2] == c[3]
        return False
    return False


def foata(trs, dep=dependent):
    """Foata normal form of a sequence of transition descriptors under the dependency relation."""
    levels = []
    lvl_of = []
    for i, t in enumerate(trs):
        l = 0
        for j in range(i):
            if dep(trs[j], t) and lvl_of[j] + 1 > l:
                l = lvl_of[j] + 1
        lvl_of.append(l)
        while len(levels) <= l:
            levels.append([])
        levels[l].append(t)
    return tuple(tuple(sorted(x, key=repr)) for x in levels)


if __name__ == "__main__":
    prog = parse(open(sys.argv[1]).read())
    r = Ref(prog).explore()
    print("states", r["states"], "paths", r["paths"], "end", len(r["end"]), "deadlock", len(r["deadlock"]), "assert", len(r["assert"]))
    for k in ("end", "deadlock", "assert"):
        for f in sorted(r[k])[:20]:
            print(k.upper(), f)
