"""C13 oracle: checks the history recorded by harness/dag.cpp (one scenario = the records between 'B' and 'Z').

The history is a totally ordered list of records: driver operations (Q ... R/X, with the context that performed them), skipped
operations (K), livelock (L), start signals (s = on_this_start, S = class-wide on_start, both with a snapshot of every activity's get_state()),
completion signals (c / C), vetoes (v), structure of a loaded DAG (G) and final states (F).

The oracle replays the *operations* on a small model of the workflow (which edges are declared, which resources are set, which
activities were asked to start) and checks on every start / completion record what the statement of C13 says:

  R1  an activity starts only after every predecessor it has at that moment has finished
        sequence level: the predecessor's completion signal was already seen, or its get_state() is FINISHED in the snapshot;
        date level:     completion-signal date of the predecessor <= start-signal date (and get_finish_time <= get_start_time);
  R2  an activity starts only once it is assigned (all its resources were set by operations that precede the start record);
  R3  when nothing fails, every activity is assigned and was asked to start (explicitly, or by the completion of its last
      predecessor), every activity finishes;
  R4  an activity with predecessors that is assigned no later than the latest finish date L of its predecessors starts at L
      (SimGrid's timing precision, 1e-9, is the tolerance).

Nothing else is demanded: signals may fire several times (first occurrence is used), the order between the completion signal of a
predecessor and the start signal of its successor at the same date is not constrained, and dates are only compared to each other
(the oracle never predicts a duration).
"""

EPS = 1e-9          # precision/timing (documented default)
FAILED_STATES = ("FAILED", "CANCELED")
NEED = {"E": {"h"}, "C": {"s", "d"}, "I": {"h"}}
PART = {"host": "h", "disk": "h", "src": "s", "dst": "d"}


class Act:
    __slots__ = ("id", "kind", "amount", "idx", "parts", "assigned_at", "start_req", "last_start_req", "live", "released", "late",
                 "at_start", "first_start", "nstarts", "first_done", "ndone", "final", "removed", "last_removal", "start_req_before_assign",
                 "loaded", "start_rec")

    def __init__(self, id_, kind, amount, idx):
        self.id, self.kind, self.amount, self.idx = id_, kind, amount, idx
        self.parts = set()
        self.assigned_at = None        # (seq, clock) of the operation that completed the assignment
        self.start_req = None          # (seq, clock) of the first start request (explicit start() or release by the last predecessor)
        self.last_start_req = None
        self.live = set()              # declared predecessors that have not finished yet (model)
        self.released = {}             # predecessor -> (seq, clock) of its completion while the edge was declared
        self.late = {}                 # predecessor -> (seq, clock) of its completion: edge declared after it had finished
        self.at_start = set()          # live predecessors at the first start record (finished according to the snapshot only)
        self.first_start = None        # (seq, clock)
        self.start_rec = None
        self.nstarts = 0
        self.first_done = None         # (seq, clock, state)
        self.ndone = 0
        self.final = None              # (state, ndeps, nsucc, assigned, api_start, api_finish)
        self.removed = 0
        self.last_removal = None
        self.start_req_before_assign = False
        self.loaded = False

    def assigned(self):
        return self.parts >= NEED[self.kind]


class Result:
    def __init__(self):
        self.violations = []     # (key, what)
        self.stats = {}
        self.nontrivial = False
        self.fully_checked = True
        self.all_finished = False

    def vio(self, key, what):
        self.violations.append((key, what))

    def count(self, k, n=1):
        self.stats[k] = self.stats.get(k, 0) + n


def split_scenarios(out):
    """Yield (name, mode, lines) for every complete B..Z block of a harness output; the last incomplete block (crash) is yielded with
    complete=False."""
    cur = None
    for line in out.splitlines():
        if line.startswith("B "):
            f = line.split()
            cur = [f[1], f[2], [line], False]
        elif cur is not None:
            cur[2].append(line)
            if line.startswith("Z "):
                cur[3] = True
                yield tuple(cur)
                cur = None
    if cur is not None:
        yield tuple(cur)


def check(lines, expected_edges=None, mode=None):
    """lines: records of one scenario. expected_edges: for loader scenarios, the (pred, succ) name pairs declared by the input file.
    Returns a Result."""
    res = Result()
    acts = {}
    order = []
    stacks = {}
    failed = False
    livelock = False
    loader_edges = set()
    base = 0.0

    def snap_state(snap, a):
        if snap is None or snap == "-" or a.idx >= len(snap):
            return None
        return snap[a.idx]

    def on_assign_progress(a, seq, clock):
        if a.assigned() and a.assigned_at is None:
            a.assigned_at = (seq, clock)

    def check_start_conditions(a, seq, clock, snap, flag_assigned, what):
        """R1 (sequence level) and R2 at a start record (or at a completion record of an activity never seen starting)."""
        if not a.assigned():
            res.vio("C13:start-before-assigned:%s" % a.kind, "%s %s (%s) at %.17g although the program has not set %s yet" %
                    (a.id, what, a.kind, clock, sorted(NEED[a.kind] - a.parts)))
        elif flag_assigned == 0:
            res.vio("C13:start-while-is_assigned-false:%s" % a.kind, "%s %s at %.17g with is_assigned()==false" % (a.id, what, clock))
        for p in sorted(a.live):
            P = acts[p]
            st = snap_state(snap, P)
            if P.first_done is None and st != "F":
                res.vio("C13:start-before-pred-finished:%s<-%s" % (a.kind, P.kind),
                        "%s %s at %.17g while its predecessor %s has not finished (no completion signal yet, get_state()=%s)" %
                        (a.id, what, clock, p, st))
            a.at_start.add(p)
        a.live.clear()

    for seq, line in enumerate(lines):
        f = line.split()
        if not f:
            continue
        t = f[0]
        if t == "B":
            base = float(f[3])
            mode = mode or f[2]
        elif t == "Q":
            ctx, clock, op = f[1], float(f[2]), f[3:]
            stacks.setdefault(ctx, []).append((seq, op))
            k = op[0]
            res.count("ops." + k)
            if k == "new":
                a = Act(op[1], op[2], float(op[3]), len(order))
                acts[a.id] = a
                order.append(a.id)
            elif k in PART:
                a = acts[op[1]]
                if not a.assigned() and a.start_req is not None:
                    a.start_req_before_assign = True
                a.parts.add(PART[k])
                on_assign_progress(a, seq, clock)
                if a.first_start is None and a.start_req is not None:
                    res.count("assign.after_start_request")
            elif k == "start":
                a = acts[op[1]]
                if a.start_req is None:
                    a.start_req = (seq, clock)
                a.last_start_req = (seq, clock)
            elif k in ("dep", "depf"):
                p, s = acts[op[1]], acts[op[2]]
                if p.first_done is not None:
                    s.late[p.id] = p.first_done[:2]
                    res.count("edges.declared_after_pred_finished")
                else:
                    s.live.add(p.id)
                    res.count("edges.declared")
                    if s.start_req is not None:
                        res.count("edges.declared_after_succ_start_request")
            elif k in ("undep", "undeps"):
                p, s = acts[op[1]], acts[op[2]]
                s.live.discard(p.id)
                s.late.pop(p.id, None)
                s.removed += 1
                s.last_removal = (seq, clock)
                res.count("edges.removed")
        elif t == "R":
            st = stacks.get(f[1])
            if st:
                st.pop()
        elif t == "X":
            st = stacks.get(f[1])
            op = st.pop()[1] if st else ["?"]
            res.vio("C13:unexpected-exception:%s" % op[0], "valid operation %r raised: %s" % (" ".join(op), " ".join(f[2:])))
        elif t == "K":
            res.count("ops.skipped." + f[2])
        elif t == "G":
            # G <id> <kind> <state> <parts> <remaining> | deps | succs
            bar = [i for i, x in enumerate(f) if x == "|"]
            a = Act(f[1], f[2], float(f[5]), len(order))
            a.loaded = True
            acts[a.id] = a
            order.append(a.id)
            a.parts = set(f[4]) - {"-"}
            if a.assigned():
                a.assigned_at = (seq, base)
            if f[3] != "INITED":
                a.start_req = a.last_start_req = (seq, base)
            for d in f[bar[0] + 1:bar[1]]:
                a.live.add(d)
                loader_edges.add((d, a.id))
        elif t in ("s", "S"):
            clock, a = float(f[1]), acts.get(f[2])
            if a is None:
                continue
            snap = f[7] if t == "s" else f[3]
            a.nstarts += 1
            res.count("signals.on_this_start" if t == "s" else "signals.on_start")
            if a.first_done is not None:
                res.count("signals.start_after_own_completion")
            if a.first_start is None:
                a.first_start = (seq, clock)
                a.start_rec = line
                check_start_conditions(a, seq, clock, snap, None, "starts")
            elif a.live:
                # a later start record (e.g. the second on_start of a Comm): the same conditions apply
                check_start_conditions(a, seq, clock, snap, None, "starts again")
            if t == "s" and a.first_done is None:
                # what the activity itself reports in its on_this_start callback
                if int(f[4]) != 0:
                    res.vio("C13:start-with-unsolved-dependencies:%s" % a.kind,
                            "%s starts at %.17g while get_dependencies() still has %s element(s)" % (a.id, clock, f[4]))
                if int(f[5]) == 0:
                    res.vio("C13:start-while-is_assigned-false:%s" % a.kind, "%s starts at %.17g with is_assigned()==false" % (a.id, clock))
        elif t in ("c", "C"):
            clock, a, state = float(f[1]), acts.get(f[2]), f[3]
            if a is None:
                continue
            a.ndone += 1
            res.count("signals.on_this_completion" if t == "c" else "signals.on_completion")
            if state in FAILED_STATES:
                failed = True
                res.vio("C13:unexpected-failure:%s" % a.kind, "%s completes with state %s at %.17g although nothing fails in this scenario" %
                        (a.id, state, clock))
                continue
            if a.first_done is None:
                a.first_done = (seq, clock, state)
                if a.first_start is None:
                    # never seen starting: the completion implies a start no later than now
                    check_start_conditions(a, seq, clock, None, None, "completes (without any start signal)")
                    a.first_start = (seq, clock)
                    res.count("signals.completion_without_start")
                for s in acts.values():
                    if a.id in s.live:
                        s.live.discard(a.id)
                        s.released[a.id] = (seq, clock)
                        if not s.live and s.start_req is None:
                            s.start_req = (seq, clock)         # release_dependencies() asks the successor to start
                        if not s.live:
                            s.last_start_req = (seq, clock)
        elif t == "L":
            a = acts.get(f[2])
            livelock = True
            res.vio("C13:livelock:repeated-veto:%s" % (a.kind if a else "?"),
                    "the simulation stops progressing at %s: %s is vetoed again and again (100000 times in a row) at that date; nothing "
                    "else can run, so no activity ever finishes" % (f[1], f[2]))
        elif t == "F":
            a = acts.get(f[1])
            if a is not None:
                a.final = (f[2], int(f[3]), int(f[4]), int(f[5]), float(f[6]), float(f[7]))

    # ---- loader scenarios: the declared dependencies must be in the built DAG --------------------------------------------------
    if expected_edges is not None:
        for (p, s) in sorted(expected_edges):
            if p not in acts or s not in acts:
                res.vio("C13:loader-missing-activity", "the input file declares %s -> %s but the loaded DAG has no activity %s" %
                        (p, s, p if p not in acts else s))
            elif (p, s) not in loader_edges:
                res.vio("C13:loader-missing-edge", "the input file declares the dependency %s -> %s, the loaded DAG does not have it" % (p, s))
        res.count("loader.edges_expected", len(expected_edges))
        res.count("loader.edges_built", len(loader_edges))

    # ---- date-level checks (R1 dates, R4) ------------------------------------------------------------------------------------------
    for a in acts.values():
        if a.first_start is None:
            continue
        ts = a.first_start[1]
        preds = {}
        for p in a.at_start:
            if acts[p].first_done is not None:
                preds[p] = acts[p].first_done[:2]
            else:
                res.vio("C13:pred-never-completes-but-succ-started:%s<-%s" % (a.kind, acts[p].kind),
                        "%s started at %.17g, its predecessor %s never fired a completion signal" % (a.id, ts, p))
        preds.update(a.released)
        allp = dict(preds)
        allp.update(a.late)
        for p, (pseq, pclock) in sorted(allp.items()):
            res.count("edges.checked")
            if pclock > ts + EPS:
                res.vio("C13:start-date-before-pred-finish-date:%s<-%s" % (a.kind, acts[p].kind),
                        "%s starts at %.17g, before its predecessor %s finishes (%.17g)" % (a.id, ts, p, pclock))
            P = acts[p]
            if a.final and P.final and a.final[4] >= 0 and P.final[5] >= 0 and P.final[5] > a.final[4] + EPS:
                res.vio("C13:get_start_time-before-pred-get_finish_time:%s<-%s" % (a.kind, P.kind),
                        "%s.get_start_time()=%.17g < %s.get_finish_time()=%.17g" % (a.id, a.final[4], p, P.final[5]))
            if pseq > a.first_start[0]:
                res.count("order.start_signal_before_pred_completion_signal_same_date")
        if preds:
            res.count("activities.with_predecessors_started")
            L = max(c for (_, c) in allp.values())
            Lrel = max(c for (_, c) in preds.values())
            ties = sum(1 for (_, c) in preds.values() if abs(c - Lrel) <= EPS)
            if ties >= 2:
                res.count("ties.several_preds_finish_at_the_same_date")
            if len(preds) >= 3:
                res.count("shape.fan_in_ge3")
            strict = a.assigned_at is not None and a.assigned_at[1] <= Lrel + EPS and a.removed == 0 and not a.late
            if strict:
                res.count("start_date.checked_equal_latest_pred_finish")
                if abs(ts - Lrel) > EPS:
                    cls = a.kind
                    if a.kind == "C" and a.amount == 0 and a.start_req_before_assign:
                        cls = "zero-byte-comm-started-before-assignment"     # same cause as the 'never-starts' class (something retried start())
                    res.vio("C13:start-date-not-latest-pred-finish:%s" % cls,
                            "%s is assigned at %.17g, its predecessors finish at %s (latest %.17g) but it starts at %.17g" %
                            (a.id, a.assigned_at[1], {p: c for p, (_, c) in sorted(preds.items())}, Lrel, ts))
                elif ts == Lrel:
                    res.count("start_date.bitwise_equal")
                if a.assigned_at[1] >= Lrel - EPS:
                    res.count("ties.assigned_at_the_date_the_last_pred_finishes")
            else:
                res.count("start_date.late_assignment_or_removed_edge")
            if a.start_req is not None and any(pseq > a.start_req[0] for (pseq, _) in preds.values()):
                res.nontrivial = True       # the veto mechanism really held this activity back
        if a.amount == 0:
            res.count("zero_cost.started")

    # ---- R3: everything finishes ---------------------------------------------------------------------------------------------------
    done = {a.id for a in acts.values() if a.first_done is not None and (a.final is None or a.final[0] == "FINISHED")}
    # an activity that did start was obviously asked to (e.g. Comm::set_source/set_destination start a Comm implicitly)
    incomplete = [a for a in acts.values() if not (a.assigned() and (a.start_req is not None or a.first_start is not None))]
    if incomplete:
        res.count("scenario.premise_incomplete")       # some activity was never assigned / never asked to start: R3 says nothing
    stuck_roots = []
    if not failed and not livelock:
        blocked = set(a.id for a in incomplete)
        # activities that cannot be expected to run because something upstream is not expected to / did not run
        for a in acts.values():
            if a.id in done or a.id in blocked:
                continue
            if a.first_start is None:
                if a.live:
                    continue          # waits for something upstream: only root causes are reported
                stuck_roots.append(a)
        never_completes = [a for a in acts.values() if a.id not in done and a.id not in blocked and a.first_start is not None]
        for a in stuck_roots:
            if a.late:
                key, why = "C13:never-starts:dependency-added-after-predecessor-finished", \
                    "a dependency on the already finished %s was declared at %.17g" % (sorted(a.late), max(c for (_, c) in a.late.values()))
            elif a.removed and a.last_removal is not None and (a.last_start_req is None or a.last_start_req[0] < a.last_removal[0]):
                key, why = "C13:never-starts:last-dependency-removed-while-vetoed", \
                    "its last dependency was removed at %.17g after start() had been vetoed" % a.last_removal[1]
            elif a.kind == "C" and a.amount == 0 and a.start_req_before_assign:
                key, why = "C13:never-starts:zero-byte-comm-started-before-assignment", "zero-byte Comm whose start() came before set_source/set_destination"
            else:
                key, why = "C13:never-starts:%s" % a.kind, "no cause known to the oracle"
            res.vio(key, "%s (%s, amount %g) is assigned (at %s), was asked to start (at %s) and has no unfinished predecessor, but never "
                    "starts: %s; final state %s" % (a.id, a.kind, a.amount, a.assigned_at and a.assigned_at[1], a.start_req and a.start_req[1],
                                                    why, a.final and a.final[0]))
        # in the actor-driven modes a completion is only processed when the driver waits for / tests the activity: a driver blocked
        # on an activity that is not expected to run (or that is stuck) cannot complete the others
        if not stuck_roots and (mode == "M" or not incomplete):
            for a in never_completes:
                if a.first_done is not None:
                    res.vio("C13:completed-but-final-state-not-finished:%s" % a.kind, "%s fired a completion signal but ends in state %s" %
                            (a.id, a.final and a.final[0]))
                else:
                    res.vio("C13:never-completes:%s" % a.kind, "%s started at %.17g but never completes (final state %s)" %
                            (a.id, a.first_start[1], a.final and a.final[0]))
        if not stuck_roots and not incomplete:
            res.count("scenario.all_finished_checked")
    res.all_finished = len(done) == len(acts) and not livelock
    res.count("activities", len(acts))
    res.count("activities.finished", len(done))
    if stuck_roots or failed or livelock:
        res.fully_checked = False
    return res
