"""Oracle self-test of C41 and C14: the real programs are run on the unchanged tree, what was *observed* (parsed report,
replay result, native result) is corrupted before the oracle sees it, and the oracle must fire with the expected rule.
Also checks that the uncorrupted observation is accepted.   usage: PYTHONPATH=lib python3 -m verif.oracles.cex_selftest"""
import shutil
import sys
import threading

from verif.gen import mcprog_cex
from verif.oracles import cex_ref
from verif.props import C14, C41


class FakeCtx:
    tier = "quick"

    def __init__(self):
        self.v = []
        self.extra = {}
        self._lock = threading.Lock()

    def violation(self, key, what, witness):
        self.v.append(key)

    def inconclusive(self, *a, **k):
        self.v.append("INCONCLUSIVE")

    def __getattr__(self, name):
        return lambda *a, **k: None


def expect(name, keys, prefix):
    ok = any(k.startswith(prefix) for k in keys) if prefix else not keys
    print("%-58s %s   %s" % (name, "ok" if ok else "FAILED", sorted(set(keys))[:3]))
    return ok


def c41():
    good = True
    progs = dict(mcprog_cex.directed())
    env = C41.make_env(FakeCtx())
    env["max_replayed"] = 1
    try:
        def case(name, red="dpor", me=0):
            p = progs[name]
            return C41.Case(name, p, cex_ref.Ref(p).explore(), {"reduction": red, "explorer": "DFS", "max_errors": me}, "selftest")

        def run(name, corrupt, red="dpor"):
            ctx = FakeCtx()
            C41.evaluate(ctx, env, case(name, red), corrupt)
            return ctx.v

        def on(stage, fn):
            def c(st, obj):
                if st == stage:
                    fn(obj)
            return c

        good &= expect("C41 untouched deadlock report accepted", run("lock-order", None), None)
        good &= expect("C41 untouched assertion report accepted", run("counter-assert", None), None)

        def swap(rep):
            s = rep.path.split(";")
            i = next(j for j in range(len(s) - 1) if s[j] != s[j + 1])
            s[i], s[i + 1] = s[i + 1], s[i]
            rep.path = ";".join(s)
            rep.trace[i], rep.trace[i + 1] = rep.trace[i + 1], rep.trace[i]
        good &= expect("C41 two steps of the path swapped", run("lock-order", on("report", swap)), "C41:")

        def cut(rep):
            rep.path = ";".join(rep.path.split(";")[:-1])
            rep.trace = rep.trace[:-1]
        good &= expect("C41 last step of the path dropped", run("lock-order", on("report", cut)), "C41:path-not-failure")

        def owner(rep):
            p, w, f = rep.trace[1]
            rep.trace[1] = (p, w, dict(f, owner=3))
        good &= expect("C41 owner field of a trace line changed", run("lock-order", on("report", owner)), "C41:trace-mismatch")

        def ttype(rep):
            p, w, f = rep.trace[0]
            rep.trace[0] = (p, "MUTEX_UNLOCK", f)
        good &= expect("C41 type of a trace line changed", run("lock-order", on("report", ttype)), "C41:trace-mismatch")

        def kind(rep):
            rep.kind = "ASSERT"
        good &= expect("C41 deadlock relabelled as assertion failure", run("lock-order", on("report", kind)), "C41:unreachable-kind")

        def blocked(rep):
            rep.blocked.pop(sorted(rep.blocked)[0])
        good &= expect("C41 one blocked actor dropped from the report", run("lock-order", on("report", blocked)), "C41:blocked-set")

        def times(rep):
            rep.path = rep.path.replace("1", "1/1", 1)
        good &= expect("C41 times_considered changed in the path", run("counter-assert", on("report", times)), "C41:path-invalid")

        def rfp(rr):
            rr["fingerprint"] = rr["fingerprint"].replace("B1", "B2", 1)
        good &= expect("C41 replay ends in another state", run("lock-order", on("replay", rfp)), "C41:replay-state")

        def rkind(rr):
            rr["kind"] = "RUNNING"
        good &= expect("C41 replay says 'could run further'", run("lock-order", on("replay", rkind)), "C41:replay-verdict")

        def rchunk(rr):
            p, t, w, a = rr["chunks"][2]
            rr["chunks"][2] = (p, t, "MUTEX_UNLOCK", a)
        good &= expect("C41 replay executes another transition", run("lock-order", on("replay", rchunk)), "C41:replay-chunks")

        def rblocked(rr):
            rr["blocked"].pop(sorted(rr["blocked"])[0])
        good &= expect("C41 replay lists other blocked actors", run("lock-order", on("replay", rblocked)), "C41:replay-blocked-set")

        def rout(rr):
            rr["out"] += "\nextra line"
        good &= expect("C41 second replay prints something else", run("sem-missing-post", on("replay", rout), red="sdpor"),
                       "C41:replay-nondeterministic")
    finally:
        shutil.rmtree(env["wd"], ignore_errors=True)
    return good


def c14():
    good = True
    env = C14.make_env(FakeCtx())
    progs = dict(mcprog_cex.directed())
    progs.update({n: cex_ref.parse(t) for n, t in C14.EXTRA_DIRECTED})
    base = {"factory": None, "nthreads": None, "jitter": None, "order": None, "hosts": None, "flavour": "hooks"}
    try:
        def run(name, corrupt, **var):
            p = progs[name]
            r = C14._slim(cex_ref.Ref(p).explore())
            ctx = FakeCtx()
            C14.evaluate(ctx, env, (p, p.text(), r, dict(base, **var), name), corrupt)
            return ctx.v

        good &= expect("C14 untouched deadlocking run accepted", run("lock-order-3", None), None)
        good &= expect("C14 untouched terminating run accepted", run("sem-pingpong", None, jitter=5), None)

        def obs(n):
            n["final"] = n["final"].replace("o0=0", "o0=1", 1)
        good &= expect("C14 one observation of the final state changed", run("fifo-handoff", obs), "C14:final-unreachable")

        def pos(n):
            n["final"] = n["final"].replace("B1", "B2", 1)
            n["deadlock"] = n["final"]
        good &= expect("C14 an actor blocked one op further", run("lock-order-3", pos), "C14:final-unreachable+deadlock-reported")

        def nooops(n):
            n["oops"] = 0
            n["n_deadlock"] = 0
            n["deadlock"] = None
        good &= expect("C14 deadlock reached but not reported", run("lock-order-3", nooops), "C14:deadlock-not-reported")

        def oops(n):
            n["oops"] = 1
        good &= expect("C14 deadlock reported on a terminated run", run("sem-pingpong", oops), "C14:deadlock-false")

        def twice(n):
            n["n_deadlock"] = 2
        good &= expect("C14 on_deadlock fired twice", run("lock-order-3", twice), "C14:deadlock-not-reported")

        def dump(n):
            n["blocked"].pop(sorted(n["blocked"])[0])
        good &= expect("C14 status dump misses a blocked actor", run("lock-order-3", dump), "C14:deadlock-status-dump")

        def seg(n):
            n["rc"] = 139
            n["final"] = None
        good &= expect("C14 run killed by SIGSEGV", run("sem-pingpong", seg), "C14:abnormal-exit:SIGSEGV")

        def ass(n):
            n["asserted"] = n["asserted"].replace("o0=1", "o0=3")
        good &= expect("C14 assertion fails with an unreachable observation", run("counter-assert", ass), "C14:assert-unreachable")
    finally:
        shutil.rmtree(env["wd"], ignore_errors=True)
    return good


if __name__ == "__main__":
    which = sys.argv[1:] or ["C41", "C14"]
    ok = True
    if "C41" in which:
        ok &= c41()
    if "C14" in which:
        ok &= c14()
    print("SELF-TEST", "PASSED" if ok else "FAILED")
    sys.exit(0 if ok else 1)
