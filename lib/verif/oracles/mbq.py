"""Reference model for C08 (mailboxes) and C09 (message queues): replays the boundary log of harness/mbq.cpp.

The log order of the C (call) lines is the order in which SimGrid's kernel handled the requests (maestro answers the simcalls in
actor run order and an actor prints its C line just before the simcall). The model is the *statement*, not the implementation:
one queue of pending sends and one queue of pending receives per mailbox / message queue, in arrival order;
  - a receive is matched with the oldest pending send that its filter accepts and whose own filter accepts the receive;
  - a send is matched with the oldest pending receive under the same two-sided test;
  - a cancelled request, or a blocking get(timeout) that reported its timeout to the caller, is withdrawn;
  - a permanent receiver changes timings only.
Every R (return) line of a reception is compared with the model's match; payload integrity is checked on every delivery.
After the first divergence of a scenario the replay stops (model and implementation are no longer in the same state); the
end-of-run observations (S lines: slots/buffers written again after the receiver consumed them) are judged in any case.
Where the statement is silent the replay stops without a verdict (res.stopped): a put that arrives in the very scheduling round
in which a get(timeout) expires, an exception nobody provoked.
"""


def split_groups(out):
    """harness output of a batch -> ({group: text}, ended, last group that printed something)"""
    per, ended, last = {}, False, -1
    for l in out.splitlines():
        if not l.startswith("@"):
            continue
        head, _, rest = l.partition(" ")
        try:
            g = int(head[1:])
        except ValueError:
            continue
        if rest.startswith("END"):
            ended = True
            continue
        if g < 0:
            continue
        per.setdefault(g, []).append(rest)
        last = max(last, g)
    return {g: "\n".join(v) + "\n" for g, v in per.items()}, ended, last

PUT_OPS = {"put", "putw", "puta", "putd", "putf", "putT", "bput", "bputs", "bputa", "bputd", "qput", "qputt", "qputa", "qputd"}
GET_OPS = {"get", "getT", "getw", "geta", "getp", "getf", "bget", "bgets", "bgeta", "qget", "qgett", "qgeta", "qgetp", "qgetw",
           "qgets", "qgetts"}
ASYNC_OPS = {"puta", "putd", "bputa", "bputd", "qputa", "qputd", "geta", "getp", "bgeta", "qgeta", "qgetp"}


def parse(out):
    evs = []
    for ln, l in enumerate(out.splitlines()):
        t = l.split()
        if not t:
            continue
        k = t[0]
        try:
            if k in ("C", "R") and len(t) >= 4:
                kv = dict(x.split("=", 1) for x in t[4:] if "=" in x)
                evs.append({"k": k, "a": int(t[1]), "i": int(t[2]), "op": t[3], "kv": kv, "ln": ln, "raw": l})
            elif k in ("COPY", "CLEAN", "S"):
                kv = dict(x.split("=", 1) for x in t[1:] if "=" in x)
                evs.append({"k": k, "kv": kv, "ln": ln, "raw": l})
            elif k == "D":
                evs.append({"k": "D", "a": int(t[1]), "ln": ln, "raw": l})
            elif k == "END":
                evs.append({"k": "END", "ln": ln, "raw": l})
            elif k == "X":
                evs.append({"k": "X", "ln": ln, "raw": l})
        except (ValueError, IndexError):
            continue          # a line cut by a crash
    return evs


class H:
    __slots__ = ("h", "kind", "box", "actor", "op", "mid", "size", "n", "cap", "data", "fk", "want", "eager", "posted_permanent",
                 "peer", "withdrawn", "cancel_hit", "waiting", "result", "ln", "timed_out")

    def __init__(self, **kw):
        for s in self.__slots__:
            setattr(self, s, kw.get(s))


class Box:
    def __init__(self, name):
        self.name = name
        self.sends, self.recvs = [], []
        self.permanent = False
        self.toggled = False
        self.filters = False
        self.cause = None         # first point where the two-queue implementation of permanent receivers can leave the statement


def _accepts(a, b):
    """does the filter of request a accept request b (b.data is what a's filter function receives)"""
    if not a.fk:
        return True
    d = b.data
    if a.fk == 1:
        return d is not None and d[1] == a.want
    if a.fk == 2:
        return d is not None and d[0] % 2 == a.want
    if a.fk == 3:
        return d is None or d[1] == a.want
    return True


class Result:
    def __init__(self):
        self.violations = []      # (key, what)
        self.counters = {}
        self.stopped = None       # reason why the replay stopped early (not a verdict)
        self.completed = False    # END seen
        self.deliveries = 0
        self.choice = 0           # matches that had to choose among >=2 candidates, or where a filter skipped an older one
        # C09 contexts, named after the open known findings whose trigger was seen earlier in the process:
        self.after_timeout = False   # a get(timeout) timed out, or a wait_for() timed out on a handle that lives on: the kernel keeps
        #                              dangling pointers / a stale simcall registration; every later symptom is keyed ':after-timeout'
        self.after_matched_cancel = False   # a request was cancelled (and its handle released) after it had been matched: only a later
        self.after_cancelled_wait_timeout = False   # crash is attributed; same for a wait_for() timeout followed by cancel()
        self.toggled = False
        self.after_blocking_failure = False   # a blocking put/get/wait/wait_any ended with an exception (peer cancelled the comm)

    def count(self, k, n=1):
        self.counters[k] = self.counters.get(k, 0) + n


def replay(out, prop, ended=True, tainted=False):
    """out = the log of one scenario (group prefix removed, no END line); ended = the process reached the end of the simulation;
    tainted = an earlier scenario of the same process had a timeout on a message-queue activity (see Result.after_timeout).
    Keys start with C08 for mailboxes and C09 for message queues (prop is used when no box is involved)."""
    res = Result()
    res.completed = ended
    res.after_timeout = tainted
    evs = parse(out)
    # dates at which the 1e6 s timeout of a blocking Mailbox::put/get(timeout) fired (they fire only when nothing else can happen;
    # the API then cancels the request before the actor can print anything: all the requests expiring at one date are withdrawn
    # together, when the first of them is reported)
    api_to = {}
    for ev in evs:
        if ev["k"] == "R" and ev["op"] in ("putT", "getT") and "Timeout" in ev["kv"].get("st", ""):
            api_to.setdefault(ev["kv"].get("now"), []).append(int(ev["kv"]["h"]))
    boxes, hs = {}, {}
    delivered = {}               # mid -> h of the get
    issued = {}                  # mid -> put handle
    copies = {}

    def box(name):
        if name not in boxes:
            boxes[name] = Box(name)
        return boxes[name]

    def pfx(b):
        return "C09" if b.name.startswith("q") else "C08"

    def context(b, g=None, exp=None):
        if b.name.startswith("q"):
            if g is not None and g.op == "qgetw":
                return "unstarted-wait"
            return qcontext()
        if b.cause:
            return b.cause
        if b.toggled:
            return "permanent"
        if b.filters:
            return "filters"
        return "plain"

    def qcontext():
        return "after-timeout" if res.after_timeout else "plain"

    def tail(ln, n=14):
        lines = out.splitlines()
        return lines[max(0, ln - n):ln + 1]

    def diverge(b, key, what, ln):
        res.violations.append((key, what + "; log tail: %r" % tail(ln)))
        res.stopped = "divergence"

    def deliver(g, kv, ln, via):
        """a reception handle returned successfully with the fields of kv"""
        b = boxes[g.box]
        got = kv.get("got")
        isbuf = g.op.startswith("b")
        if isbuf and got in (None, "?"):
            pm = kv.get("pmid")
            got = pm if pm not in (None, "-") else "?"
        exp = hs[g.peer] if g.peer is not None else None
        P = pfx(b)
        if g.cancel_hit and (got in ("NULL", "SCRIBBLE", "?") or kv.get("pmid") == "NULL"):
            res.count("deliveries_void_after_cancel")
            return True
        if got in ("NULL", "BADPTR", "SCRIBBLE") or (got not in issued and got != "?"):
            diverge(b, "%s:bad-payload:%s:%s" % (P, "null" if got == "NULL" else "unknown-pointer", context(b, g, exp)),
                    "%s (h=%d, actor %d, %s on %s) returned successfully with payload %s, which is the payload of no put (model expected %s)"
                    % (via, g.h, g.actor, g.op, g.box, got, exp.mid if exp else "no match: nothing acceptable was pending"), ln)
            return False
        if got != "?" and got in delivered:
            diverge(b, "%s:duplicate:%s" % (P, context(b, g, exp)),
                    "%s (h=%d, actor %d) received %s which was already delivered to h=%d" % (via, g.h, g.actor, got, delivered[got]), ln)
            return False
        if exp is None:
            diverge(b, "%s:unmatched-get-returned:%s" % (P, context(b, g, None)),
                    "%s (h=%d, actor %d, %s on %s) returned %s although no acceptable send was pending for it in request order" %
                    (via, g.h, g.actor, g.op, g.box, got), ln)
            return False
        if got != "?" and got != exp.mid:
            o = issued[got]
            same = o.actor == exp.actor
            kind = "fifo-per-sender" if same else "not-oldest"
            diverge(b, "%s:%s:%s" % (P, kind, context(b, g, exp)),
                    "%s (h=%d, actor %d, %s on %s, filter %s) received %s but the oldest acceptable pending send was %s (posted line %d, "
                    "the received one at line %d)" % (via, g.h, g.actor, g.op, g.box, (g.fk, g.want), got, exp.mid, exp.ln, o.ln), ln)
            return False
        # the right message: integrity
        mid = exp.mid
        delivered[mid] = g.h
        g.result = mid
        res.deliveries += 1
        res.count("deliveries_checked")
        if via != "direct":
            res.count("deliveries_via_" + via)
        if exp.eager:
            res.count("deliveries_of_eager_sends")
        bad = []
        if isbuf:
            rn, cap = int(kv.get("rn", -1)), int(kv.get("cap", -1))
            if rn != min(exp.n, g.cap) or cap != g.cap:
                bad.append("received size %d != min(sent %d, capacity %d)" % (rn, exp.n, g.cap))
            if kv.get("bytes") == "0":
                bad.append("received bytes differ from the sender's buffer")
            if kv.get("tail") == "0":
                bad.append("bytes beyond the received size were overwritten")
            if kv.get("guard") == "0":
                bad.append("guard zone around the destination buffer overwritten")
            if kv.get("pmid") not in (None, "-", mid):
                bad.append("get_payload() designates %s" % kv.get("pmid"))
            res.count("buffer_deliveries")
            if exp.n > g.cap:
                res.count("buffer_deliveries_truncated")
            if exp.n == 0 or g.cap == 0:
                res.count("buffer_deliveries_zero")
        else:
            if kv.get("ck") != "1":
                bad.append("payload checksum broken")
            if kv.get("size") is not None and int(kv["size"]) != exp.size:
                bad.append("payload says size %s, sent with %d" % (kv["size"], exp.size))
            if kv.get("mb") is not None and ("m" + kv["mb"] if b.name.startswith("m") else "q" + kv["mb"]) != b.name:
                bad.append("payload was sent to box %s, received on %s" % (kv["mb"], b.name))
            if "rsz" in kv and kv["rsz"] != "8":
                bad.append("received size %s != sizeof(void*)" % kv["rsz"])
        if bad:
            diverge(b, "%s:payload-altered:%s" % (P, "buffer" if isbuf else "pointer"),
                    "%s (h=%d) received %s but %s" % (via, g.h, mid, "; ".join(bad)), ln)
            return False
        return True

    def failed(hd, kv, ln):
        hd.waiting = False
        if "Timeout" not in kv.get("st", ""):
            # a blocking simcall ended with an exception (open known finding: simcall_.observer_ is left dangling unless the caller
            # went through Comm::wait_for, which resets it): a later crash of the process is attributed to it
            res.after_blocking_failure = True
        if hd.cancel_hit:
            res.count("failures_after_cancel")
            return True
        res.count("unexpected_failures")
        res.stopped = "unexpected failure %s of h=%d" % (kv.get("st"), hd.h)
        return False

    def withdraw(hd):
        """the request is over for its caller (cancel / reported timeout)"""
        b = boxes[hd.box]
        q = b.sends if hd.kind == "put" else b.recvs
        if hd.h in q:
            q.remove(hd.h)
            hd.withdrawn = True
            return "pending"
        if hd.peer is not None and not hd.withdrawn:
            hd.cancel_hit = hs[hd.peer].cancel_hit = True
            if hd.box.startswith("q"):
                res.after_matched_cancel = True
            return "matched"
        return "none"

    for ev in evs:
        k = ev["k"]
        if k == "S":
            res.count("scribbles_checked")
            if ev["kv"].get("st") != "ok":
                h = int(ev["kv"]["h"])
                g = hs.get(h)
                P = pfx(boxes[g.box]) if g else prop
                if g is not None and g.timed_out:
                    res.violations.append(("%s:timed-out-get-consumed-a-put" % P,
                                           "reception h=%d (actor %d, %s on %s, line %d) reported a timeout to its caller, yet a payload was "
                                           "written into its result slot later on: a get that was over consumed a put" % (h, g.actor, g.op, g.box, g.ln)))
                else:
                    res.violations.append(("%s:payload-rewritten-after-delivery" % P,
                                           "the slot/buffer of reception h=%d%s was written again after the receiver had consumed the message"
                                           % (h, " (actor %d, %s on %s, line %d)" % (g.actor, g.op, g.box, g.ln) if g else "")))
            continue
        if res.stopped:
            continue
        if k == "X":
            res.stopped = "harness caught an unexpected exception: " + ev["raw"]
            continue
        if k == "COPY":
            mid = ev["kv"].get("mid")
            copies[mid] = copies.get(mid, 0) + 1
            res.count("copy_callbacks")
            if copies[mid] > 1:
                res.violations.append(("C08:payload-copied-twice:buffer", "the copy callback ran %d times for message %s; log tail %r"
                                       % (copies[mid], mid, tail(ev["ln"]))))
                res.stopped = "divergence"
            continue
        if k == "CLEAN":
            res.count("detached_clean_calls")
            continue
        if k == "D":
            continue
        op, kv, a = ev["op"], ev["kv"], ev["a"]
        if k == "C":
            if op in PUT_OPS or op in GET_OPS:
                isq = op.startswith("q")
                b = box(("q" if isq else "m") + kv["m"])
                h = int(kv["h"])
                hd = H(h=h, kind="put" if op in PUT_OPS else "get", box=b.name, actor=a, op=op, mid=kv.get("mid"),
                       size=int(kv["size"]) if "size" in kv else 0, n=int(kv["n"]) if "n" in kv else None,
                       cap=int(kv["cap"]) if "cap" in kv else None, data=(a, int(kv["tag"])) if "tag" in kv else None,
                       fk=int(kv.get("fk", 0)), want=int(kv.get("want", 0)), eager=False, posted_permanent=b.permanent,
                       withdrawn=False, cancel_hit=False, waiting=op not in ASYNC_OPS, ln=ev["ln"])
                hs[h] = hd
                if "tag" in kv:
                    b.filters = True
                    res.count("filtered_requests")
                if hd.kind == "put":
                    issued[hd.mid] = hd
                    res.count("puts_issued")
                    queue, mine = b.recvs, b.sends
                else:
                    res.count("gets_issued")
                    queue, mine = b.sends, b.recvs
                cands = [o for o in queue if _accepts(hd, hs[o]) and _accepts(hs[o], hd)]
                if hd.kind == "get" and cands and b.toggled and b.cause is None:
                    # classification only: the root of a later divergence on a mailbox whose permanent receiver was switched
                    if b.permanent and not hs[cands[0]].eager and any(hs[o].eager for o in queue):
                        b.cause = "permanent:older-send-queued-before-set_receiver"
                    elif not b.permanent and hs[cands[0]].eager:
                        b.cause = "permanent:eager-send-stranded-after-unset"
                if cands:
                    o = cands[0]
                    if len(cands) >= 2:
                        res.choice += 1
                        res.count("matches_with_>=2_candidates")
                    if queue.index(o) > 0:
                        res.choice += 1
                        res.count("matches_where_a_filter_skipped_an_older_request")
                    queue.remove(o)
                    hd.peer, hs[o].peer = o, h
                    res.count("matches_send_arrives" if hd.kind == "put" else "matches_recv_arrives")
                else:
                    mine.append(h)
                    if hd.kind == "put" and b.permanent:
                        hd.eager = True
                        res.count("eager_sends")
            elif op == "setr":
                b = box("m" + kv["m"])
                b.permanent = kv["v"] == "1"
                b.toggled = True
                res.count("set_receiver_calls")
            elif op == "cancel":
                w = withdraw(hs[int(kv["h"])])
                if w != "none":
                    res.count("cancels_of_%s_requests" % w)
            elif op in ("wait", "test", "waitk"):
                hs[int(kv["h"])].waiting = op != "test"
            elif op == "wany":
                for x in kv["hs"].split(","):
                    hs[int(x)].waiting = True
            continue
        # ---- R lines
        st = kv.get("st", "")
        if op in PUT_OPS or op in GET_OPS:
            hd = hs.get(int(kv["h"]))
            if hd is None:
                continue
            if op in ASYNC_OPS:
                continue
            hd.waiting = False
            b = boxes[hd.box]
            if st == "ok":
                if hd.kind == "get":
                    if not deliver(hd, kv, ev["ln"], "direct"):
                        continue
                else:
                    hd.result = "ok"
            elif st.startswith("timeout"):
                # MessageQueue::get(timeout) reported the timeout to the caller: the get is over, it cannot consume a later put
                res.after_timeout = True
                res.count("queue_api_timeouts")
                hd.timed_out = True
                if hd.kind == "get":
                    if hd.h in b.recvs:
                        b.recvs.remove(hd.h)
                        hd.withdrawn = True
                    else:
                        # a put arrived in the scheduling round in which the timeout fired: the statement does not say who wins
                        res.stopped = "tie between the expiry of a get(timeout) and a put"
                        res.count("replays_cut_at_a_timeout_tie")
                else:
                    # put(payload, timeout): whether a timed-out put stays deliverable is not stated: no model of what follows
                    res.stopped = "a put(timeout) timed out"
            elif st.startswith("fail") and op in ("putT", "getT") and "Timeout" in st:
                for x in api_to.pop(kv.get("now"), []):
                    hx = hs[x]
                    if hx.peer is not None and not hx.withdrawn and not hx.cancel_hit:
                        # A request that the model matched timed out: either its transfer was in flight (once a first 1e6 s timeout has
                        # fired the actors go on, and the next one can expire at any moment), or the peer arrived in the very scheduling
                        # round of the expiry and the log cannot tell which of the put and the API's internal cancel came first
                        res.stopped = "a put/get(timeout) that the model had matched timed out"
                        res.count("replays_cut_at_timeout_of_a_matched_request")
                        break
                    w = withdraw(hx)
                    res.count("mailbox_api_timeouts_of_%s_requests" % w)
            elif st.startswith("fail"):
                if not failed(hd, kv, ev["ln"]):
                    continue
        elif op in ("wait", "test", "wany", "waitk"):
            if op == "wany":
                for x in hs.values():
                    if x.actor == a:
                        x.waiting = False
            h = int(kv.get("h", -1))
            hd = hs.get(h)
            if st in ("ok", "1"):
                hd.waiting = False
                if hd.kind == "get":
                    if not deliver(hd, kv, ev["ln"], op):
                        continue
                else:
                    hd.result = "ok"
                    if hd.cancel_hit:
                        res.count("puts_completed_despite_cancel")
            elif st == "timeout":
                if hd is not None:
                    hd.waiting = False
                    if hd.box.startswith("q"):        # wait_for() on a message-queue activity timed out
                        if op == "waitk":
                            res.after_timeout = True
                        else:
                            res.after_cancelled_wait_timeout = True
                res.count("wait_timeouts")
            elif st == "0":
                hd.waiting = False
            elif st.startswith("fail"):
                if "Timeout" not in st:
                    res.after_blocking_failure = True
                if op == "wany":
                    ok = True
                    for x in [y for y in kv.get("failed", "").split(",") if y]:
                        ok = failed(hs[int(x)], kv, ev["ln"]) and ok
                    if not ok:
                        continue
                elif not failed(hd, kv, ev["ln"]):
                    continue
    # ---- end of the log
    if res.completed and not res.stopped:
        for hd in hs.values():
            if hd.kind != "get" or not hd.waiting or hd.peer is None or hd.result is not None or hd.cancel_hit:
                continue
            exp = hs[hd.peer]
            b = boxes[hd.box]
            res.violations.append(("%s:lost:%s" % (pfx(b), context(b, hd, exp)),
                                   "the simulation ended (nothing can happen any more) with actor %d still blocked on reception h=%d (%s on %s, posted "
                                   "line %d) although send %s (line %d) was pending and acceptable for it in request order; log tail %r"
                                   % (hd.actor, hd.h, hd.op, hd.box, hd.ln, exp.mid, exp.ln, out.splitlines()[-10:])))
            break
    pend = sum(len(b.sends) for b in boxes.values())
    res.count("sends_still_pending_at_end", pend)
    res.toggled = any(b.toggled for b in boxes.values())
    res.qcontext = qcontext()
    res.qcrash_context = ("after-timeout" if res.after_timeout else "after-matched-cancel" if res.after_matched_cancel else
                          "after-cancelled-wait-timeout" if res.after_cancelled_wait_timeout else "plain")
    res.mcontext = "after-failed-blocking-comm" if res.after_blocking_failure else "permanent" if res.toggled else "plain"
    return res
