"""Oracle for C35: which bytes of a receive buffer must hold the sent byte / must be untouched after one MPI message
between (partially shared) buffers.  Pure interval arithmetic on half-open [a,b) lists (sorted, disjoint).

The *statement* demands: every byte of the message that is private in BOTH buffers is copied.  Bytes that are declared
shared on either side are never judged (content undefined by design).  In addition the MPI contract of a receive is
used for the guard rule: a private byte of the receive buffer that is not part of the message keeps its value, and the
send buffer's private bytes are not modified by a send."""


def norm(iv):
    out = []
    for a, b in sorted(iv):
        if a >= b:
            continue
        if out and a <= out[-1][1]:
            out[-1][1] = max(out[-1][1], b)
        else:
            out.append([a, b])
    return [tuple(x) for x in out]


def inter(x, y):
    out, i, j = [], 0, 0
    while i < len(x) and j < len(y):
        a, b = max(x[i][0], y[j][0]), min(x[i][1], y[j][1])
        if a < b:
            out.append((a, b))
        if x[i][1] < y[j][1]:
            i += 1
        else:
            j += 1
    return out


def compl(x, lo, hi):
    out, cur = [], lo
    for a, b in x:
        if a > cur:
            out.append((cur, min(a, hi)))
        cur = max(cur, b)
        if cur >= hi:
            break
    if cur < hi:
        out.append((cur, hi))
    return [(a, b) for a, b in out if a < b]


def minus(x, y):
    if not x:
        return []
    lo, hi = x[0][0], x[-1][1]
    return inter(x, compl(y, lo, hi))


def total(x):
    return sum(b - a for a, b in x)


def private(size, shared):
    """Private regions of a buffer of `size` bytes whose shared regions are `shared` (None = plain malloc)."""
    if shared is None:
        return [(0, size)] if size > 0 else []
    return compl(norm(shared), 0, size)


def shift(x, d):
    return [(a + d, b + d) for a, b in x]


def required(case):
    """-> (must_copy, must_keep) interval lists in receive-buffer coordinates."""
    rpriv = private(case["rsize"], case["rshared"])
    spriv = private(case["ssize"], case["sshared"])
    mlen = min(case["slen"], case["rlen"])
    msg = [(case["roff"], case["roff"] + mlen)] if mlen > 0 else []
    must_copy = inter(inter(rpriv, msg), shift(spriv, case["roff"] - case["soff"]))
    must_keep = minus(rpriv, msg)
    return must_copy, must_keep


def parse_rle(line):
    """'R id c a b c a b ... E n' -> (id, {class: intervals}, nruns)"""
    tok = line.split()
    cid = int(tok[1])
    cls = {}
    i = 2
    while tok[i] != "E":
        cls.setdefault(tok[i], []).append((int(tok[i + 1]), int(tok[i + 2])))
        i += 3
    return cid, {k: norm(v) for k, v in cls.items()}, int(tok[i + 1])


def block_begins_before(priv, pos, off):
    """Does the private block containing byte `pos` begin strictly before `off` (the message start)?"""
    for a, b in priv:
        if a <= pos < b:
            return a < off
    return False


PAGE = 4096


def subpage_tail(size, shared):
    """Layout feature: the last shared region runs up to the end of the buffer and begins inside the buffer's last, partial page."""
    if not shared:
        return False
    a, b = sorted(shared)[-1]
    return b == size and size % PAGE != 0 and a > (size // PAGE) * PAGE


def tail_feature(case):
    s, r = subpage_tail(case["ssize"], case["sshared"]), subpage_tail(case["rsize"], case["rshared"])
    return "subpage-tail=" + ("both" if s and r else "send" if s else "recv" if r else "none")


def covered(cls):
    """Upper end of what a (possibly truncated) dump describes."""
    return max([b for v in cls.values() for _, b in v] or [0])


def judge(case, rcls, scls, rcover=None, scover=None):
    """-> list of (rule, features, text).  rcls/scls: class->intervals of the receive / send buffer after the transfer.
    rcover/scover: when a dump was truncated by the harness, only bytes below this offset are judged."""
    out = []
    must_copy, must_keep = required(case)
    if rcover is not None:
        must_copy, must_keep = inter(must_copy, [(0, rcover)]), inter(must_keep, [(0, rcover)])
    got_s, got_g = rcls.get("S", []), rcls.get("G", [])
    miss = minus(must_copy, got_s)
    if miss:
        rpriv = private(case["rsize"], case["rshared"])
        spriv = private(case["ssize"], case["sshared"])
        stale = inter(miss, got_g)
        other = minus(miss, got_g)
        for rule, lst in (("uncopied", stale), ("corrupt", other)):
            if not lst:
                continue
            pos = lst[0][0]
            sb = block_begins_before(spriv, pos - case["roff"] + case["soff"], case["soff"])
            rb = block_begins_before(rpriv, pos, case["roff"])
            feat = "straddle=" + ("both" if sb and rb else "send" if sb else "recv" if rb else "none")
            out.append((rule, feat + ":" + tail_feature(case),
                        "%d of %d bytes private on both sides not %s; first range [%d,%d) of the receive buffer"
                        % (total(lst), total(must_copy), "copied (still the receiver's old content)" if rule == "uncopied" else
                           "equal to the sent bytes", lst[0][0], lst[0][1])))
    bad_guard = minus(must_keep, got_g)
    if bad_guard:
        out.append(("guard", "recv:" + tail_feature(case), "%d private bytes of the receive buffer outside the message were modified; first range [%d,%d)"
                    % (total(bad_guard), bad_guard[0][0], bad_guard[0][1])))
    spriv_all = private(case["ssize"], case["sshared"])
    if scover is not None:
        spriv_all = inter(spriv_all, [(0, scover)])
    bad_src = minus(spriv_all, scls.get("O", []))
    if bad_src:
        out.append(("guard", "send:" + tail_feature(case), "%d private bytes of the send buffer were modified by the transfer; first range [%d,%d)"
                    % (total(bad_src), bad_src[0][0], bad_src[0][1])))
    return out, total(must_copy), total(must_keep)
