"""Oracle self-test for C25 (cd /verif/lib && python3 -m verif.oracles.routing_selftest): real answers of Floyd and Full zones are
recorded on the current tree, must be accepted, and must be rejected with the expected rule once they are corrupted the way a
defective routing zone would produce them (links swapped, a longer chain, a missing route, a cache hit that differs from the miss,
a truncated route, a made-up route for a pair without path, hop links reversed, a Full route that differs from its declaration,
zone kinds that disagree on the link count). Also exercises the replay path."""
import copy
import random
import shutil
import sys
import tempfile

from verif.gen import routing as G
from verif.props import C25


class FakeCtx:
    def __init__(self):
        self.keys = []
        self.inconc = []

    def violation(self, key, what, w):
        self.keys.append(key)

    def inconclusive(self, why):
        self.inconc.append(why)

    def count(self, *a):
        pass

    def evaluation(self, *a):
        pass

    def nontrivial(self, *a):
        pass


def main():
    scratch = tempfile.mkdtemp(prefix="verif-C25-selftest-")
    failures = []
    try:
        dgs = dict(C25.directed_graphs())
        rng = random.Random(7)
        plats = {}
        for i, name in enumerate(["d0", "d1", "d2", "d3", "d5", "d7"]):
            plats[name] = C25.build_plat(name + "-floyd", "floyd", dgs[name], rng, pre="s%d_" % i)
        for i in range(3):
            plats["g%d" % i] = C25.build_plat("g%d-floyd" % i, "floyd", C25.gen_graph(random.Random(100 + i)), rng, pre="t%d_" % i)
        full = C25.gen_full(random.Random(5), "full0", "u0_")
        while not any(len(l) >= 2 for l in full.decl.values()):
            full = C25.gen_full(rng, "full0", "u0_")
        res = C25.run_bundle("hooks", list(plats.values()) + [full], scratch)
        assert res.status == "ok" and res.done, (res.status, res.noise)
        obs = {k: C25.Obs(p, res) for k, p in plats.items()}
        fobs = C25.Obs(full, res)

        def judge(p, o):
            ctx = FakeCtx()
            out = (C25.check_full if p.kind == "full" else C25.check_sp)(ctx, p, o, "hooks")
            return ctx.keys, out

        # 1. the unchanged observations are accepted
        for k, p in plats.items():
            keys, (ok, nt, lens) = judge(p, obs[k])
            if keys or not ok or not obs[k].complete:
                failures.append("baseline %s: %r ok=%s complete=%s" % (k, keys, ok, obs[k].complete))
        keys, _ = judge(full, fobs)
        if keys:
            failures.append("baseline full: %r" % keys)

        def corrupt(name, pair, fn, expect):
            p = plats[name]
            o = copy.deepcopy(obs[name])
            key = (p.pre + pair[0], p.pre + pair[1])
            o.answers[key] = fn([(how, list(l) if l is not None else None, e) for how, l, e in o.answers[key]], p.pre)
            keys, _ = judge(p, o)
            if keys != [expect]:
                failures.append("%s %s->%s: expected [%s], got %r" % (name, pair[0], pair[1], expect, keys))
            else:
                print("ok   %-28s -> %s" % ("%s %s->%s" % (name, pair[0], pair[1]), expect))

        def every(f):
            return lambda ans, pre: [(how, f(l, pre), e) for how, l, e in ans]

        # 2. corrupted observations are rejected with the right rule
        # d5 is the line h0 -k0- r1 -k1 k1- r2 -k2- r3 -k3- r4 -k4 k0- h5
        corrupt("d5", ("h0", "h5"), every(lambda l, pre: [l[1], l[0]] + l[2:]), "C25:floyd:not-a-chain-of-declared-routes")
        corrupt("d5", ("h0", "h5"), every(lambda l, pre: l[:-1]), "C25:floyd:not-a-chain-of-declared-routes")
        corrupt("d5", ("h0", "r3"), every(lambda l, pre: l[:2] + [l[2], l[1]]), "C25:floyd:not-a-chain-of-declared-routes")
        # d2: the direct route a->b has three links, the detour through c two
        corrupt("d2", ("a", "b"), every(lambda l, pre: [pre + "d0", pre + "d1", pre + "d2"]), "C25:floyd:not-minimal")
        corrupt("d2", ("a", "b"), lambda ans, pre: [(how, None, "No route") for how, l, e in ans], "C25:floyd:no-route-for-reachable-pair")
        # d3: two equal-cost alternatives; the second answer takes the other one
        corrupt("d3", ("a", "b"), lambda ans, pre: [ans[0]] + [(how, [pre + "r", pre + "s"] if l == [pre + "p", pre + "q"] else [pre + "p", pre + "q"], e)
                                                                for how, l, e in ans[1:]], "C25:floyd:answers-differ-between-queries")
        # d0: s cannot reach x
        corrupt("d0", ("s", "x"), every(lambda l, pre: [pre + "a"]), "C25:floyd:route-returned-for-pair-without-path")
        # d1: one hop of three links
        corrupt("d1", ("a", "b"), every(lambda l, pre: l[::-1]), "C25:floyd:hop-links-reversed")
        # d7: one-way ring; b->a goes all the way round; a shortcut that does not exist
        corrupt("d7", ("b", "a"), every(lambda l, pre: [pre + "r0"]), "C25:floyd:not-a-chain-of-declared-routes")
        # a random graph: the longest answer loses its middle link / gets it twice
        for k in ("g0", "g1", "g2"):
            p = plats[k]
            pair = max(p.judged, key=lambda pr: p.dist[pr])
            pair = (pair[0][len(p.pre):], pair[1][len(p.pre):])
            corrupt(k, pair, every(lambda l, pre: l[:len(l) // 2] + l[len(l) // 2 + 1:]), "C25:floyd:not-a-chain-of-declared-routes")
        # Full zone: a declared multi-link route comes back reversed
        pair = [k for k, l in full.decl.items() if len(l) >= 2 and l != l[::-1]][0]
        o = copy.deepcopy(fobs)
        o.answers[pair] = [(how, l[::-1], e) for how, l, e in o.answers[pair]]
        keys, _ = judge(full, o)
        if set(keys) != {"C25:full:differs-from-declared"}:
            failures.append("full reversed: %r" % keys)
        else:
            print("ok   %-28s -> %s" % ("full %s->%s reversed" % pair, keys[0]))
        # zone kinds that disagree on the link count
        ctx = FakeCtx()
        st = C25.Run(ctx, scratch)
        a, b = plats["d2"], copy.copy(plats["d2"])
        b.id = "d2-dijkstra"
        st.lens = {a.id: {("a", "b"): 2}, b.id: {("a", "b"): 3}}
        st.compare([{"floyd": a, "dijkstra": b}])
        if ctx.keys != ["C25:disagree:floyd-vs-dijkstra"]:
            failures.append("disagree: %r" % ctx.keys)
        else:
            print("ok   %-28s -> %s" % ("lens differ", ctx.keys[0]))
        # 3. replay path: the witness of an accepted platform is accepted again, and a witness whose spec asks the same
        #    pairs is judged from scratch (ground truth rebuilt from the spec lines)
        ctx = FakeCtx()
        C25.replay(ctx, C25.witness(plats["d5"], "hooks"))
        C25.replay(ctx, C25.witness(full, "hooks"))
        if ctx.keys or ctx.inconc:
            failures.append("replay: %r %r" % (ctx.keys, ctx.inconc))
        else:
            print("ok   replay of d5-floyd and of a Full zone: silent")
        p = C25.rebuild(C25.witness(plats["g1"], "hooks"))
        q = plats["g1"]
        if p.dist != q.dist or p.edges != q.edges or p.cone != q.cone or p.n_q != q.n_q or p.n_lq != q.n_lq or p.lines != q.lines:
            failures.append("rebuild() does not reproduce the ground truth of g1")
        else:
            print("ok   rebuild() reproduces spec, distances, cone and query counts")
    finally:
        shutil.rmtree(scratch, ignore_errors=True)
    for f in failures:
        print("FAIL " + f)
    print("routing self-test: %s" % ("FAILED" if failures else "passed"))
    return 1 if failures else 0


if __name__ == "__main__":
    sys.exit(main())
