"""Differential oracle of C19: the log of one workload under one configuration against the log of the reference configuration.

A log (harness/optim.cpp) is turned into a dict  event key -> date:
  ("start", id) ("finish", id)       Activity::get_start_time / get_finish_time read by the owner after wait()
  ("waited", id)                     clock of the owner when wait() returned
  ("sig-start", name) ("sig-done", name) ("sig-finish", name)   clock inside on_start_cb / on_completion_cb, finish time read there
  ("sleep", actor, line) ("end", actor) ("END",)                sleeps of the scripts, end of every actor, end of the simulation
  ("ctl", kind, who, k)              k-th suspend / resume / priority / pstate change done on `who`
Both logs must contain the same keys (same control flow) and every date must agree within tol(date, steps).
"""
import math

PREC_TIMING = 1e-9          # precision/timing (docs/source/Configuring_SimGrid.rst, default)


def parse(out):
    ev = {}
    kinds = {}
    steps = {}
    seen = {}
    nadv = None
    for ln in out.splitlines():
        f = ln.split()
        if not f:
            continue
        k = f[0]
        if k == "B":
            kinds[int(f[1])] = f[3]
            ev[("begun", int(f[1]))] = float(f[2])
        elif k == "F":
            i = int(f[1])
            ev[("waited", i)] = float(f[2])
            ev[("start", i)] = float(f[3])
            ev[("finish", i)] = float(f[4])
            steps[i] = int(f[5])
        elif k == "s":
            ev[("sig-start", f[1])] = float(f[2])
        elif k == "c":
            ev[("sig-done", f[1])] = float(f[2])
            ev[("sig-finish", f[1])] = float(f[4])
        elif k == "SL":
            ev[("sleep", f[1], int(f[2]))] = float(f[3])
        elif k == "AE":
            ev[("end", f[1])] = float(f[2])
        elif k in ("Z", "R", "U", "AZ", "AR", "ZX", "UX", "AZX"):
            n = seen.get((k, f[1]), 0)
            seen[(k, f[1])] = n + 1
            ev[("ctl", k, f[1], n)] = float(f[2])
        elif k == "P":
            n = seen.get((k, f[1]), 0)
            seen[(k, f[1])] = n + 1
            ev[("ctl", k, f[1] + ":" + f[2], n)] = float(f[3])
        elif k == "END":
            ev[("END",)] = float(f[1])
            nadv = int(f[2])
    return {"ev": ev, "kinds": kinds, "steps": steps, "nadvance": nadv, "complete": nadv is not None}


TI_EPSILON = 1e-9           # constexpr EPSILON of cpu_ti.cpp


def tol(t, nsteps, prec=PREC_TIMING):
    """Allowed |date difference| at reference date t after nsteps time advances (see META['level_note'] of props/C19.py)."""
    return prec + 4.0 * max(nsteps, 1) * math.ulp(max(abs(t), 1.0))


def precision_for(w, cfg):
    """precision/timing, plus under cpu/optim:TI what the model's own epsilon allows: CpuTiTmgr::solve() completes at once an action whose
    remaining work is below EPSILON = 1e-9 s of full-speed time of its host (amount * sharing factor / peak speed < 1e-9, sharing factor >= 1),
    which is up to 1e-9 / availability seconds of simulated time. Every exec small enough for that (flops < 1e-9 * fastest pstate of its
    host) may therefore shift the dates by 1e-9 / (smallest availability of the speed profiles)."""
    if cfg[0] != "TI":
        return PREC_TIMING
    from verif.gen import optim as gen
    hosts = {h["name"]: h for h in w["platform"]["hosts"]}
    nsub = sum(1 for a in gen.all_acts(w).values() if a[0] == "E" and a[3] < TI_EPSILON * max(hosts[a[2]]["speeds"]))
    scale = min([1.0] + [v for h in hosts.values() if h.get("profile") for _, v in h["profile"]["points"]])
    return PREC_TIMING + nsub * TI_EPSILON / scale


KIND_NAMES = {"E": "exec", "C": "comm", "M": "comm", "m": "comm"}


def kind_of(key, kinds):
    k = key[0]
    if k in ("start", "finish", "waited", "begun"):
        return KIND_NAMES.get(kinds.get(key[1]), "activity")
    if k.startswith("sig-"):
        return "signal"
    if k == "sleep":
        return "sleep"
    if k == "ctl":
        return "control"
    return "actor"


def ambiguous_tie(ref, margin=1e-7):
    """True when a guarded control of the reference run (Activity::suspend / Exec::update_priority after test(), Actor::suspend after
    'has it ended?') is evaluated within `margin` of the completion of its target: the branch taken by the *program* then depends on a
    date comparison below the precision, which the statement does not cover."""
    ev = ref["ev"]
    for k, t in ev.items():
        if k[0] != "ctl":
            continue
        if k[1] in ("Z", "ZX", "U", "UX"):
            f = ev.get(("finish", int(k[2])))
        elif k[1] in ("AZ", "AZX"):
            f = ev.get(("end", k[2]))
        else:
            continue
        if f is not None and abs(f - t) <= margin:
            return True
    return False


def near_tie(ref, window=4e-9):
    """True when two completions of the reference run (activity finish, end of a sleep) that were pending at the same time have dates that
    are distinct (beyond rounding) but closer than 4 x precision/timing: the lazy heap (double_equals(date, now, precision/timing)) and
    update_max_duration merge such events, each merge legitimately shifts what follows by up to the precision, and a chain of them has no
    fixed bound. Such workloads are not judged (none is generated on purpose). A tiny activity that starts at the completion of another one
    was not pending with it and is not a near tie."""
    nsteps = ref["nadvance"] or 1
    ev = ref["ev"]
    comp = []
    for k, t in ev.items():
        if k[0] == "finish":
            comp.append((t, ev.get(("start", k[1]), -1.0)))
        elif k[0] in ("sleep", "ctl"):
            comp.append((t, -1.0))
    comp.sort()
    for i, (a, _) in enumerate(comp):
        for b, started in comp[i + 1:]:
            if b - a >= window:
                break
            if b - a > 4.0 * nsteps * math.ulp(max(abs(b), 1.0)) and started < a:
                return True
    return False


ROOT_RANK = {"finish": 0, "sig-finish": 1, "sleep": 2, "end": 3}


def compare(ref, obs, prec=PREC_TIMING):
    """Compares every date of obs with ref. 'first' is the earliest disagreement (a completion before the events that merely follow it
    at the same date), 'worst' the largest |difference| / tolerance, 'missing' / 'extra' the events logged by only one of the runs."""
    rk, ok = set(ref["ev"]), set(obs["ev"])
    worst = 0.0
    first = None
    nsteps = max(ref["nadvance"] or 1, obs["nadvance"] or 1)
    for key in rk & ok:
        a, b = ref["ev"][key], obs["ev"][key]
        d = abs(a - b)
        t = tol(a, nsteps, prec)
        if d / t > worst:
            worst = d / t
        if d > t:
            order = (min(a, b), ROOT_RANK.get(key[0], 4), str(key))
            if first is None or order < first["order"]:
                first = {"key": key, "ref": a, "obs": b, "tol": t, "order": order}
    return {"worst": worst, "first": first, "missing": sorted(map(str, rk - ok))[:6], "extra": sorted(map(str, ok - rk))[:6]}


def agree(res):
    return res["first"] is None and not res["missing"] and not res["extra"]


# ------------------------------------------------------------------------------------------------ exposure to open known findings
LAT_FACTOR_MAX = 13.01      # largest latency factor of LV08 / CM02 / SMPI


def route_of(p, s, d):
    for r in p["routes"]:
        if (r["src"], r["dst"]) == (s, d) or (r["sym"] and (r["dst"], r["src"]) == (s, d)):
            return [n for n, _ in r["links"]]
    return []


def comm_table(w):
    """id -> (owners, links of the route) for every comm of the workload (a rendez-vous comm is owned by both sides)."""
    hosts = {a["name"]: a["host"] for a in w["actors"]}
    out = {}
    puts, gets = {}, {}
    for a in w["actors"]:
        items = []
        for it in a["script"]:
            items += it[1] if it[0] == "G" else [it]
        for it in items:
            if it[0] == "C":
                out[it[1]] = ({a["name"]}, route_of(w["platform"], it[2], it[3]))
            elif it[0] == "PUT":
                puts[it[1]] = a["name"]
            elif it[0] == "GET":
                gets[it[1]] = a["name"]
    for i, snd in puts.items():
        rcv = gets.get(i)
        if rcv is not None:
            out[i] = ({snd, rcv}, route_of(w["platform"], hosts[snd], hosts[rcv]))
    return out


def profile_dates(pr, horizon):
    if not pr:
        return []
    out = []
    base = 0.0
    while True:
        for t, _ in pr["points"]:
            if base + t > horizon:
                return out
            out.append(base + t)
        if pr["period"] <= 0:
            return out
        base += pr["period"]


def noop_priority_update(w):
    """An Exec::update_priority whose value is the priority the exec already has (script order)."""
    for a in w["actors"]:
        for it in a["script"]:
            if it[0] != "G":
                continue
            cur = {x[1]: x[5] for x in it[1] if x[0] == "E"}
            for c in it[2]:
                if c[0] == "U":
                    if cur.get(c[1]) == c[3]:
                        return True
                    cur[c[1]] = c[3]
    return False


def resume_of_running(w):
    """An actor that suspends / resumes its own activities is itself suspended / resumed by another one: the second resume() reaches an
    action that is already running."""
    zs = {a["name"] for a in w["actors"] for it in a["script"] if it[0] == "G" and any(c[0] == "Z" for c in it[2])}
    return any(it[0] == "AZ" and it[1] in zs for a in w["actors"] for it in a["script"])


def exposure(w, cfg, ref):
    """Names of the open known findings this (workload, configuration) is exposed to (conservative over-approximation):
    ti-suspend / ti-prio / ti-pstate: the workload suspends something / changes a priority / a pstate while running under cpu/optim:TI;
    link-change-in-latency: a bandwidth / latency profile event of a link falls in the latency phase of a comm crossing it;
    comm-suspend-in-latency: a comm (or an actor owning it) is suspended during the latency phase of the comm (network/optim:Lazy);
    lazy-noop-priority: Exec::update_priority with the priority the exec already has (cpu/optim:Lazy);
    lazy-noop-resume: resume() of an action that is already running (Lazy).
    The latency phase of a comm is over-approximated by [start, start + 13.01 * sum of the largest latency of every link of its route]."""
    from verif.gen import optim as gen
    tags = set()
    feats = gen.features_used(w)
    if cfg[0] == "TI":
        if "suspend" in feats:
            tags.add("ti-suspend")
        if "pstate" in feats:
            tags.add("ti-pstate")
        if "prio" in feats:
            tags.add("ti-prio")
    if cfg[0] == "Lazy" and noop_priority_update(w):
        tags.add("lazy-noop-priority")
    if "Lazy" in cfg and resume_of_running(w):
        tags.add("lazy-noop-resume")
    links = {l["name"]: l for l in w["platform"]["links"]}
    has_linkprof = any(l.get("bwprof") or l.get("latprof") for l in links.values())

    def maxlat(l):
        v = [l["lat"]]
        if l.get("latprof"):
            v += [x for _, x in l["latprof"]["points"]]
        return max(v)
    comms = comm_table(w)
    if ref is None or ref.get("status") != "ok":
        # no reference log: static over-approximation
        for i, (owners, route) in comms.items():
            lat = sum(maxlat(links[n]) for n in route)
            if lat > 0 and any(links[n].get("bwprof") or links[n].get("latprof") for n in route):
                tags.add("link-change-in-latency")
            if lat > 0 and "suspend" in feats and cfg[1] == "Lazy":
                tags.add("comm-suspend-in-latency")
        return tags
    ev = ref["ev"]
    horizon = ev.get(("END",), 0.0) + 1.0
    susp_act = {}        # activity id -> [(suspend date, resume date)]
    susp_actor = {}      # actor -> [(suspend date, resume date)]
    for k, t in ev.items():
        if k[0] == "ctl" and k[1] == "Z":
            susp_act.setdefault(int(k[2]), []).append((t, ev.get(("ctl", "R", k[2], k[3]), horizon)))
        elif k[0] == "ctl" and k[1] == "AZ":
            susp_actor.setdefault(k[2], []).append((t, ev.get(("ctl", "AR", k[2], k[3]), horizon)))
    for i, (owners, route) in comms.items():
        st = ev.get(("start", i))
        if st is None:
            st = ev.get(("begun", i))
        if st is None:
            continue
        lat = LAT_FACTOR_MAX * sum(maxlat(links[n]) for n in route)
        if lat <= 0:
            continue
        lo, hi = st - 1e-9, st + lat + 1e-9
        if has_linkprof:
            for n in route:
                for pr in (links[n].get("bwprof"), links[n].get("latprof")):
                    if any(lo <= d <= hi for d in profile_dates(pr, hi)):
                        tags.add("link-change-in-latency")
        spans = list(susp_act.get(i, []))
        for o in owners:
            spans += susp_actor.get(o, [])
        if cfg[1] == "Lazy" and any(a <= hi and b >= lo for a, b in spans):      # only the lazy update differs from the reference there
            tags.add("comm-suspend-in-latency")
    return tags
