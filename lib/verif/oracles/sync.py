"""Sequential reference models for the S4U synchronisation objects driven by harness/sync.cpp (C05 semaphores, C06 condition
variables, C07 barriers).

The harness logs every call at the actor boundary ("Q" before the call, "A" after its return).  SimGrid's kernel is sequential:
actors of a scheduling sub-round run one after the other and maestro then handles their simcalls in the same order, so the order
of the Q lines is the order in which the kernel saw the requests.  The models below replay the Q lines in that order and check every
A line (and every capacity read) against the state of the model.

Dates: the harness works on a grid of 2^-10 s, so a release/notify can happen *exactly* at the deadline of a timed wait.  The
statements say "within t" and leave that tie open: a request whose deadline D is within EPS of the current date is resolved with the
answer the call actually gave (both outcomes are accepted, the rest of the history must then be consistent with it).
"""
from collections import namedtuple

UNIT = 1.0 / 1024
# SimGrid's timing precision is 1e-9 s (a timeout below it lasts 1e-9 s, which shifts later dates of that actor off the 2^-10 grid by
# whole nanoseconds): dates closer than a few of these are treated as a tie (either answer accepted), 1e-8 << 2^-10.
EPS = 1e-8
INF = float("inf")

Ev = namedtuple("Ev", "k ln a op obj arg clock owner vals")


def tmo(tok):
    if tok == "t":
        return 1e-12
    if tok == "n":
        return -1.0
    return int(tok) * UNIT


def tclass(tok):
    """timeout class used in violation keys (stable across seeds)"""
    if tok in (None, "-"):
        return "none"
    if tok in ("0", "n"):
        return "0"
    if tok == "t":
        return "tiny"
    return "pos"


def parse(out):
    """-> (events, ended, done:set). Truncated last lines (killed process) are dropped."""
    evs, done, ended = [], set(), False
    for ln, l in enumerate(out.splitlines()):
        t = l.split()
        if not t:
            continue
        try:
            k = t[0]
            if k == "Q" and len(t) == 6:
                evs.append(Ev("Q", ln, int(t[1]), t[2], int(t[3]), t[4], float(t[5]), 0, None))
            elif k == "A" and len(t) == 7:
                evs.append(Ev("A", ln, int(t[1]), t[2], int(t[3]), int(t[4]), float(t[5]), int(t[6]), None))
            elif k == "C" and len(t) == 5:
                evs.append(Ev("C", ln, int(t[1]), "C", int(t[2]), int(t[3]), float(t[4]), 0, None))
            elif k == "K":
                evs.append(Ev("K", ln, -1, "K", int(t[1]), None, float(t[2]), 0, [int(x) for x in t[3:]]))
            elif k == "D" and len(t) == 2:
                done.add(int(t[1]))
                evs.append(Ev("D", ln, int(t[1]), "D", 0, None, None, 0, None))
            elif k == "END":
                ended = True
                evs.append(Ev("END", ln, -1, "END", 0, None, float(t[1]), 0, [int(x) for x in t[2:]]))
        except (ValueError, IndexError):
            continue
    return evs, ended, done


def observed_results(evs, ops):
    """result of every blocking call: index of its Q event -> result of the matching A line, None when it never returned"""
    obs, last = {}, {}
    for i, e in enumerate(evs):
        if e.k == "Q" and e.op in ops:
            last[e.a] = i
            obs[i] = None
        elif e.k == "A" and e.op in ops and e.a in last:
            obs[last.pop(e.a)] = (e.arg, e.clock)
    return obs


def tail(lines, ln, n=14):
    return lines[max(0, ln - n):ln + 1]


class Rec:
    __slots__ = ("a", "qi", "obj", "tok", "D", "state", "clock")

    def __init__(self, a, qi, obj, tok, D, clock):
        self.a, self.qi, self.obj, self.tok, self.D, self.clock = a, qi, obj, tok, D, clock
        self.state = "waiting"


# ------------------------------------------------------------------------------------------------ C05
def check_sem(ctx, sc, out, w, pid="C05"):
    """-> None when a violation was reported, "skip" when the history left the part the statement defines, else a dict of facts"""
    lines = out.splitlines()
    evs, ended, done = parse(out)
    caps = list(sc["caps"])
    na, ns = len(sc["scripts"]), len(caps)
    obs = observed_results(evs, "AT")
    value = list(caps)
    queue = [[] for _ in range(ns)]
    call = {}                   # actor -> Rec of its outstanding acquire
    dead = set()
    snap_val, snap_empty = list(caps), [True] * ns
    last_tie_expiry = [None] * ns
    facts = {"waited": 0, "timeouts": 0, "ties": 0, "kills": 0, "immediate": 0, "creads": 0, "kreads": 0, "forever": 0,
             "releases": 0, "handoffs": 0}

    def vio(rule, tok, what, ln):
        ctx.violation("%s:%s:timeout=%s" % (pid, rule, tclass(tok)), "line %d: %s; history: %r" % (ln, what, tail(lines, ln)), w)
        return None

    def expire(c, ln):
        """timed waiters whose deadline has passed leave the queue; at a tie the observed answer decides"""
        for s in range(ns):
            for r in list(queue[s]):
                if r.D == INF:
                    continue
                o = obs.get(r.qi)
                d = c - r.D             # one subtraction decides both tests below: no date may fall between "tie" and "passed"
                if d > EPS:
                    queue[s].remove(r)
                    r.state = "expired"
                    if o is None:
                        return vio("timeout-not-reported", r.tok, "acquire_timeout(%s) of actor %d called at %.9g got no token before its deadline %.9g "
                                   "and never returned" % (r.tok, r.a, r.clock, r.D), ln)
                    if o[0] != 1:
                        return vio("timeout-not-reported", r.tok, "acquire_timeout(%s) of actor %d called at %.9g got no token before its deadline %.9g, "
                                   "yet it returned 'acquired' at %.9g (it kept waiting past the deadline)" % (r.tok, r.a, r.clock, r.D, o[1]), ln)
                elif d >= -EPS and o is not None and o[0] == 1:
                    queue[s].remove(r)
                    r.state = "expired"
                    last_tie_expiry[s] = c
        return True

    for i, e in enumerate(evs):
        if e.k == "D":
            continue
        if expire(INF if e.k == "END" else e.clock, e.ln) is None:
            return None
        if e.k == "Q":
            if e.a in dead:
                return "skip"   # a killed actor issued a request in the sub-round of its death: the statement does not say what happens to it
            if e.op in "AT":
                r = Rec(e.a, i, e.obj, e.arg if e.op == "T" else None, INF, e.clock)
                if e.op == "T":
                    r.D = e.clock + tmo(e.arg)
                call[e.a] = r
                if value[e.obj] > 0:
                    value[e.obj] -= 1
                    r.state = "granted"
                    facts["immediate"] += 1
                else:
                    queue[e.obj].append(r)
                    facts["waited"] += 1
            elif e.op == "R":
                facts["releases"] += 1
                if last_tie_expiry[e.obj] is not None and abs(last_tie_expiry[e.obj] - e.clock) <= EPS:
                    facts["ties"] += 1
                if queue[e.obj]:
                    r = queue[e.obj].pop(0)
                    if r.D != INF and abs(r.D - e.clock) <= EPS:
                        facts["ties"] += 1
                    r.state = "granted"
                    facts["handoffs"] += 1
                else:
                    value[e.obj] += 1
            elif e.op == "X":
                facts["kills"] += 1
                dead.add(e.obj)
                r = call.get(e.obj)
                if r is not None and r.state == "waiting":
                    queue[r.obj].remove(r)
                    r.state = "dead"
        elif e.k == "A" and e.op in "AT":
            r = call.pop(e.a, None)
            if r is None:
                return vio("malformed", None, "return of actor %d without a call" % e.a, e.ln)
            if e.arg == 0:      # acquired
                if r.state == "waiting":
                    earlier = [x for x in call.values() if x.state == "granted" and x.obj == r.obj and x.qi < r.qi and obs.get(x.qi) is None]
                    rule = "fifo" if earlier or queue[r.obj][0] is not r else "overgrant"
                    return vio(rule, r.tok, "actor %d acquired semaphore %d although the model has no token for it (capacity %d + releases so far "
                               "all consumed by earlier requests; queue %r)" % (e.a, r.obj, caps[r.obj], [x.a for x in queue[r.obj]]), e.ln)
                if r.state == "expired":
                    return vio("timeout-not-reported", r.tok, "actor %d acquired after its deadline %.9g" % (e.a, r.D), e.ln)
            else:               # timeout
                facts["timeouts"] += 1
                if r.state == "granted":
                    return vio("timeout-despite-token", r.tok, "acquire_timeout(%s) of actor %d (called at %.9g, deadline %.9g) reported a timeout at %.9g "
                               "although a token was available to it before the deadline" % (r.tok, e.a, r.clock, r.D, e.clock), e.ln)
                if r.state == "waiting" or e.clock < r.D - EPS:
                    return vio("early-timeout", r.tok, "acquire_timeout(%s) of actor %d (called at %.9g, deadline %.9g) reported a timeout at %.9g"
                               % (r.tok, e.a, r.clock, r.D, e.clock), e.ln)
        elif e.k == "C":
            if snap_empty[e.obj]:
                facts["creads"] += 1
                if e.arg != snap_val[e.obj]:
                    return vio("capacity", None, "get_capacity() of semaphore %d read by actor %d = %d, model (capacity %d + releases - grants, nobody "
                               "waiting) = %d" % (e.obj, e.a, e.arg, caps[e.obj], snap_val[e.obj]), e.ln)
        elif e.k in ("K", "END"):
            for s in range(ns):
                if not queue[s] and s < len(e.vals):
                    facts["kreads"] += 1
                    if e.vals[s] != value[s]:
                        return vio("capacity", None, "capacity of semaphore %d after the scheduling round = %d, model (capacity %d + releases - grants, "
                                   "nobody waiting) = %d" % (s, e.vals[s], caps[s], value[s]), e.ln)
            snap_val, snap_empty = list(value), [not q for q in queue]
    if not ended:
        return vio("no-end", None, "the run did not reach its end", len(lines) - 1)
    for a in range(na):
        if a in done or a in dead:
            continue
        r = call.get(a)
        if r is None:
            return vio("stuck", None, "actor %d never finished although it is not inside an acquire" % a, len(lines) - 1)
        if r.state == "granted":
            return vio("lost-wakeup", r.tok, "actor %d never returned from its acquire on semaphore %d although a token was handed to it" % (a, r.obj),
                       len(lines) - 1)
        if r.state == "waiting":
            facts["forever"] += 1
    return facts


# ------------------------------------------------------------------------------------------------ C06
def check_cv(ctx, sc, out, w, pid="C06"):
    lines = out.splitlines()
    evs, ended, done = parse(out)
    na, ncv = len(sc["scripts"]), sc["ncv"]
    obs = observed_results(evs, "WFG")
    waiters = [[] for _ in range(ncv)]
    call = {}
    holder = [None] * ncv
    inlock = {}
    call_tok = {}               # actor -> timeout token of its last wait (for the violation key)
    facts = {"notify_one.woke": 0, "notify_one.lost": 0, "notify_all.woke": 0, "notify_all.calls": 0, "timeouts": 0, "ties": 0,
             "waits": 0, "returns_owner_checked": 0, "forever": 0, "relock_contended": 0, "max_woken_by_one_broadcast": 0}

    def vio(rule, tok, what, ln):
        ctx.violation("%s:%s:timeout=%s" % (pid, rule, tclass(tok)), "line %d: %s; history: %r" % (ln, what, tail(lines, ln)), w)
        return None

    def expire(c, ln):
        for v in range(ncv):
            for r in list(waiters[v]):
                if r.D == INF:
                    continue
                o = obs.get(r.qi)
                d = c - r.D             # one subtraction decides both tests below: no date may fall between "tie" and "passed"
                if d > EPS:
                    waiters[v].remove(r)
                    r.state = "expired"
                    if o is None:
                        return vio("timeout-not-reported", r.tok, "timed wait (%s) of actor %d on condvar %d called at %.9g was not notified before its "
                                   "deadline %.9g and never returned" % (r.tok, r.a, v, r.clock, r.D), ln)
                    if o[0] != 1:
                        return vio("timeout-not-reported", r.tok, "timed wait (%s) of actor %d on condvar %d called at %.9g was not notified before its "
                                   "deadline %.9g, yet it returned no_timeout at %.9g (it kept waiting past the deadline)"
                                   % (r.tok, r.a, v, r.clock, r.D, o[1]), ln)
                elif d >= -EPS and o is not None and o[0] == 1:
                    waiters[v].remove(r)
                    r.state = "expired"
        return True

    def returned_holding(e):
        """actor e.a returns from lock/wait on mutex e.obj: it must own it, exclusively"""
        if e.owner != 1:
            return vio("return-without-mutex" if e.op != "L" else "lock-without-mutex", call_tok.get(e.a), "%s of actor %d returned but Mutex::get_owner() "
                       "is not the caller" % (e.op, e.a), e.ln)
        if holder[e.obj] is not None:
            return vio("exclusion:%s" % ("lock" if e.op == "L" else "wait"), call_tok.get(e.a), "%s of actor %d returned with mutex %d while actor %d "
                       "still holds it (it returned from lock/wait and has not unlocked or waited since)" % (e.op, e.a, e.obj, holder[e.obj]), e.ln)
        holder[e.obj] = e.a
        facts["returns_owner_checked"] += 1
        return True

    for i, e in enumerate(evs):
        if e.k == "D":
            continue
        if expire(INF if e.k == "END" else e.clock, e.ln) is None:
            return None
        if e.k == "Q":
            v = e.obj
            if e.op == "L":
                inlock[e.a] = v
                call_tok[e.a] = None
            elif e.op == "U":
                if holder[v] != e.a:
                    return vio("malformed", None, "actor %d unlocks mutex %d that it does not hold in the log" % (e.a, v), e.ln)
                holder[v] = None
            elif e.op in "WFG":
                if holder[v] != e.a:
                    return vio("malformed", None, "actor %d waits with mutex %d that it does not hold in the log" % (e.a, v), e.ln)
                holder[v] = None
                facts["waits"] += 1
                if e.op == "W":
                    D, tok = INF, None
                elif e.op == "F":
                    D, tok = e.clock + max(0.0, tmo(e.arg)), e.arg
                else:
                    date = (e.clock if e.arg[0] == "+" else 0.0) + int(e.arg) * UNIT
                    D, tok = max(date, e.clock), ("0" if date <= e.clock else e.arg)
                r = Rec(e.a, i, v, tok, D, e.clock)
                call[e.a] = r
                call_tok[e.a] = tok
                waiters[v].append(r)
            elif e.op == "N":
                if waiters[v]:
                    r = waiters[v].pop(0)
                    r.state = "notified"
                    facts["notify_one.woke"] += 1
                    if r.D != INF and abs(r.D - e.clock) <= EPS:
                        facts["ties"] += 1
                else:
                    facts["notify_one.lost"] += 1
            elif e.op == "B":
                facts["notify_all.calls"] += 1
                facts["notify_all.woke"] += len(waiters[v])
                facts["max_woken_by_one_broadcast"] = max(facts["max_woken_by_one_broadcast"], len(waiters[v]))
                for r in waiters[v]:
                    r.state = "notified"
                    if r.D != INF and abs(r.D - e.clock) <= EPS:
                        facts["ties"] += 1
                waiters[v] = []
        elif e.k == "A":
            if e.op == "L":
                inlock.pop(e.a, None)
                if returned_holding(e) is None:
                    return None
            elif e.op in "WFG":
                r = call.pop(e.a, None)
                if r is None:
                    return vio("malformed", None, "return of actor %d without a call" % e.a, e.ln)
                if e.arg == 0:          # no_timeout
                    if r.state == "waiting":
                        return vio("woken-without-notify", r.tok, "wait of actor %d on condvar %d returned no_timeout although no notification reached it: "
                                   "it was not the longest waiter of any notify_one and no notify_all happened while it waited (waiters in order: %r)"
                                   % (e.a, r.obj, [x.a for x in waiters[r.obj]]), e.ln)
                    if r.state == "expired":
                        return vio("timeout-not-reported", r.tok, "wait of actor %d returned no_timeout after its deadline %.9g" % (e.a, r.D), e.ln)
                else:
                    facts["timeouts"] += 1
                    if r.state == "notified":
                        return vio("timeout-despite-notify", r.tok, "timed wait (%s) of actor %d on condvar %d (deadline %.9g) reported a timeout at %.9g "
                                   "although it was notified before the deadline" % (r.tok, e.a, r.obj, r.D, e.clock), e.ln)
                    if r.state == "waiting" or e.clock < r.D - EPS:
                        return vio("early-timeout", r.tok, "timed wait (%s) of actor %d on condvar %d (deadline %.9g) reported a timeout at %.9g"
                                   % (r.tok, e.a, r.obj, r.D, e.clock), e.ln)
                if returned_holding(e) is None:
                    return None
    if not ended:
        return vio("no-end", None, "the run did not reach its end", len(lines) - 1)
    for a in range(na):
        if a in done:
            continue
        r = call.get(a)
        if r is None:
            return vio("stuck", None, "actor %d never finished although it is not waiting on a condition variable (every mutex holder of the "
                       "scenario releases its mutex eventually)" % a, len(lines) - 1)
        if r.state == "notified":
            return vio("lost-wakeup", r.tok, "actor %d never returned from its wait on condvar %d although the model says it was notified "
                       "(longest waiter of a notify_one, or waiting at a notify_all)" % (a, r.obj), len(lines) - 1)
        if r.state == "waiting":
            facts["forever"] += 1
    return facts


# ------------------------------------------------------------------------------------------------ C07
class _Arr:
    __slots__ = ("a", "ret", "res", "clock", "dead")

    def __init__(self, a, clock):
        self.a, self.clock, self.ret, self.res, self.dead = a, clock, False, None, False


def _bar_model(sc, lines, evs, ended, done, dead_leaves):
    """Arrival counting over one history. dead_leaves: a waiter killed while its group is incomplete leaves the group (True) or
    stays counted as arrived (False) - the statement does not say, both are accepted by check_bar.
    -> (facts, None) or (None, (rule, barrier, what, line))"""
    sizes = sc["sizes"]
    na, nb = len(sc["scripts"]), len(sizes)
    seq = [[] for _ in range(nb)]          # per barrier: arrivals that count, in request order
    pending = {}                           # actor -> (barrier, _Arr)
    dead = set()
    facts = {"groups": 0, "waits": 0, "blocked_waits": 0, "forever": 0, "groups_one_true": 0, "groups_other_true": 0, "rearmed": 0,
             "release_in_arrival_order": 0, "release_other_order": 0, "kills": 0, "kills_of_ungranted_waiters": 0}
    order = [[] for _ in range(nb)]        # arrivals in return order

    prev = None
    for e in evs:
        if e.k == "Q" and e.a in dead:
            return "skip", None         # a killed actor issued a request (wait or kill) in the scheduling round of its death, which the
                                        # kernel drops: the statement is silent, and the harness bookkeeping no longer matches
        if e.k == "Q" and e.op == "B":
            x = _Arr(e.a, e.clock)
            pending[e.a] = (e.obj, x)
            seq[e.obj].append(x)
            facts["waits"] += 1
        elif e.k == "Q" and e.op == "X":
            facts["kills"] += 1
            dead.add(e.obj)
            if e.obj in pending:
                b, x = pending[e.obj]
                x.dead = True
                n = sizes[b]
                if seq[b].index(x) >= (len(seq[b]) // n) * n:     # its group is incomplete: the kill hits a really blocked waiter
                    facts["kills_of_ungranted_waiters"] += 1
                    del pending[e.obj]
                    if dead_leaves:
                        seq[b].remove(x)
                # else its group is complete: the victim was released already and may or may not run once more before it dies
        elif e.k == "A" and e.op == "B":
            if e.a not in pending:
                return None, ("malformed", e.obj, "return of actor %d without a call" % e.a, e.ln)
            b, x = pending.pop(e.a)
            n = sizes[b]
            idx = seq[b].index(x)
            g = idx // n
            if len(seq[b]) < (g + 1) * n:
                return None, ("early-release", b, "wait of actor %d (arrival #%d on barrier %d of size %d, group %d) returned when only %d actors had "
                              "arrived: its group is incomplete" % (e.a, idx + 1, b, n, g + 1, len(seq[b])), e.ln)
            if e.clock < seq[b][(g + 1) * n - 1].clock:
                return None, ("early-release", b, "wait of actor %d returned at %.9g, before the last arrival of its group (%.9g)"
                              % (e.a, e.clock, seq[b][(g + 1) * n - 1].clock), e.ln)
            x.ret, x.res = True, e.arg
            order[b].append(x)
            if not (prev is not None and prev.k == "Q" and prev.a == e.a):
                facts["blocked_waits"] += 1
        if e.k in "QA":
            prev = e
    if not ended:
        return None, ("no-end", 0, "the run did not reach its end", len(lines) - 1)
    for b in range(nb):
        n = sizes[b]
        full = len(seq[b]) // n
        facts["groups"] += full
        if full >= 2:
            facts["rearmed"] += 1
        for idx, x in enumerate(seq[b]):
            if idx < full * n and not x.ret and not x.dead:
                return None, ("lost-release", b, "actor %d (arrival #%d on barrier %d of size %d) never returned although its group of %d is "
                              "complete (%d arrivals)" % (x.a, idx + 1, b, n, n, len(seq[b])), len(lines) - 1)
            if idx >= full * n and not x.dead:
                facts["forever"] += 1
        for g in range(full):
            grp = seq[b][g * n:(g + 1) * n]
            if any(x.dead for x in grp):
                continue
            trues = sum(1 for x in grp if x.res)
            facts["groups_one_true" if trues == 1 else "groups_other_true"] += 1
            ret_order = [seq[b].index(x) for x in order[b] if x in grp]
            facts["release_in_arrival_order" if ret_order == sorted(ret_order) else "release_other_order"] += 1
    for a in range(na):
        if a not in done and a not in dead and a not in pending:
            return None, ("stuck", 0, "actor %d never finished although it is not inside a barrier wait" % a, len(lines) - 1)
    return facts, None


def check_bar(ctx, sc, out, w, pid="C07"):
    lines = out.splitlines()
    evs, ended, done = parse(out)
    sizes = sc["sizes"]
    facts, bad = _bar_model(sc, lines, evs, ended, done, True)
    if facts == "skip":
        return "skip"
    if bad is not None and any(e.k == "Q" and e.op == "X" for e in evs):
        facts2, bad2 = _bar_model(sc, lines, evs, ended, done, False)
        if bad2 is None:
            facts2["killed_waiter_still_counted"] = 1
            return facts2
    if bad is not None:
        rule, b, what, ln = bad
        ctx.violation("%s:%s:size=%s" % (pid, rule, "1" if sizes[b] == 1 else "n"), "line %d: %s; history: %r" % (ln, what, tail(lines, ln)), w)
        return None
    if facts["kills_of_ungranted_waiters"]:
        _, bad2 = _bar_model(sc, lines, evs, ended, done, False)
        facts["killed_waiter_left_its_group" if bad2 is not None else "kill_semantics_not_distinguished"] = 1
    return facts
