"""Sequential reference model of MPI one-sided communication for C34 (harness/mpi/rma.c, generator verif.gen.rma).

A program is a dict {np, types, wins, phases}.  Every phase ends with a dump of every window on every rank.  The oracle
replays the phase on a model of the window memories:
 * fence / pscw phases are conflict-free by construction (MPI leaves exactly one outcome): replay in rank order, compare
   every fetched buffer and every window element;
 * excl / mixed phases: the exclusive-lock sections (and, in mixed phases, every single atomic operation issued under a shared
   lock) must be explained by ONE total order compatible with each rank's program order: depth-first search for such an
   order using the observed fetched values, accepting iff one order also yields the observed final memory;
 * shared phases: MPI promises element-wise atomicity only, and orders accumulates of one origin on one location: the same
   search is done per window element on the operations projected on that element.
Nothing else is demanded (in particular no order between different locations under shared locks)."""
import re

ESIZE = {"i": 4, "u": 4, "l": 8, "d": 8, "b": 1}
SENT = -77
COMMUTATIVE = ("SUM", "PROD", "MAX", "MIN", "BAND", "BOR", "BXOR", "LAND", "LOR", "LXOR")
FETCHERS = ("GET", "GACC", "FOP", "CAS")
RMA_OPS = ("PUT", "GET", "ACC", "GACC", "FOP", "CAS")


class BadProgram(Exception):
    """The generator produced something the model refuses (signed overflow...): harness failure, never a violation."""


def wrap(et, v):
    if et == "u":
        return int(v) & 0xffffffff
    if et == "b":
        return int(v) & 0xff
    if et == "d":
        return float(v)
    v = int(v)
    lim = 2 ** 31 if et == "i" else 2 ** 63
    if not -lim <= v < lim:
        raise BadProgram("signed overflow %d for %s" % (v, et))
    return v


def sentinel(et):
    return wrap(et, SENT)


def initval(win, r, k):
    if win["et"] == "b":
        return (win["iv"] + 37 * r + k) & 0xff
    return wrap(win["et"], win["iv"] + 1000 * r + k)


def apply_op(et, op, t, o):
    if op == "SUM":
        return wrap(et, t + o)
    if op == "PROD":
        return wrap(et, t * o)
    if op == "MAX":
        return max(t, o)
    if op == "MIN":
        return min(t, o)
    if op == "BAND":
        return wrap(et, t & o)
    if op == "BOR":
        return wrap(et, t | o)
    if op == "BXOR":
        return wrap(et, t ^ o)
    if op == "LAND":
        return wrap(et, 1 if (t and o) else 0)
    if op == "LOR":
        return wrap(et, 1 if (t or o) else 0)
    if op == "LXOR":
        return wrap(et, 1 if (bool(t) != bool(o)) else 0)
    if op == "REPLACE":
        return o
    if op == "NO_OP":
        return t
    raise BadProgram("op " + op)


# ---------------------------------------------------------------------------------------------------- datatypes
def type_elem(types, tref):
    """(offsets of one element, extent) in window-element units; tref = 'e' or a derived type id."""
    if tref == "e":
        return [0], 1
    t = types[int(tref)]
    k, a = t["kind"], t["args"]
    if k == "contig":
        return list(range(a[0])), a[0]
    if k == "vector":
        c, b, s = a
        return [j * s + i for j in range(c) for i in range(b)], (c - 1) * s + b
    if k == "indexed":
        offs = []
        for bl, d in a:
            offs += [d + i for i in range(bl)]
        return offs, a[-1][1] + a[-1][0]
    raise BadProgram("type kind " + k)


def typemap(types, tref, count, et):
    """Element offsets touched by (count, tref), in transfer order."""
    if tref == "y":
        if count % ESIZE[et]:
            raise BadProgram("byte count")
        return list(range(count // ESIZE[et]))
    one, ext = type_elem(types, tref)
    return [k * ext + o for k in range(count) for o in one]


def span(offs):
    return max(offs) + 1 if offs else 0


# ---------------------------------------------------------------------------------------------------- script text
def _tok(v):
    if isinstance(v, (list, tuple)):
        return "@%d.%d:%d" % (v[1], v[2], v[3])
    if isinstance(v, float):
        return repr(v)
    return str(v)


def tdisp(prog, w, t, idx):
    win = prog["wins"][w]
    byte = idx * ESIZE[win["et"]]
    if win["kind"] == "d":
        return byte
    du = win["du"][t]
    if byte % du:
        raise BadProgram("unaligned displacement")
    return byte // du


def op_line(prog, r, o):
    k = o["o"]
    f = [str(r)]
    if k in ("PUT", "ACC") and "rq" in o:
        f += ["R" + k, o["rq"]]
    elif k == "GET" and "rq" in o:
        f += ["RGET", o["rq"]]
    else:
        f.append(k)
    if k == "FENCE":
        f += [o["w"], o["a"]]
    elif k == "LOCK":
        f += [o["w"], o["lt"], o["t"], 0]
    elif k in ("UNLOCK", "FLUSH", "FLUSHL"):
        f += [o["w"], o["t"]]
    elif k in ("LOCKALL", "UNLOCKALL", "FLUSHALL", "FLUSHLALL", "COMPLETE", "WAIT"):
        f += [o["w"]]
    elif k in ("POST", "START"):
        f += [o["w"], len(o["g"])] + list(o["g"])
    elif k == "DELAY":
        f += [o["us"]]
    elif k == "SHOW":
        f += [o["id"]]
    elif k == "WAITRQ":
        f += [o["rq"]]
    elif k == "PUT":
        f += [o["w"], o["t"], tdisp(prog, o["w"], o["t"], o["idx"]), o["tc"], o["tt"], o["oc"], o["ot"], len(o["vals"])]
        f += [_tok(v) for v in o["vals"]]
    elif k == "GET":
        f += [o["id"], o["w"], o["t"], tdisp(prog, o["w"], o["t"], o["idx"]), o["tc"], o["tt"], o["oc"], o["ot"], o["rlen"]]
    elif k == "ACC":
        f += [o["w"], o["t"], tdisp(prog, o["w"], o["t"], o["idx"]), o["tc"], o["tt"], o["oc"], o["ot"], o["op"], len(o["vals"])]
        f += [_tok(v) for v in o["vals"]]
    elif k == "GACC":
        f += [o["id"], o["w"], o["t"], tdisp(prog, o["w"], o["t"], o["idx"]), o["tc"], o["tt"], o["oc"], o["ot"], o["rc"], o["rt"],
              o["rlen"], o["op"], len(o["vals"])]
        f += [_tok(v) for v in o["vals"]]
    elif k == "FOP":
        f += [o["id"], o["w"], o["t"], tdisp(prog, o["w"], o["t"], o["idx"]), o["op"], _tok(o["val"])]
    elif k == "CAS":
        f += [o["id"], o["w"], o["t"], tdisp(prog, o["w"], o["t"], o["idx"]), _tok(o["new"]), _tok(o["cmp"])]
    else:
        raise BadProgram("opcode " + k)
    return " ".join(str(x) for x in f)


def script(prog):
    L = []
    for tid, t in enumerate(prog["types"]):
        a = t["args"]
        if t["kind"] == "indexed":
            flat = [len(a)] + [x for bd in a for x in bd]
        else:
            flat = list(a)
        L.append("T %d %s %s %s" % (tid, t["base"], t["kind"], " ".join(map(str, flat))))
    for wid, w in enumerate(prog["wins"]):
        L.append("W %d %s %s %d %s" % (wid, w["kind"], w["et"], w["iv"],
                                       " ".join("%d:%d" % (n, d) for n, d in zip(w["nelem"], w["du"]))))
    for pi, ph in enumerate(prog["phases"]):
        L.append("# phase %d %s" % (pi, ph["kind"]))
        for r in sorted(ph["ranks"], key=int):
            for o in ph["ranks"][r]:
                L.append(op_line(prog, int(r), o))
        L.append("* BARRIER")
        for wid in range(len(prog["wins"])):
            L.append("* DUMP %d p%d" % (wid, pi))
        L.append("* BARRIER")
    return "\n".join(L) + "\n"


# ---------------------------------------------------------------------------------------------------- observation
class Obs:
    def __init__(self, prog, out):
        self.dumps = {}      # (tag, win, rank) -> [values]
        self.fetch = {}      # (rank, id) -> [values]
        self.errors = []     # (rank, line, rc, op)
        self.done = set()
        self.crash = []
        self.bad = []
        ets = [w["et"] for w in prog["wins"]]
        idet = {}
        for ph in prog["phases"]:
            for r, ops in ph["ranks"].items():
                for o in ops:
                    if o["o"] in FETCHERS:
                        idet[(int(r), o["id"])] = ets[o["w"]]
        for l in out.splitlines():
            f = l.split()
            if not f:
                continue
            try:
                if f[0] == "W":
                    et = ets[int(f[3])]
                    self.dumps[(f[2], int(f[3]), int(f[1]))] = [float(x) if et == "d" else int(x) for x in f[4:]]
                elif f[0] == "G":
                    et = idet.get((int(f[1]), int(f[2])), "l")
                    self.fetch[(int(f[1]), int(f[2]))] = [float(x) if et == "d" else int(x) for x in f[3:]]
                elif f[0] == "E":
                    self.errors.append((int(f[1]), int(f[2]), int(f[3]), f[4] if len(f) > 4 else "?"))
                elif f[0] == "DONE":
                    self.done.add(int(f[1]))
                elif f[0] == "CRASH":
                    self.crash.append(l)
                elif f[0] == "BADSCRIPT":
                    self.bad.append(l)
            except (ValueError, IndexError):
                self.bad.append("unparsable: " + l)


# ---------------------------------------------------------------------------------------------------- primitives
def _resolve(v, et, r, obs):
    """Value of an origin token; '@' tokens take the OBSERVED fetched value (checked separately against the model)."""
    if isinstance(v, (list, tuple)):
        buf = obs.fetch.get((r, v[1]))
        if buf is None or v[2] >= len(buf):
            raise MissingFetch((r, v[1]))
        return wrap(et, buf[v[2]] + v[3])
    return wrap(et, v)


class MissingFetch(Exception):
    pass


def prims(prog, r, o, obs, problems):
    """Model form of one RMA call of rank r: dict(kind, locs, vals, op, exp, label).  exp = observed fetched values per
    location (None for non-fetching calls).  Result-buffer slots outside the type map must still hold the sentinel."""
    k = o["o"]
    w = o["w"]
    win = prog["wins"][w]
    et = win["et"]
    types = prog["types"]
    t = o["t"]
    if k in ("FOP", "CAS"):
        locs = [(w, t, o["idx"])]
    else:
        locs = [(w, t, o["idx"] + x) for x in typemap(types, o["tt"], o["tc"], et)]
    for (_, _, e) in locs:
        if not 0 <= e < win["nelem"][t]:
            raise BadProgram("access outside window: %r" % (o,))
    p = {"kind": k, "locs": locs, "rank": r, "op": o.get("op"), "exp": None, "vals": None, "id": o.get("id")}
    if k in ("PUT", "ACC", "GACC"):
        omap = typemap(types, o["ot"], o["oc"], et)
        if k == "GACC" and o["op"] == "NO_OP":
            p["vals"] = [0] * len(locs)
        else:
            if len(omap) != len(locs):
                raise BadProgram("signature mismatch %r" % (o,))
            p["vals"] = [_resolve(o["vals"][x], et, r, obs) for x in omap]
    elif k == "FOP":
        p["vals"] = [_resolve(o["val"], et, r, obs)]
    elif k == "CAS":
        p["vals"] = [_resolve(o["new"], et, r, obs)]
        p["cmp"] = _resolve(o["cmp"], et, r, obs)
        p["op"] = "CAS"
    if k in FETCHERS:
        buf = obs.fetch.get((r, o["id"]))
        if buf is None:
            raise MissingFetch((r, o["id"]))
        if k == "GET":
            rmap, rlen = typemap(types, o["ot"], o["oc"], et), o["rlen"]
        elif k == "GACC":
            rmap, rlen = typemap(types, o["rt"], o["rc"], et), o["rlen"]
        else:
            rmap, rlen = [0], 1
        if len(rmap) != len(locs) or len(buf) != rlen:
            raise BadProgram("result signature mismatch %r (buffer of %d)" % (o, len(buf)))
        s = sentinel(et)
        for x in range(rlen):
            if x not in rmap and buf[x] != s:
                problems.append(("result-buffer-outside-typemap", "rank %d buffer %d slot %d = %r, not in the type map of %s"
                                 % (r, o["id"], x, buf[x], k)))
                break
        p["exp"] = [buf[x] for x in rmap]
    p["label"] = {"PUT": "put", "GET": "get", "CAS": "cas"}.get(k) or \
        ("acc-" if k == "ACC" else "gacc-") + o["op"].lower().replace("_", "")
    return p


def run_prim(p, mem, et_of, check=True):
    """Apply p to mem (dict loc->value).  Returns False if an observed fetched value contradicts the model."""
    k = p["kind"]
    if k in FETCHERS and check:
        for loc, x in zip(p["locs"], p["exp"]):
            if mem[loc] != x:
                return False
    if k == "PUT":
        for loc, v in zip(p["locs"], p["vals"]):
            mem[loc] = v
    elif k in ("ACC", "GACC", "FOP"):
        if p["op"] != "NO_OP":
            for loc, v in zip(p["locs"], p["vals"]):
                mem[loc] = apply_op(et_of(loc), p["op"], mem[loc], v)
    elif k == "CAS":
        loc = p["locs"][0]
        if mem[loc] == p["cmp"]:
            mem[loc] = p["vals"][0]
    return True


def search(progs, mem0, final, et_of, budget=400000):
    """Is there a total order of the units (progs: rank -> [unit], unit = [prim]) compatible with each rank's order that
    explains every observed fetch and the observed final content?  Returns (True|False|None(budget), states, detail)."""
    ranks = sorted(progs)
    n = [len(progs[r]) for r in ranks]
    start = tuple(0 for _ in ranks)
    stack = [(start, mem0)]
    seen = set()
    states = 0
    best = (-1, None, None)
    while stack:
        pos, mem = stack.pop()
        key = (pos, tuple(sorted(mem.items())))
        if key in seen:
            continue
        seen.add(key)
        states += 1
        if states > budget:
            return None, states, "search budget exhausted"
        if sum(pos) > best[0]:
            best = (sum(pos), pos, mem)
        if all(pos[i] == n[i] for i in range(len(ranks))):
            if all(mem[l] == final[l] for l in mem):
                return True, states, ""
            continue
        for i, r in enumerate(ranks):
            if pos[i] < n[i]:
                m2 = dict(mem)
                ok = True
                for p in progs[r][pos[i]]:
                    if not run_prim(p, m2, et_of):
                        ok = False
                        break
                if ok:
                    stack.append((pos[:i] + (pos[i] + 1,) + pos[i + 1:], m2))
    done, pos, mem = best
    if pos is not None and all(pos[i] == n[i] for i in range(len(ranks))):
        bad = [(l, mem[l], final[l]) for l in sorted(mem) if mem[l] != final[l]][:4]
        detail = "every order explaining the fetched values ends with another memory, e.g. (win,rank,elem) model/observed: " + \
            "; ".join("%s %r/%r" % (l, a, b) for l, a, b in bad)
    else:
        stuck = []
        for i, r in enumerate(ranks):
            if pos is not None and pos[i] < n[i]:
                u = progs[r][pos[i]]
                f = next((p for p in u if p["exp"] is not None), None)
                if f:
                    stuck.append("rank %d %s buffer %s fetched %r while the model holds %r" %
                                 (r, f["kind"], f["id"], f["exp"][:3], [mem[l] for l in f["locs"][:3]]))
        detail = "no order explains the fetched values; longest consistent prefix %d/%d units, then: %s" % (
            done, sum(n), " | ".join(stuck[:4]))
    return False, states, detail


# ---------------------------------------------------------------------------------------------------- judging
class Verdict:
    def __init__(self):
        self.violations = []   # (key, what)
        self.counts = {}
        self.inconclusive = []
        self.phases_ok = 0

    def count(self, k, n=1):
        self.counts[k] = self.counts.get(k, 0) + n

    def bad(self, key, what):
        self.violations.append((key, what))


def _slug(s, n=6):
    return "-".join(re.findall(r"[a-z]+", s.lower())[:n])


def abort_slug(err):
    """Stable description of an abort message (no numbers, pids, addresses)."""
    for l in err.splitlines():
        m = re.search(r"\[(?:root|[a-z_]+)/CRITICAL\]\s*(.*)", l)
        if m:
            return _slug(m.group(1))
    for l in err.splitlines():
        if "Assertion" in l or "xbt_assert" in l or "terminate" in l:
            return _slug(l)
    return "unknown"


def init_memory(prog):
    mem = {}
    for w, win in enumerate(prog["wins"]):
        for r in range(prog["np"]):
            for k in range(win["nelem"][r]):
                mem[(w, r, k)] = initval(win, r, k)
    return mem


def _unflushed_write(ops):
    """Does some exclusive section reach its MPI_Win_unlock with a Put (or the Put of a Compare_and_swap) not yet flushed?"""
    pend = set()
    for o in ops:
        k = o["o"]
        if k in ("PUT", "CAS"):
            pend.add((o["w"], o["t"]))
        elif k == "FLUSH":
            pend.discard((o["w"], o["t"]))
        elif k == "FLUSHALL":
            pend = {x for x in pend if x[0] != o["w"]}
        elif k == "UNLOCK":
            if (o["w"], o["t"]) in pend:
                return True
    return False


def _cas_then_access(prog, ops):
    """Is a Compare_and_swap followed, inside the same epoch and before any flush of that target, by another call addressing
    the same element?  (MPI orders the accumulate-family calls of one origin on one location.)"""
    pend = set()
    for o in ops:
        k = o["o"]
        if k == "FLUSH":
            pend = {l for l in pend if (l[0], l[1]) != (o["w"], o["t"])}
        elif k == "FLUSHALL":
            pend = {l for l in pend if l[0] != o["w"]}
        elif k in ("UNLOCK", "UNLOCKALL", "FENCE", "COMPLETE"):
            pend = set()
        elif k in RMA_OPS:
            if k in ("FOP", "CAS"):
                locs = [(o["w"], o["t"], o["idx"])]
            else:
                locs = [(o["w"], o["t"], o["idx"] + x)
                        for x in typemap(prog["types"], o["tt"], o["tc"], prog["wins"][o["w"]]["et"])]
            if any(l in pend for l in locs):
                return True
            if k == "CAS":
                pend.add(locs[0])
    return False


def _contig_vector_acc(prog):
    """Accumulate-family call whose target datatype is a vector with stride == blocklength (SMPI builds it as a bare
    contiguous Datatype)."""
    bad = {str(i) for i, t in enumerate(prog["types"]) if t["kind"] == "vector" and t["args"][1] == t["args"][2]}
    for ph in prog["phases"]:
        for ops in ph["ranks"].values():
            for o in ops:
                if o["o"] in ("ACC", "GACC") and o.get("op") != "NO_OP" and (o["tt"] in bad) and o["tc"] > 0:
                    return True
    return False


def judge(prog, res_out, res_err, rc, v=None):
    """Compare one execution with the model.  Returns a Verdict."""
    v = v or Verdict()
    obs = Obs(prog, res_out)
    np_ = prog["np"]
    kinds = "+".join(sorted({ph["kind"] for ph in prog["phases"]}))
    if obs.bad:
        raise BadProgram("harness rejected the script: %s" % obs.bad[0])
    ets = [w["et"] for w in prog["wins"]]

    def et_of(loc):
        return ets[loc[0]]

    # MPI error codes: every generated call is valid, so any error is a refusal to do what the statement describes
    if obs.errors:
        r, line, code, op = obs.errors[0]
        v.bad("C34:%s:mpi-error:rc=%d" % (_phase_of_line(prog, line), code),
              "rank %d: %s returned error %d (script line %d) in a valid program" % (r, op, code, line))
        return v
    mem = init_memory(prog)
    for pi, ph in enumerate(prog["phases"]):
        kind = ph["kind"]
        tag = "p%d" % pi
        complete = all((tag, w, r) in obs.dumps for w in range(len(prog["wins"])) for r in range(np_))
        if not complete:
            break
        final = {}
        for w, win in enumerate(prog["wins"]):
            for r in range(np_):
                d = obs.dumps[(tag, w, r)]
                if len(d) != win["nelem"][r]:
                    raise BadProgram("dump length")
                for k, x in enumerate(d):
                    final[(w, r, k)] = x
        problems = []
        try:
            pr = {int(r): [(o, prims(prog, int(r), o, obs, problems)) for o in ops if o["o"] in RMA_OPS]
                  for r, ops in ph["ranks"].items()}
        except MissingFetch as e:
            v.bad("C34:%s:fetched-buffer-not-reported" % kind, "phase %d: result buffer %r never shown" % (pi, e.args[0]))
            return v
        for rule, what in problems[:1]:
            v.bad("C34:%s:%s" % (kind, rule), "phase %d (%s): %s" % (pi, kind, what))
            return v
        touched = {l for ps in pr.values() for _, p in ps for l in p["locs"]}
        nops = sum(len(ps) for ps in pr.values())
        v.count("rma_calls", nops)
        for ps in pr.values():
            for _, p in ps:
                v.count("calls." + p["label"])
                if p["exp"] is not None:
                    v.count("fetched_values_checked", len(p["exp"]))
        v.count("phases." + kind)
        # locations nobody accessed keep their value
        for l in mem:
            if l not in touched and mem[l] != final[l]:
                v.bad("C34:%s:untouched-location-changed" % kind,
                      "phase %d (%s): window %d rank %d element %d was %r, is %r, although no call of the phase addresses it"
                      % (pi, kind, l[0], l[1], l[2], mem[l], final[l]))
                return v
        v.count("window_elements_compared", len(final))
        if kind in ("fence", "pscw"):
            model = dict(mem)
            if kind == "fence":
                nep = max([sum(1 for o in ops if o["o"] == "FENCE") for ops in ph["ranks"].values()] + [0])
                eps = []
                for e in range(nep + 1):
                    eps.append([])
                for r in sorted(ph["ranks"], key=int):
                    e = 0
                    pit = iter(pr[int(r)])
                    for o in ph["ranks"][r]:
                        if o["o"] == "FENCE":
                            e += 1
                        elif o["o"] in RMA_OPS:
                            eps[e].append(next(pit)[1])
                seq = [p for ep in eps for p in ep]
            else:
                seq = [p for r in sorted(pr) for _, p in pr[r]]
            for p in seq:
                if not run_prim(p, model, et_of):
                    want = [model[l] for l in p["locs"]]
                    v.bad("C34:%s:fetched-value" % kind,
                          "phase %d (%s): rank %d %s buffer %s fetched %r, the only defined result is %r (target rank %d, elements %r)"
                          % (pi, kind, p["rank"], p["kind"], p["id"], p["exp"][:6], want[:6], p["locs"][0][1],
                             [l[2] for l in p["locs"][:6]]))
                    return v
            badl = [l for l in sorted(touched) if model[l] != final[l]]
            if badl:
                l = badl[0]
                v.bad("C34:%s:window-content" % kind,
                      "phase %d (%s): window %d rank %d element %d holds %r after the closing synchronisation, the sequential model %r "
                      "(%d elements differ)" % (pi, kind, l[0], l[1], l[2], final[l], model[l], len(badl)))
                return v
        elif kind in ("excl", "mixed"):
            progs = {}
            for r, ops in ph["ranks"].items():
                r = int(r)
                units, cur, depth, shared = [], None, 0, False
                pit = iter(pr[r])
                for o in ops:
                    k = o["o"]
                    if k in ("LOCK", "LOCKALL"):
                        if depth == 0:
                            cur, shared = [], (k == "LOCKALL" or o["lt"] == "s")
                        depth += 1
                    elif k in ("UNLOCK", "UNLOCKALL"):
                        depth -= 1
                        if depth == 0:
                            if cur and not shared:
                                units.append(cur)
                            cur = None
                    elif k in RMA_OPS:
                        p = next(pit)[1]
                        if shared:
                            units.append([p])     # one atomic call = one unit
                        else:
                            cur.append(p)
                if units:
                    progs[r] = units
            m0 = {l: mem[l] for l in touched}
            ok, states, detail = search(progs, m0, final, et_of)
            v.count("serialisation_searches")
            v.count("search_states", states)
            v.count("atomic_units_ordered", sum(len(u) for u in progs.values()))
            if ok is None:
                v.inconclusive.append("search budget")
                return v
            if not ok:
                feat = ""
                if kind == "excl":
                    fs = []
                    if any(_cas_then_access(prog, ops) for ops in ph["ranks"].values()):
                        fs.append("cas-then-access-unflushed")
                    if any(_unflushed_write(ops) for ops in ph["ranks"].values()):
                        fs.append("unflushed-write-at-unlock")
                    feat = ":" + ("+".join(fs) or "all-flushed")
                v.bad("C34:%s:not-serialisable%s" % (kind, feat), "phase %d (%s): %s" % (pi, kind, detail))
                return v
        elif kind == "shared":
            byloc = {}
            for r, ps in pr.items():
                for _, p in ps:
                    for j, l in enumerate(p["locs"]):
                        q = dict(p)
                        q["locs"] = [l]
                        q["vals"] = [p["vals"][j]] if p["vals"] is not None else None
                        q["exp"] = [p["exp"][j]] if p["exp"] is not None else None
                        byloc.setdefault(l, {}).setdefault(r, []).append([q])
            for l in sorted(byloc):
                ok, states, detail = search(byloc[l], {l: mem[l]}, final, et_of)
                v.count("serialisation_searches")
                v.count("search_states", states)
                v.count("atomic_units_ordered", sum(len(u) for u in byloc[l].values()))
                if ok is None:
                    v.inconclusive.append("search budget")
                    return v
                if not ok:
                    labels = sorted({u[0]["label"] for us in byloc[l].values() for u in us})
                    if "cas" in labels:
                        labels = ["cas"]
                    elif "acc-replace" in labels and "gacc-replace" in labels:
                        labels = ["acc-replace", "gacc-replace"]
                    v.bad("C34:shared:element-not-serialisable:%s" % "+".join(labels),
                          "phase %d (shared): window %d rank %d element %d (was %r, is %r), %d origins: %s"
                          % (pi, l[0], l[1], l[2], mem[l], final[l], len(byloc[l]), detail))
                    return v
        else:
            raise BadProgram("phase kind " + kind)
        v.phases_ok += 1
        mem = final
    else:
        pi = len(prog["phases"])
    cur = prog["phases"][pi]["kind"] if pi < len(prog["phases"]) else "end"
    if "Failed to apply" in res_err and _contig_vector_acc(prog):
        v.bad("C34:accumulate:abort:operator-applied-to-contiguous-vector-type",
              "phase %d (%s): %s" % (pi, cur, next(l for l in res_err.splitlines() if "Failed to apply" in l)[-160:]))
        return v
    if "you're not the owner" in res_err:
        v.bad("C34:%s:abort:mutex-released-by-non-owner" % (cur if cur != "end" else kinds),
              "phase %d (%s): %s" % (pi, cur, next(l for l in res_err.splitlines() if "not the owner" in l)[-220:-120]))
        return v
    if cur == "end":
        cur = kinds + ":at-end"
    if obs.crash:
        # (the rank/op printed by the signal handler are those of the last loaded copy of the program: not used in the key)
        m = re.search(r"sig=(\d+)", obs.crash[0])
        slug = abort_slug(res_err)
        if slug == "unknown" and m:
            slug = "signal-" + m.group(1)
        v.bad("C34:%s:abort:%s" % (cur, slug),
              "%s | %s" % (obs.crash[0], res_err.strip().splitlines()[0][-200:] if res_err.strip() else ""))
        return v
    if len(obs.done) != np_ or rc != 0:
        v.bad("C34:%s:abort:%s" % (cur, abort_slug(res_err)),
              "smpirun rc=%s, %d/%d ranks finished, phase %d: %s" % (rc, len(obs.done), np_, pi, res_err.strip()[-300:]))
    return v


def _phase_of_line(prog, line):
    """Kind of the phase the script line belongs to."""
    n = len(prog["types"]) + len(prog["wins"])
    for ph in prog["phases"]:
        n += 1 + sum(len(ops) for ops in ph["ranks"].values()) + 2 + len(prog["wins"])
        if line <= n:
            return ph["kind"]
    return "end"
