"""Oracle self-test for C10: corrupt a healthy boundary log and make sure the checker fires with the expected rule.

Used by props/C10.py on the logs of the directed scenarios of every run (cheap), and runnable by hand:
    python3 -m verif.oracles.faults_selftest  <scenario+run text is taken from the directed 'probe' case>
"""
from verif.oracles import faults as oracle


def _judge(sc, run, text):
    keys = []
    trace = []
    n = oracle.check(sc, run, text, lambda k, w: keys.append(k), lambda *a, **k: None, trace)
    return n, keys, trace


def _shift(line, delta):
    t = line.split()
    t[1] = "%.17g" % (float(t[1]) + delta)
    return " ".join(t)


def corruptions(text, trace):
    """Yields (name, expected key prefix, corrupted text)."""
    lines = text.splitlines()
    exc = [i for w, i in trace if w == "exc_due"]
    kx = [i for w, i in trace if w == "kill_x"]
    ok = [i for w, i in trace if w == "plain_ok"]

    def mod(i, new):
        out = list(lines)
        if new is None:
            del out[i]
        elif isinstance(new, list):
            out[i:i + 1] = new
        else:
            out[i] = new
        return "\n".join(out)

    if exc:
        i = exc[0]
        t = lines[i].split()
        a = t[2]
        yield "exception reported 1e-6 later", "C10:late-report", mod(i, _shift(lines[i], 1e-6))
        fam = t[6]
        other = "HostFailure" if fam != "HostFailure" else "NetworkFailure"
        yield "wrong exception family", "C10:wrong-exception", mod(i, " ".join(t[:6] + [other]))
        okl = " ".join(t[:5] + ["ok"] + (["payload=null"] if t[4] in ("get",) else []))
        yield "failure reported as a success", "C10:success-on-failed-resource", mod(i, _shift(okl, 0.5))
        # the actor never returns: drop its return line and everything it does afterwards (only when it posts no comm later on,
        # otherwise the corrupted history is inconsistent for the other actors too)
        for i in exc:
            a = lines[i].split()[2]
            later = [l.split() for l in lines[i + 1:]]
            if any(len(t) > 4 and t[0] == "Q" and t[2] == a and t[4] in ("put", "get", "aput", "aget", "dput") for t in later):
                continue
            out = [l for j, l in enumerate(lines) if not (j >= i and len(l.split()) > 2 and l.split()[0] in "RQZXKWT" and l.split()[2] == a)]
            yield "failure never reported", "C10:never-reported", "\n".join(out)
            break
    if kx:
        i = kx[0]
        t = lines[i].split()
        yield "on_exit of a killed actor missing", "C10:on-exit-missing", mod(i, None)
        yield "on_exit of a killed actor sees failed=false", "C10:on-exit-flag", mod(i, " ".join(t[:3] + ["0"]))
        yield "on_exit of a killed actor runs twice", "C10:on-exit-twice", mod(i, [lines[i], lines[i]])
        yield "on_exit of a killed actor runs later", "C10:on-exit-late", mod(i, _shift(lines[i], 1e-6))
        yield "killed actor keeps going", "C10:dead-actor-progress", mod(i, [lines[i], "Q %s %s 0 sleep 1" % (t[1], t[2])])
    if ok:
        i = ok[-1]
        t = lines[i].split()
        yield "unaffected activity reported as failed", "C10:spurious-failure", mod(i, " ".join(t[:5] + ["exc", "NetworkFailure" if t[4] != "rexec" else "HostFailure"]))


def selftest(sc, run, text):
    """Returns (applied, detected, missed names). The log must be healthy (checked > 0, no violation)."""
    n, keys, trace = _judge(sc, run, text)
    if keys or not n:
        return 0, 0, []
    applied = detected = 0
    missed = []
    for name, prefix, bad in corruptions(text, trace):
        applied += 1
        _, k2, _ = _judge(sc, run, bad)
        if k2 and k2[0].startswith(prefix):
            detected += 1
        else:
            missed.append("%s (expected %s, got %r)" % (name, prefix, k2))
    return applied, detected, missed


if __name__ == "__main__":
    import sys
    from verif.gen import faults as gen
    from verif.props import C10
    name, sc, runs, fls = gen.DIRECTED[0]
    runs = [{"id": "x%d%s" % (i, p), "path": p, "faults": [{"kind": k, "idx": j, "t_off": 2.5, "t_on": -1.0}]}
            for i, (k, j) in enumerate([("H", 1), ("L", 0), ("H", 0)]) for p in "ATMP"]
    res = C10.run_batch("hooks", sc, runs, 600)
    got = C10.split_runs(res.out)
    tot = [0, 0]
    for r in runs:
        a, d, missed = selftest(sc, r, got[r["id"]][0])
        tot[0] += a
        tot[1] += d
        for m in missed:
            print("MISSED", r["id"], m)
    print("corruptions applied %d, detected %d" % tuple(tot))
    sys.exit(0 if tot[0] and tot[0] == tot[1] else 1)
