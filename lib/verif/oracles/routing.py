"""Independent reference for routing (C24/C25/C26). Nothing here looks at SimGrid's tables: the inputs are the declared
ground truth recorded by gen.routing.Plat (and, for cluster zones, the endpoints encoded in SimGrid's documented link
names) and the routes printed by the harness."""
import heapq
import math
import re

INF = float("inf")


# ---------------------------------------------------------------------------------------------------------------------
# C25: shortest chains of declared one-hop routes
# ---------------------------------------------------------------------------------------------------------------------
def declared_edges(plat, zone):
    """(a, b) -> resolved link list, from the declared one-hop routes of a routed zone (symmetric ones in both directions)."""
    edges = {}
    for r in plat.routes[zone]:
        edges[(r["src"], r["dst"])] = plat.forward(r["links"])
        if r["sym"] and r["src"] != r["dst"]:
            edges[(r["dst"], r["src"])] = plat.backward(r["links"])
    return edges


def shortest(nodes, edges):
    """All-pairs minimal link counts by Dijkstra from every node."""
    adj = {n: [] for n in nodes}
    for (a, b), l in edges.items():
        if a != b:
            adj[a].append((b, len(l)))
    dist = {}
    for s in nodes:
        d = {s: 0}
        pq = [(0, s)]
        while pq:
            c, u = heapq.heappop(pq)
            if c > d.get(u, INF):
                continue
            for v, w in adj[u]:
                if c + w < d.get(v, INF):
                    d[v] = c + w
                    heapq.heappush(pq, (c + w, v))
        for t, c in d.items():
            dist[(s, t)] = c
    return dist


def adjacency(edges):
    """node -> [(next node, link list)] for the declared one-hop routes (self routes left out)."""
    out = {}
    for (a, b), l in edges.items():
        if a != b:
            out.setdefault(a, []).append((b, l))
    return out


def chain_of(links, src, dst, edges, adj=None):
    """Decompose an observed link list into a chain of declared one-hop routes src -> ... -> dst.
    Returns the list of hops [(a,b),...] or None. adj = adjacency(edges) may be passed to avoid rebuilding it."""
    out = adjacency(edges) if adj is None else adj
    seen = set()

    def rec(node, pos):
        if pos == len(links):
            return [] if node == dst else None
        if (node, pos) in seen:
            return None
        seen.add((node, pos))
        for b, l in out.get(node, ()):
            if links[pos:pos + len(l)] == l:
                r = rec(b, pos + len(l))
                if r is not None:
                    return [(node, b)] + r
        return None

    return rec(src, 0)
