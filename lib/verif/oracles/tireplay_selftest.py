"""Oracle self-test for C37 (cd /verif/lib && python3 -m verif.oracles.tireplay_selftest).

Three directed programs are run online and replayed on the real tree: untampered they must be accepted. Then the
observation is corrupted the way a defective trace writer / replay tool would produce it and the oracle must reject it:
  * a date of the replay log shifted by 2e-9 s (just above precision/timing), by 1e-6, one final date only;
  * an action dropped from / duplicated in the replay log (sequence rule);
  * the TI trace files edited before the replay: a count changed by one element, a root changed, a tag changed, a sleep
    duration rounded as a 3-digit writer would, a line dropped, send turned into isend.
Exit status 1 when a corruption goes undetected (or an untampered run is rejected).
"""
import os
import re
import shutil
import sys
import tempfile

from verif.oracles import tireplay
from verif.props import C37

FAILED = []


def edit_trace(d, rank, pattern, repl, count=1):
    files = tireplay.trace_files(d)
    with open(files[rank]) as f:
        s = f.read()
    s2, n = re.subn(pattern, repl, s, count=count, flags=re.M)
    if n == 0:
        raise SystemExit("selftest: pattern %r not found in trace of rank %d:\n%s" % (pattern, rank, s))
    with open(files[rank], "w") as f:
        f.write(s2)


def main():
    base = tempfile.mkdtemp(prefix="verif-C37-selftest-")
    B = "* barrier"
    progs = {
        "p2p": C37.mk(3, [["0 isend 1 7 20000 0 0", "1 irecv 0 7 20000 0 0"], ["0 send 2 3 9000 0", "2 recv 0 3 9000 0"], "1 sleep 2500",
                          "0 wait 0", "1 wait 0", B, ["2 send 1 5 100 1", "1 recv 2 5 100 1"], B]),
        "coll": C37.mk(4, ["* bcast 5000 2 0", "* gather 700 1 0", "* reduce 3000 1 0", "* allgatherv 0 5 0 700 3000", "3 sleep 123456", B]),
    }

    def run(name, tamper=None):
        d = tempfile.mkdtemp(prefix="s-", dir=base)
        try:
            return tireplay.evaluate(d, progs[name], timeout=600, tamper=tamper)
        finally:
            shutil.rmtree(d, ignore_errors=True)

    for name in progs:
        st, info = run(name)
        print("%-62s -> %s" % ("untampered " + name, st))
        if st != "ok":
            FAILED.append("untampered " + name + ": " + str(info))

    def T(label, name, stage, fn, expect=None):
        def tamper(s, obj):
            if s == stage:
                fn(obj)
        st, info = run(name, tamper)
        ok = st not in ("ok", "watchdog", "online-fail") and (expect is None or st in expect)
        print("%-62s -> %s%s" % (label, st, "" if ok else "   NOT DETECTED"))
        if not ok:
            FAILED.append(label)

    def shift(rank, k, delta):
        def f(acts):
            a = acts[rank][k]
            acts[rank][k] = (a[0], a[1] + delta, a[2])
        return f

    def shift_from(rank, k, delta):
        def f(acts):
            for i in range(k, len(acts[rank])):
                a = acts[rank][i]
                acts[rank][i] = (a[0], a[1] + delta, a[2])
        return f
    T("replay date of one action +2e-9", "p2p", "replay", shift(1, 2, 2e-9), ("diverge",))
    T("replay date of one action -1e-6", "coll", "replay", shift(2, 1, -1e-6), ("diverge",))
    T("replay: a rank late by 5e-9 from its 3rd action on", "coll", "replay", shift_from(0, 2, 5e-9), ("diverge",))
    T("replay: completion date only (last action) +1e-8", "p2p", "replay", shift(2, -1, 1e-8), ("diverge", "final"))
    T("replay log: an action dropped", "p2p", "replay", lambda acts: acts[0].pop(1), ("seq",))
    T("replay log: an action duplicated", "coll", "replay", lambda acts: acts[3].insert(2, acts[3][2]), ("seq",))
    T("trace: isend count 20000 -> 20001", "p2p", "trace", lambda d: edit_trace(d, 0, r"isend 1 7 20000 ", "isend 1 7 20001 "))
    T("trace: recv count 9000 -> 8999 (receiver side only)", "p2p", "trace", lambda d: edit_trace(d, 2, r"recv 0 3 9000 ", "recv 0 3 8999 "))
    T("trace: sleep 0.0025 -> 0.003 (3-digit... 1-digit writer)", "p2p", "trace", lambda d: edit_trace(d, 1, r"sleep 0.0025", "sleep 0.003"))
    T("trace: sleep 0.123456 -> 0.123 (3-digit writer)", "coll", "trace", lambda d: edit_trace(d, 3, r"sleep 0.123456", "sleep 0.123"))
    T("trace: send turned into isend", "p2p", "trace", lambda d: edit_trace(d, 0, r"^0 send 2 3", "0 isend 2 3"))
    T("trace: barrier line dropped on one rank", "p2p", "trace", lambda d: edit_trace(d, 2, r"^2 barrier\n", ""))
    T("trace: bcast root 2 -> 1 on every rank", "coll", "trace", lambda d: [edit_trace(d, r, r"bcast 5000 2 ", "bcast 5000 1 ") for r in range(4)])
    T("trace: gather recv count 700 -> 70 at the root", "coll", "trace", lambda d: edit_trace(d, 1, r"gather 700 700 ", "gather 700 70 "))
    T("trace: bcast datatype double -> int on every rank", "coll", "trace", lambda d: [edit_trace(d, r, r"bcast 5000 2 0", "bcast 5000 2 1") for r in range(4)])
    # one more element (8 bytes) contributed by rank 3, consistently on every rank
    T("trace: allgatherv contribution of rank 3 3000 -> 3001", "coll", "trace",
      lambda d: [edit_trace(d, r, r"allgatherv (\d+) 5 0 700 3000 ", (lambda m, r=r: "allgatherv %s 5 0 700 3001 " % ("3001" if r == 3 else m.group(1)))) for r in range(4)])
    shutil.rmtree(base, ignore_errors=True)
    if FAILED:
        print("FAILED:", FAILED)
        return 1
    print("all corruptions detected")
    return 0


if __name__ == "__main__":
    sys.exit(main())
