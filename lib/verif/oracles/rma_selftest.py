"""Oracle self-test for C34 (cd /verif/lib && python3 -m verif.oracles.rma_selftest).

Real executions of small directed programs are recorded on the current tree; the unmodified outputs must be accepted, and
each output corrupted the way a defective SMPI would produce it (lost update, stale Get, duplicated ticket, wrong element,
clobbered result buffer, error code, missing rank) must be rejected with the expected rule."""
import re
import shutil
import sys
import tempfile

from verif import build
from verif.gen import mpi
from verif.oracles import rma as O
from verif.props import C34


def sub(pat, new, nth=0):
    def f(out):
        lines = out.splitlines()
        idx = [i for i, l in enumerate(lines) if re.match(pat, l)]
        assert idx, (pat, out)
        lines[idx[nth]] = new(lines[idx[nth]]) if callable(new) else new
        return "\n".join(lines) + "\n"
    return f


def field(k, fn):
    def g(line):
        f = line.split()
        f[k] = str(fn(int(f[k])))
        return " ".join(f)
    return g


def drop(pat):
    def f(out):
        lines = [l for l in out.splitlines() if not re.match(pat, l)]
        return "\n".join(lines) + "\n"
    return f


def add(line):
    return lambda out: line + "\n" + out


def main():
    exe = build.smpicc("mpi/rma.c", "hooks")
    tmp = tempfile.mkdtemp(prefix="verif-C34-selftest-")
    D = dict(C34.directed())
    # one more program: a Get into a result buffer larger than its type map (slots 1 and 2 must keep the sentinel)
    D["get-partial-buffer"] = {"np": 2, "types": [], "wins": C34._win(2), "phases": [{"kind": "fence", "w": 0, "ranks": {
        str(r): [{"o": "FENCE", "w": 0, "a": 0},
                 {"o": "GET", "id": 1, "w": 0, "t": 1 - r, "idx": 2, "tc": 1, "tt": "e", "oc": 1, "ot": "e", "rlen": 3},
                 {"o": "FENCE", "w": 0, "a": 0}, {"o": "SHOW", "id": 1}] for r in range(2)}}]}
    cases = [
        ("fence-ring", None, None),
        ("fence-ring", sub(r"W 1 p0 0 ", field(5, lambda x: x + 1)), "C34:fence:window-content"),            # put landed one off
        ("fence-ring", sub(r"G 2 2 ", field(3, lambda x: x - 1)), "C34:fence:fetched-value"),               # stale/wrong Get
        ("fence-ring", sub(r"W 0 p0 0 ", field(7, lambda x: x - 100)), "C34:fence:window-content"),          # one accumulate lost
        ("fence-ring", sub(r"W 3 p0 0 ", field(4, lambda x: x + 1)), "C34:fence:untouched-location-changed"),
        ("fence-ring", add("E 1 9 20 PUT"), "C34:fence:mpi-error:rc=20"),
        ("fence-ring", drop(r"DONE 2"), "C34:fence+:abort:unknown".replace("fence+", "fence:at-end")),
        ("pscw-star", None, None),
        ("pscw-star", sub(r"W 0 p0 0 ", field(6, lambda x: 5 + 2)), "C34:pscw:window-content"),             # put of rank 2 not delivered
        ("pscw-star", sub(r"G 0 3 ", field(3, lambda x: x + 1000)), "C34:pscw:fetched-value"),
        ("excl-rmw-flushed", None, None),
        # two sections fetched the same value (lost update) although the final content is right
        ("excl-rmw-flushed", sub(r"G 2 1 ", lambda l: "G 2 1 105"), "C34:excl:not-serialisable:all-flushed"),
        # fetched values form a chain but the memory misses the last increment
        ("excl-rmw-flushed", sub(r"W 0 p0 0 ", field(4, lambda x: x - 300)), "C34:excl:not-serialisable:all-flushed"),
        ("shared-fop-tickets", None, None),
        ("shared-fop-tickets", sub(r"G 3 2 ", lambda l: "G 3 2 6"), "C34:shared:element-not-serialisable:gacc-sum"),   # duplicated ticket
        ("shared-fop-tickets", sub(r"W 0 p0 0 ", field(5, lambda x: x - 1)), "C34:shared:element-not-serialisable:gacc-sum"),
        ("get-partial-buffer", None, None),
        ("get-partial-buffer", sub(r"G 1 1 ", lambda l: " ".join(l.split()[:4] + ["0", "-77"])), "C34:fence:result-buffer-outside-typemap"),
        ("mixed-exclusive-vs-shared", lambda o: o, "C34:mixed:not-serialisable"),    # real SMPI output of an open finding
    ]
    recorded = {}
    bad = 0
    try:
        for name, corrupt, want in cases:
            prog = D[name]
            if name not in recorded:
                recorded[name] = C34.execute(prog, exe, tmp, name)
            res = recorded[name]
            out = corrupt(res.out) if corrupt else res.out
            keys = [k for k, _ in O.judge(prog, out, res.err, res.rc).violations]
            ok = (keys == [want]) if want else (keys == [])
            if name == "mixed-exclusive-vs-shared" and keys == []:
                ok = True       # the finding has been fixed on this tree: nothing to reject
            print("%-4s %-28s want=%s got=%s" % ("ok" if ok else "FAIL", name, want, keys))
            bad += not ok
    finally:
        mpi.cleanup()
        shutil.rmtree(tmp, ignore_errors=True)
    print("rma oracle self-test: %s" % ("PASSED" if not bad else "%d FAILED" % bad))
    return 1 if bad else 0


if __name__ == "__main__":
    sys.exit(main())
