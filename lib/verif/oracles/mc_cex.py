"""Driver used by C41 and C14: runs harness/mc_vm_cex.cpp under simgrid-mc, natively (with legal scheduling
perturbations) and in model-check/replay mode, and parses everything that is printed about failures:

  * every reported counter-example of a simgrid-mc run: its kind (DEADLOCK / ASSERT / CRASH), the lines of the
    "Counter-example execution trace" (actor, transition type, fields), the `model-check/replay` path string and, for
    deadlocks, the application's own list of blocked actors (EngineImpl::display_all_actor_status);
  * the verdict of a native replay (deadlock / assertion / "could run further" / terminated) with the blocked actors and
    the fingerprint the VM prints;
  * the result line(s) of a plain native run.

Everything is watchdogged; a fired watchdog is reported as timed_out and is *inconclusive* for the callers.
(Private sibling of oracles/mc_driver.py, which is shared with C38/C40 and frozen.)"""
import os
import re

from verif import build, proc

_PATH_RE = re.compile(r"--cfg=model-check/replay:'([^']*)'")
_END_RE = re.compile(r"(DFS|BeFS|Parallel\w*|UDPOR) exploration ended\. (\d+) unique states visited; (\d+) explored traces")
_LINE_RE = re.compile(r"^\[[^\]]*\] \[(\w+)/(\w+)\] (.*)$")
_TRACE_RE = re.compile(r"^\s*Actor (\d+) in (?:simcall |.* ==> simcall: )(.*)$")
_STATUS_RE = re.compile(r"^\s*- pid (\d+) \(([^)]*)\) simcall (\w+)\((.*)\)\s*$")
_NSTATUS_RE = re.compile(r"^\s*- pid (\d+) \(([^)]*)\): waiting for (.*)$")
_CHUNK_RE = re.compile(r"\* Path chunk #(\d+) '(\d+)/(\d+)' Actor (\S+)\(pid:(\d+)\): (\w+)\((.*)\)")

# observer words printed by the application (SimcallObserver::to_string) for the transition types of the reference
OBSERVER_WORD = {
    "COMM_ASYNC_SEND": "CommAsyncSend", "COMM_ASYNC_RECV": "CommAsyncRecv", "COMM_WAIT": "CommWait",
    "ACTOR_JOIN": "ActorJoin", "ACTOR_CREATE": "ActorCreate", "ACTOR_EXIT": "ActorExit", "ACTOR_SLEEP": "ActorSleep",
    "RANDOM": "Random",
}


def _lib_busy(text):
    """libsimgrid.so is being relinked by a concurrent incremental build of the shared build tree (somebody committed to
    /repo while the check runs): the dynamic loader refuses the half-written file. Inconclusive, like a watchdog."""
    return bool(text) and ("error while loading shared libraries" in text or "file too short" in text
                           or "cannot open shared object file" in text)


def binaries(flavour="hooks"):
    return build.harness("mc_vm_cex.cpp", flavour=flavour, internal=True), build.simgrid_mc(flavour)


def parse_transition(text):
    """'MUTEX_WAIT(mutex: 1, owner: 2)' -> ('MUTEX_WAIT', {'mutex': 1, 'owner': 2}); fields are strings except the
    hexadecimal mutex id which is converted."""
    text = text.strip()
    m = re.match(r"^(\w+)\s*[\(\{](.*)[\)\}]?\s*$", text)
    if not m:
        return text, {}
    word, args = m.group(1), m.group(2).rstrip(")")
    f = {}
    if word == "WaitComm":
        mm = re.match(r"from (-?\d+) to (-?\d+), mbox=(\d+), (no timeout|timeout)", args)
        if mm:
            f = {"from": int(mm.group(1)), "to": int(mm.group(2)), "mbox": int(mm.group(3)), "timeout": mm.group(4)}
    elif word in ("iSend", "iRecv"):
        mm = re.match(r"mbox=(\d+)", args)
        if mm:
            f = {"mbox": int(mm.group(1))}
    elif word == "Random":
        mm = re.match(r"\[(-?\d+);(-?\d+)\] ~> (-?\d+)", args)
        if mm:
            f = {"min": int(mm.group(1)), "max": int(mm.group(2)), "value": int(mm.group(3))}
    elif word == "ActorJoin":
        mm = re.match(r"target (-?\d+), (no timeout|timeout)", args)
        if mm:
            f = {"target": int(mm.group(1)), "timeout": mm.group(2)}
    elif word == "ActorCreate":
        mm = re.match(r"child (-?\d+)", args)
        if mm:
            f = {"child": int(mm.group(1))}
    else:
        for kv in args.split(","):
            if ":" in kv:
                k, v = kv.split(":", 1)
                f[k.strip()] = v.strip()
        if "mutex" in f and word.startswith("MUTEX_"):
            try:
                f["mutex"] = int(f["mutex"], 16)
            except ValueError:
                pass
    return word, f


class Report:
    """One counter-example reported by simgrid-mc."""
    __slots__ = ("kind", "path", "trace", "blocked", "index")

    def __init__(self):
        self.kind = None       # DEADLOCK / ASSERT / CRASH
        self.path = None
        self.trace = []        # [(pid, type word, fields)]
        self.blocked = None    # {pid: (observer word, args text)} printed by the application (deadlocks), or None
        self.index = 0

    def as_dict(self):
        return {"kind": self.kind, "path": self.path, "trace": ["%d %s %s" % (p, w, f) for p, w, f in self.trace],
                "blocked": self.blocked}


class McResult:
    def __init__(self):
        self.rc = None
        self.timed_out = False
        self.reports = []
        self.records = []         # hook log of the application: (kind, trace, fingerprint) of every terminal state it saw
        self.states = None
        self.traces = None
        self.log = ""
        self.wall = 0.0
        self.aborted = None       # text of an xbt_assert / abort of the checker or of the application
        self.cmd = None

    def verdict(self):
        if self.timed_out:
            return "timeout"
        return {0: "ok", 1: "safety", 2: "deadlock", 3: "nondeterminism", 4: "crash", 6: "error"}.get(self.rc, "rc%s" % self.rc)


def mc_args(reduction="dpor", explorer="DFS", strategy="none", seed=0, max_errors=0, extra=()):
    a = ["--cfg=model-check/reduction:%s" % reduction]
    if explorer != "DFS":
        a.append("--cfg=model-check/exploration-algo:%s" % explorer)
    if strategy != "none":
        a += ["--cfg=model-check/strategy:%s" % strategy, "--cfg=model-check/rand-seed:%d" % seed]
    if max_errors:
        a.append("--cfg=model-check/max-errors:%d" % max_errors)
    return a + list(extra)


def parse_records(text):
    recs = []
    for line in text.splitlines():
        if not line.startswith("T "):
            continue
        head, _, fp = line.partition(" | ")
        t = head.split()
        if len(t) != 3:
            continue
        recs.append((t[1], "" if t[2] == "-" else t[2].rstrip(";"), fp.strip()))
    return recs


def parse_mc_log(text):
    """Reports in order. The application prints (category mc_global) the DEADLOCK banner and (ker_engine) the status of
    its actors; the checker prints the PROPERTY NOT VALID / CRASH banners (mc_explo), the textual trace and the path."""
    reports = []
    cur = None
    in_trace = False
    for raw in text.splitlines():
        m = _LINE_RE.match(raw)
        msg = m.group(3) if m else raw
        if "*** DEADLOCK DETECTED ***" in msg:
            cur = Report()
            cur.kind = "DEADLOCK"
            cur.blocked = {}
            in_trace = False
            continue
        if "*** PROPERTY NOT VALID ***" in msg:
            cur = Report()
            cur.kind = "ASSERT"
            in_trace = False
            continue
        if "** CRASH IN THE PROGRAM **" in msg:
            cur = Report()
            cur.kind = "CRASH"
            in_trace = False
            continue
        if "Counter-example execution trace:" in msg:
            if cur is None:               # a deadlock whose banner was not shown (application logs filtered out)
                cur = Report()
                cur.kind = "DEADLOCK"
            in_trace = True
            continue
        sm = _STATUS_RE.match(msg)
        if sm and cur is not None and cur.blocked is not None and not in_trace:
            cur.blocked[int(sm.group(1))] = (sm.group(3), sm.group(4))
            continue
        pm = _PATH_RE.search(msg)
        if pm:
            if cur is None:
                cur = Report()
                cur.kind = "?"
            cur.path = pm.group(1)
            cur.index = len(reports)
            reports.append(cur)
            cur = None
            in_trace = False
            continue
        if in_trace and cur is not None:
            tm = _TRACE_RE.match(msg)
            if tm:
                word, f = parse_transition(tm.group(2))
                cur.trace.append((int(tm.group(1)), word, f))
    return reports


APP_LOG = ["--log=root.thres:critical", "--log=mc_global.thres:info", "--log=ker_engine.thres:info", "--log=no_loc"]


def run_mc(vm, mc, spec_path, workdir, tag, reduction="dpor", explorer="DFS", strategy="none", seed=0, max_errors=0,
           timeout=120, extra=(), app_extra=()):
    """One exploration. Returns McResult."""
    fp = os.path.join(workdir, "fp-%s.log" % tag)
    if os.path.exists(fp):
        os.unlink(fp)
    cmd = [mc] + mc_args(reduction, explorer, strategy, seed, max_errors, extra) + \
          ["--log=xbt_cfg.thres:warning", "--log=no_loc", "--", vm, spec_path] + APP_LOG + list(app_extra)
    r = proc.run(cmd, timeout=timeout, env={"VERIF_MC_FP": fp}, merge_err=True)
    out = McResult()
    out.cmd = cmd
    out.rc, out.timed_out, out.wall = r.rc, r.timed_out or _lib_busy(r.out), r.wall
    out.log = r.out or ""
    if os.path.exists(fp):
        with open(fp, errors="replace") as f:
            out.records = parse_records(f.read())
        os.unlink(fp)
    out.reports = parse_mc_log(out.log)
    for line in out.log.splitlines():
        m = _END_RE.search(line)
        if m:
            out.states, out.traces = int(m.group(2)), int(m.group(3))
        if out.aborted is None and ("xbt_assert" in line or "Assertion" in line or "terminate called" in line
                                    or "Segmentation" in line or "Backtrace" in line or "xbt_die" in line
                                    or "AddressSanitizer" in line or "runtime error:" in line):
            out.aborted = line.strip()[:300]
    return out


def run_native(vm, spec_path, factory=None, nthreads=None, jitter=None, order=None, hosts=None, timeout=60, extra=()):
    """Plain simulation. Returns dict(rc, timed_out, final, deadlock, asserted, oops, blocked, out, err)."""
    cmd = [vm, spec_path, "--log=root.thres:critical", "--log=ker_engine.thres:info", "--log=no_loc"]
    if factory:
        cmd.append("--cfg=contexts/factory:%s" % factory)
    if nthreads:
        cmd.append("--cfg=contexts/nthreads:%d" % nthreads)
    cmd += list(extra)
    env = {}
    if jitter is not None:
        env["VERIF_VM_JITTER"] = str(jitter)
    if order is not None:
        env["VERIF_VM_ORDER"] = ",".join(map(str, order))
    if hosts:
        env["VERIF_VM_HOSTS"] = str(hosts)
    r = proc.run(cmd, timeout=timeout, env=env)
    res = {"rc": r.rc, "timed_out": r.timed_out or _lib_busy(r.err), "final": None, "deadlock": None, "asserted": None, "oops": 0,
           "blocked": {}, "out": r.out or "", "err": r.err or "", "cmd": cmd, "env": env, "n_final": 0, "n_deadlock": 0}
    for line in res["out"].splitlines():
        if line.startswith("FINAL "):
            res["final"] = line[6:].strip()
            res["n_final"] += 1
        elif line.startswith("DEADLOCK "):
            res["deadlock"] = line[9:].strip()
            res["n_deadlock"] += 1
        elif line.startswith("ASSERT "):
            res["asserted"] = line[7:].strip()
    for raw in res["err"].splitlines():
        if "Oops! Deadlock detected" in raw:
            res["oops"] += 1
        m = _LINE_RE.match(raw)
        msg = m.group(3) if m else raw
        sm = _STATUS_RE.match(msg)
        if sm:
            res["blocked"][int(sm.group(1))] = (sm.group(3), sm.group(4), sm.group(2))
            continue
        sm = _NSTATUS_RE.match(msg)
        if sm:      # "- pid 4 (a2@h2): waiting for a barrier acquisition activity 0xdeadbeef () in state WAITING"
            res["blocked"][int(sm.group(1))] = (sm.group(3).split(" activity")[0], "", sm.group(2))
    return res


def run_replay(vm, spec_path, path, timeout=60, extra=(), env=None):
    """Native replay of a checker path. Returns dict(rc, timed_out, kind, fingerprint, chunks, blocked, out)."""
    cmd = [vm, spec_path, "--cfg=model-check/replay:%s" % path, "--log=root.thres:info", "--log=no_loc",
           "--log=xbt_cfg.thres:warning"] + list(extra)
    r = proc.run(cmd, timeout=timeout, merge_err=True, env=env)
    res = {"rc": r.rc, "timed_out": r.timed_out or _lib_busy(r.out), "kind": None, "fingerprint": None, "out": r.out or "", "chunks": [],
           "blocked": {}, "cmd": cmd, "error": None, "sanitizer": proc.sanitizer_reports(r.out or "")}
    for raw in res["out"].splitlines():
        m = _LINE_RE.match(raw)
        line = m.group(3) if m else raw
        if "DEADLOCK detected" in line:
            res["kind"] = "DEADLOCK"
        elif "The application could run further" in line:
            res["kind"] = "RUNNING"
        elif "no actor remains to be executed" in line:
            res["kind"] = "END"
        elif "MC assertion failed" in line:
            res["kind"] = "ASSERT"
        elif raw.startswith("REPLAY "):
            res["fingerprint"] = raw[7:].strip()
        elif raw.startswith("ASSERT "):
            res["fingerprint"] = raw[7:].strip()
        elif res["error"] is None and ("is not enabled" in line or "Unexpected actor" in line or "is not visible" in line
                                       or "Could not parse" in line or "null observer" in line):
            res["error"] = line.strip()[:300]
        cm = _CHUNK_RE.search(line)
        if cm:
            res["chunks"].append((int(cm.group(2)), int(cm.group(3)), cm.group(6), cm.group(7)))
            continue
        sm = _STATUS_RE.match(line)
        if sm:
            res["blocked"][int(sm.group(1))] = (sm.group(3), sm.group(4))
    return res


def normalise_replay_output(text):
    """Replay output with the run-dependent parts removed (nothing should be left: used for the determinism check)."""
    out = []
    for line in text.splitlines():
        if "Process called exit when leaving" in line:
            continue
        out.append(re.sub(r"0x[0-9a-f]+", "0x?", line))
    return "\n".join(out)
