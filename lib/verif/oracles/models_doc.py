"""Reference for C20: a transcription of docs/source/Models.rst and of the defaults documented in
docs/source/Configuring_SimGrid.rst (sections "Choosing the Platform Models", "Configuring the Network Model",
"Manual calibration factors", "Simulating Cross-Traffic", "Configuring loopback link").

Nothing here is taken from the C++ code. Quotes of the documentation are given next to each rule.
"""

# "The default value of TCP Gamma is 4194304"
TCP_GAMMA_DEFAULT = 4194304.0
# "Several network models provide an implicit loopback link ... By default it has a 10GBps bandwidth and a null latency
#  ... conveniently modeled with a single FATPIPE link"
LOOPBACK_BW = 1e10
LOOPBACK_LAT = 0.0

# "SMPI default value: 65472:11.6436; 15424:3.48845; 9376:2.59299; 5776:2.18796; 3484:1.88101; 1426:1.61075; 732:1.9503;
#  257:1.95341;0:2.01467 (interval boundaries are sorted automatically)"
SMPI_LAT = "65472:11.6436;15424:3.48845;9376:2.59299;5776:2.18796;3484:1.88101;1426:1.61075;732:1.9503;257:1.95341;0:2.01467"
# "SMPI default value: 65472:0.940694;15424:0.697866;9376:0.58729;5776:1.08739;3484:0.77493;1426:0.608902;732:0.341987;257:0.338112;0:0.812084"
SMPI_BW = "65472:0.940694;15424:0.697866;9376:0.58729;5776:1.08739;3484:0.77493;1426:0.608902;732:0.341987;257:0.338112;0:0.812084"

MODEL_DEFAULTS = {
    # "the time to send a message is equal to latency + size/bandwidth" ; registered description: "No cross traffic, no TCP
    # gamma, no correction factors"
    "raw": {"lat_factor": "1.0", "bw_factor": "1.0", "gamma": 0.0, "crosstraffic": False},
    # "The CM02 model does not use any correction factor, so the latency-factor remains to 1"; "CM02 uses 1 -- no correction"
    "CM02": {"lat_factor": "1.0", "bw_factor": "1.0", "gamma": TCP_GAMMA_DEFAULT, "crosstraffic": True},
    # "latency-factor is 13.01, bandwidth-factor is 0.97"
    "LV08": {"lat_factor": "13.01", "bw_factor": "0.97", "gamma": TCP_GAMMA_DEFAULT, "crosstraffic": True},
    "SMPI": {"lat_factor": SMPI_LAT, "bw_factor": SMPI_BW, "gamma": TCP_GAMMA_DEFAULT, "crosstraffic": True},
}


def interval_semantics(repo):
    """Which end of an interval of an interval-based factor is closed, *as documented by the tree under test*: the sentence
    of docs/source/Configuring_SimGrid.rst (network/latency-factor) that explains the example ``0:1;1000:2;5000:3``.
      'on [0, 1000) the factor is 1. On [1000,5000), the factor is 2 while the factor is 3 for 5000 and beyond'  -> "lower"
      'on (0, 1000] the factor is 1. On (1000, 5000], ...'                                                         -> "upper"
    (with "upper", the sizes that are not larger than the first boundary get the default value of 1).
    Returns None when the sentence is not found (the caller must stop: the reference has to be re-read by a human)."""
    import os
    import re
    try:
        with open(os.path.join(repo, "docs", "source", "Configuring_SimGrid.rst"), encoding="utf-8") as f:
            text = " ".join(f.read().split())
    except OSError:
        return None
    m = re.search(r"``0:1;1000:2;5000:3``, it means that on ([\[(])0, ?1000([\])]) the factor is 1\. On ([\[(])1000, ?5000([\])])", text)
    if not m:
        return None
    if m.groups() == ("[", ")", "[", ")"):
        return "lower"
    if m.groups() == ("(", "]", "(", "]"):
        return "upper"
    return None


class Factor:
    """'It expects a set of factors separated by semicolons, each of the form boundary:factor. For example if your
    specification is 0:1;1000:2;5000:3, it means that on [0, 1000) the factor is 1. On [1000,5000), the factor is 2 while the
    factor is 3 for 5000 and beyond. If your first interval does [not] include size=0, then the default value of 1 is used
    before.'  A plain number is a constant factor.
    closed = "lower": intervals [b_i, b_i+1) (the text quoted above); "upper": (b_i, b_i+1] (see interval_semantics)."""

    def __init__(self, spec, closed="lower"):
        self.spec = spec
        self.closed = closed
        self.const = None
        self.table = []
        if ":" not in spec and ";" not in spec:
            self.const = float(spec)
        else:
            for tok in spec.split(";"):
                tok = tok.strip()
                if tok:
                    b, v = tok.split(":")
                    self.table.append((int(b), float(v)))
            self.table.sort()

    def _lookup(self, size, closed):
        if self.const is not None:
            return self.const
        val = 1.0
        for b, v in self.table:
            if (size >= b) if closed == "lower" else (size > b):
                val = v
        return val

    def __call__(self, size):
        return self._lookup(size, self.closed)

    def other_reading(self, size):
        """The reading of an interval table that the documentation does *not* give. Only used to classify a mismatch that
        happens exactly on a boundary (it never makes a case pass)."""
        return self._lookup(size, "upper" if self.closed == "lower" else "lower")

    def boundaries(self):
        return [b for b, _ in self.table]


def comm_caps(fwd, back, crosstraffic):
    """Bandwidth available to one flow alone, from the max-min description of Models.rst: each link is a capacity
    constraint; the flow consumes 1 on every link of its route and, with cross-traffic, 'an additional bandwidth
    consumption of 0.05' on every link of the reverse route ('The bandwidth share allocated to a data transfer from A to B
    is then the available bandwidth of link1 divided by 1.05 (i.e., the total consumption)').
    fwd/back: lists of (constraint id, bandwidth, policy) with policy 'S' (shared) or 'F' (fatpipe: 'Each comm can use the
    link fully, with no sharing (only a maximum)').  Split-duplex links contribute their UP or DOWN half as distinct ids.
    Returns the largest rate allowed by the link capacities."""
    use = {}
    for cid, bw, pol in fwd:
        u = use.setdefault(cid, [bw, pol, []])
        u[2].append(1.0)
    if crosstraffic:
        for cid, bw, pol in back:
            u = use.setdefault(cid, [bw, pol, []])
            u[2].append(0.05)
    cap = float("inf")
    for cid, (bw, pol, ws) in use.items():
        w = max(ws) if pol == "F" else sum(ws)
        cap = min(cap, bw / w)
    return cap


def comm_time(size, lat, cap, params):
    """Returns (list of acceptable durations, regime).
    'real_BW = min(physical_BW, TCP_GAMMA / (2 x latency))' ; 'If you want to disable this mechanism altogether ... set
    TCP-gamma to 0' ; 'If the link latency is 0 [...] the physical bandwidth is used' ;
    LV08: '0.01 * 13.01 + 800000 / ((0.97 * 1e6) / 1.05)' i.e. latency*latency_factor + size / (share * bandwidth_factor).
    'This multiplier is applied to the latency computed from the platform, that is the sum of all link physical latencies'.
    """
    lf = params["lf"](size)
    bf = params["bf"](size)
    gamma = params["gamma"]
    if size == 0:
        return [lat * lf], "latency-only"
    window = gamma / (2.0 * lat) if (gamma > 0 and lat > 0) else float("inf")
    if window >= cap:
        return [lat * lf + size / (cap * bf)], "bw-limited"
    # The window limits the flow. The documentation words the bandwidth factor both as a property of the link ("only 97% of
    # the nominal bandwidth are available") and as a property of the message ("In other words, the size of your message is
    # increased by a few percents, whichever this size"; "adjusts the effective bandwidth (i.e., the one perceived by the
    # application)"). Both readings coincide unless the TCP window is the limit and the factor is not 1; both are accepted.
    a = lat * lf + size / (bf * window)
    b = lat * lf + size / min(bf * cap, window)
    return ([a] if a == b else [a, b]), "gamma-limited"


def exec_time(flops, speed, bound):
    """'the model simply divides this amount by a CPU's FLOP rate' (Cas01: time=size/speed); set_bound: 'the maximal amount of
    flops per second that it may consume, regardless of what the host may deliver'."""
    rate = speed if bound <= 0 else min(speed, bound)
    return flops / rate


def io_time(size, read_bw, write_bw, kind):
    return size / (read_bw if kind == "R" else write_bw)


def ptask_time(parts):
    """parts: [(flops, speed)]. 'all parts progress exactly at the same pace' => the slowest part decides."""
    return max(f / s for f, s in parts if f > 0)
