"""Judges of the combined log written by harness/cm_chk.cpp (checker side) and harness/cm_app.cpp (application side).

parse(text) -> Log with
  .execs   every executed transition: Exec(pid, times, step, intent{op, pc, params}, view, result, c_fields, c_text, c_current,
                                          prev_c: the checker's decoding of the previous transition of the same actor on this path)
  .states  every actors' status: State(q: {aid: (enabled, maxc, [(fields, text, current)...])}, s: application fingerprint)
  .pairs   every pair test: Pair(a1,t1,a2,t2, state, b1: Branch, b2: Branch, deps{view: "dr"})
  .errors  E records,  .ended (Z seen)

C43 rules (judge_exec / judge_state): the transition the checker decoded must be the one the application encoded.
C39 rules (judge_pair): a pair declared independent by one of the dependency questions the explorers ask must commute.
"""
import re

ANY = ("TESTANY", "WAITANY")


class Exec:
    __slots__ = ("pid", "times", "step", "op", "pc", "params", "view", "result", "aid", "ctimes", "c_fields", "c_text",
                 "c_current", "prev_c", "line")


class State:
    __slots__ = ("q", "s", "line")


class Branch:
    def __init__(self):
        self.execs, self.states, self.disabled = [], [], None


class Pair:
    def __init__(self):
        self.b = {1: Branch(), 2: Branch()}
        self.deps = {}
        self.state = None


class Log:
    def __init__(self):
        self.execs, self.states, self.pairs, self.errors, self.ended, self.objects = [], [], [], [], False, {}
        self.walks = 0
        self.malformed = []


def _kv(tokens):
    d = {}
    for t in tokens:
        if "=" in t:
            k, v = t.split("=", 1)
            d[k] = v
    return d


def parse_q(body):
    """'<n> | aid en maxc [[ f ## t ## c ]] [[ ... ]] | ...' -> {aid: (enabled, maxc, [(fields, text, current)])}"""
    q = {}
    for part in body.split(" | ")[1:]:
        head, _, rest = part.partition(" [[ ")
        aid, en, maxc = head.split()[:3]
        trs = []
        if rest:
            for it in rest.split(" [[ "):
                it = it.rsplit(" ]]", 1)[0]
                f = it.split(" ## ")
                while len(f) < 3:
                    f.append("-")
                trs.append((f[0].strip(), f[1].strip(), f[2].strip()))
        q[int(aid)] = (int(en), int(maxc), trs)
    return q


def parse(text):
    log = Log()
    last_s = None
    pending_x = None
    cur_pair = None
    cur_branch = None
    last_c = {}            # aid -> last decoded transition of that actor on the current path
    saved_c = {}           # copy at the state where pair tests started
    state_before_pairs = None
    last_state = None
    for ln, line in enumerate(text.split("\n")):
        if not line:
            continue
        k, body = line[0], line[2:]
        try:
            if k == "O":
                log.objects = _kv(body.split())
            elif k == "W":
                log.walks += 1
                last_c, saved_c, cur_pair, cur_branch, state_before_pairs = {}, None, None, None, None
            elif k == "S":
                last_s = body
            elif k == "Q":
                st = State()
                st.q, st.s, st.line = parse_q(body), last_s, ln
                log.states.append(st)
                last_state = st
                if cur_branch is not None:
                    cur_branch.states.append(st)
            elif k == "X":
                f = body.split(" | ")
                e = Exec()
                e.line = ln
                hd = f[0].split()
                e.pid, e.times = int(hd[0]), int(hd[1])
                it = f[1].split()
                kv = _kv(it)
                e.step, e.pc, e.op = int(kv.get("step", -1)), int(kv.get("pc", -1)), kv.get("op", "?")
                e.params = {a: b for a, b in kv.items() if a not in ("step", "pc", "op")}
                e.view, e.result = f[2].strip(), f[3].strip()
                pending_x = e
            elif k == "C":
                f = body.split(" | ")
                hd = f[0].split()
                e = pending_x if pending_x is not None else Exec()
                if pending_x is None:
                    e.pid = e.times = e.step = e.pc = None
                    e.op, e.params, e.view, e.result, e.line = None, {}, None, None, ln
                pending_x = None
                e.aid, e.ctimes = int(hd[0]), int(hd[1])
                e.c_fields, e.c_text, e.c_current = f[1].strip(), f[2].strip(), (f[3].strip() if len(f) > 3 else "-")
                e.prev_c = last_c.get(e.aid)
                last_c[e.aid] = e
                log.execs.append(e)
                if cur_branch is not None:
                    cur_branch.execs.append(e)
            elif k == "P":
                a1, t1, a2, t2 = (int(x) for x in body.split())
                cur_pair = Pair()
                cur_pair.a1, cur_pair.t1, cur_pair.a2, cur_pair.t2 = a1, t1, a2, t2
                if saved_c is None:
                    saved_c = dict(last_c)
                    state_before_pairs = last_state
                cur_pair.state = state_before_pairs
                log.pairs.append(cur_pair)
            elif k == "B":
                cur_branch = cur_pair.b[int(body)]
                last_c = dict(saved_c)
            elif k == "N":
                cur_branch.disabled = tuple(int(x) for x in body.split())
            elif k == "D":
                cur_pair.deps = _kv(body.split())
                cur_branch = None
            elif k == "G":
                if saved_c is not None:
                    last_c = dict(saved_c)
                saved_c, cur_pair, cur_branch, state_before_pairs = None, None, None, None
            elif k == "E":
                log.errors.append(body)
            elif k == "Z":
                log.ended = True
            else:
                log.malformed.append(line[:200])
        except (ValueError, IndexError, KeyError, AttributeError) as ex:
            log.malformed.append("%s: %s" % (ex, line[:200]))
    return log


# ----------------------------------------------------------------------------------------------------------------------
# C43

def strip_value(view):
    """TESTANY/WAITANY observer views carry the sub-activity the application acts upon: (view without it, value)"""
    m = re.search(r" value=(-?\d+)", view)
    if not m:
        return view, None
    return view.replace(m.group(0), "", 1), int(m.group(1))


def sub_views(view):
    return [x.strip() for x in re.findall(r"\{ (.*?) \}", view)]


def ttype(fields):
    return fields.split(" ", 1)[0] if fields else "?"


# what each program-level call must look like to the checker: op -> sequence of (type, {field: param name or literal})
EXPANSION = {
    "L": [("MUTEX_ASYNC_LOCK", {"mutex": "mutex"}), ("MUTEX_WAIT", {"mutex": "mutex"})],
    "U": [("MUTEX_UNLOCK", {"mutex": "mutex"})],
    "T": [("MUTEX_TRYLOCK", {"mutex": "mutex"})],
    "P": [("SEM_ASYNC_LOCK", {"sem": "sem"}), ("SEM_WAIT", {"sem": "sem"})],
    "p": [("SEM_ASYNC_LOCK", {"sem": "sem"}), ("SEM_WAIT", {"sem": "sem"})],
    "V": [("SEM_UNLOCK", {"sem": "sem"})],
    "W": [("CONDVAR_ASYNC_LOCK", {"cond": "cond", "mutex": "mutex"}),
          ("CONDVAR_WAIT", {"cond": "cond", "mutex": "mutex", "timeout": "timeout"}), ("MUTEX_WAIT", {"mutex": "mutex"})],
    "N": [("CONDVAR_SIGNAL", {"cond": "cond"})],
    "A": [("CONDVAR_BROADCAST", {"cond": "cond"})],
    "R": [("BARRIER_ASYNC_LOCK", {"bar": "bar"}), ("BARRIER_WAIT", {"bar": "bar"})],
    "S": [("COMM_ASYNC_SEND", {"mbox": "mbox", "tag": "=0"}), ("COMM_WAIT", {"mbox": "mbox", "timeout": "=0"})],
    "G": [("COMM_ASYNC_RECV", {"mbox": "mbox", "tag": "=0"}), ("COMM_WAIT", {"mbox": "mbox", "timeout": "=0"})],
    "s": [("COMM_ASYNC_SEND", {"mbox": "mbox", "tag": "=0"})],
    "d": [("COMM_ASYNC_SEND", {"mbox": "mbox", "tag": "=0"})],
    "r": [("COMM_ASYNC_RECV", {"mbox": "mbox", "tag": "=0"})],
    "c": [("COMM_WAIT", {"comm": "comm", "mbox": "mbox", "timeout": "timeout"})],
    "t": [("COMM_TEST", {"comm": "comm", "mbox": "mbox"})],
    "a": [("WAITANY", {})],
    "y": [("TESTANY", {})],
    "b": [("COMM_IPROBE", {"mbox": "mbox", "sender": "sender", "tag": "tag"})],
    "J": [("ACTOR_JOIN", {"target": "target", "timeout": "timeout"})],
    "K": [("ACTOR_CREATE", {})],
    "Q": [("RANDOM", {"min": "min", "max": "max"})],
    "Y": [("ACTOR_SLEEP", {})],
    "X": [("ACTOR_EXIT", {})],
}
EXPANSION["w"] = EXPANSION["W"]
EXPANSION["C"] = EXPANSION["c"]
EXPANSION["j"] = EXPANSION["J"]


def judge_exec(e):
    """-> list of (rule, detail) disagreements between the application and the checker about one executed transition"""
    bad = []
    ty = ttype(e.c_fields)
    if e.view is None:
        return [("no-app-record", "the checker executed a transition the application hook did not see")]
    if e.pid != e.aid:
        bad.append(("actor", "application executed actor %s, checker decoded actor %s" % (e.pid, e.aid)))
    if e.times != e.ctimes:
        bad.append(("times", "application was asked times_considered=%s, checker recorded %s" % (e.times, e.ctimes)))
    view, value = strip_value(e.view)
    vty = ttype(view)
    if vty in ("MESS_PUT", "MESS_GET"):
        bad.append(("type", "the application issued %s, the checker decoded %s" % (view, e.c_fields)))
        return bad
    if vty != ty:
        bad.append(("type", "application encoded %s, checker decoded %s" % (vty, ty)))
    elif view != e.c_fields:
        bad.append(("fields", "application encoded [%s], checker decoded [%s]" % (view, e.c_fields)))
    # the sub-activity acted upon (times_considered selects it)
    if ty in ANY and vty == ty and value is not None:
        subs = sub_views(view)
        if value >= 0:
            if value >= len(subs):
                bad.append(("current", "application acts on sub-activity %d of %d" % (value, len(subs))))
            elif e.c_current != subs[value]:
                bad.append(("current", "times_considered=%d: the application acts on sub-activity #%d [%s], the checker "
                            "takes [%s] as the current one" % (e.times, value, subs[value], e.c_current)))
        elif e.c_current.startswith("EXCEPTION"):
            bad.append(("current", "times_considered=%d means 'no activity' for the application; get_current_transition() "
                        "throws on the checker side: %s" % (e.times, e.c_current)))
        elif e.c_current not in ("NONE", "-"):
            bad.append(("current", "times_considered=%d means 'no activity' for the application, the checker takes [%s] as "
                        "the current sub-transition" % (e.times, e.c_current)))
    # what the program asked for
    exp = EXPANSION.get(e.op)
    if e.op in ("M", "m"):
        pass
    elif exp is None:
        if e.op not in ("end",):
            bad.append(("intent", "transition %s executed while the program's last call was %s" % (ty, e.op)))
    else:
        if e.step is None or e.step < 0 or e.step >= len(exp):
            bad.append(("intent", "call %s produced more transitions than expected (#%s: %s)" % (e.op, e.step, ty)))
        else:
            ety, req = exp[e.step]
            cf = _kv(e.c_fields.split(" {", 1)[0].split())
            if ety != ty:
                bad.append(("intent", "step %d of call %s must be %s, checker decoded %s" % (e.step, e.op, ety, ty)))
            else:
                for field, src in req.items():
                    want = src[1:] if src.startswith("=") else e.params.get(src)
                    if want is None:
                        continue
                    if cf.get(field) != want:
                        bad.append(("intent", "call %s %s: checker decoded %s=%s, the program used %s=%s"
                                    % (e.op, e.params, field, cf.get(field), field, want)))
            if e.op in ("a", "y") and ety == ty:
                want = [c for c in e.params.get("comms", "").split(",") if c]
                got = [_kv(s.split()).get("comm") for s in sub_views(e.c_fields)]
                if want != got:
                    bad.append(("intent", "call %s over comms %s: checker decoded the list %s" % (e.op, want, got)))
    # the result of the previous call of this actor (comm created by put_async/get_async, child of a create)
    if e.result and e.result != "-" and e.prev_c is not None and e.step == 0:
        k, v = e.result.split("=", 1)
        pf = _kv(e.prev_c.c_fields.split())
        if k in pf and pf[k] != v and ttype(e.prev_c.c_fields) in ("COMM_ASYNC_SEND", "COMM_ASYNC_RECV", "ACTOR_CREATE"):
            bad.append(("result", "the previous call returned %s to the program, the checker had decoded %s=%s"
                        % (e.result, k, pf[k])))
    return bad


def app_pending(s):
    """application fingerprint -> {pid: (enabled, view)}"""
    out = {}
    for m in re.finditer(r"p(\d+):(en|dis):(.*?) ; ", s or ""):
        out[int(m.group(1))] = (1 if m.group(2) == "en" else 0, m.group(3).strip())
    return out


def judge_state(st):
    """pending transitions: what the checker decoded vs. the pending simcall observers of the application"""
    bad = []
    ap = app_pending(st.s)
    if st.s is None:
        return bad
    if set(ap) != set(st.q):
        bad.append(("pending-actors", "application has actors %s, checker sees %s" % (sorted(ap), sorted(st.q))))
    for aid, (en, maxc, trs) in st.q.items():
        if aid not in ap:
            continue
        aen, view = ap[aid]
        if aen != en:
            bad.append(("pending-enabled", "actor %d: application says enabled=%d, checker %d" % (aid, aen, en)))
        view, _ = strip_value(view)
        for tc, (f, _t, _c) in enumerate(trs):
            if ttype(view) in ("MESS_PUT", "MESS_GET") or f != view:
                bad.append(("pending-" + ("type" if ttype(f) != ttype(view) else "fields"),
                            "actor %d times_considered=%d: application's pending simcall is [%s], checker decoded [%s]"
                            % (aid, tc, view, f)))
                break
    return bad


# ----------------------------------------------------------------------------------------------------------------------
# C39

def components(st):
    """State as seen from both sides: ordered list of (name, text), comm ids renamed in order of first appearance.
    a<i> = VM actor (position, observations, pending comm slots), M/E/V/R/B<i> = kernel mutex / semaphore / condvar / barrier /
    mailbox, q<aid> = what the checker knows of the actor (enabled, max_considered, pending transitions), p<pid> = the pending
    simcall as the application describes it."""
    if st is None:
        return None
    comps = []
    s = re.sub(r" value=-?\d+", "", st.s or "")   # leftover of the last prepare(): not part of the state
    m = re.search(r"(^| )(?=p\d+:(?:en|dis):)", s)
    objs, pend = (s[:m.start()], s[m.end():]) if m else (s, "")
    for tok in objs.split():
        comps.append((tok.split(":", 1)[0], tok))
    for aid in sorted(st.q):
        en, maxc, trs = st.q[aid]
        comps.append(("q%d" % aid, "%d:%d:" % (en, maxc) + ";".join("%s~%s" % (f, t) for f, t, _c in trs)))
    for ent in pend.split(" ; "):
        ent = ent.strip()
        if ent:
            comps.append((ent.split(":", 1)[0], ent))
    ren = {}

    def sub(mm):
        v = mm.group(1)
        if v == "0":
            return "comm=0"
        if v not in ren:
            ren[v] = "c%d" % len(ren)
        return "comm=" + ren[v]
    return [(n, re.sub(r"comm=(\d+)", sub, t)) for n, t in comps]


def canon_state(st):
    c = components(st)
    return None if c is None else " ".join(t for _n, t in c)


def diff_class(st1, st2):
    """Names the first difference between two states, program-visible parts first."""
    c1, c2 = components(st1), components(st2)
    d1, d2 = dict(c1), dict(c2)
    names = [n for n, _ in c1] + [n for n, _ in c2 if n not in d1]
    order = {"a": 0, "M": 1, "E": 1, "V": 1, "R": 1, "B": 1, "q": 2, "p": 3}
    names.sort(key=lambda n: order.get(n[0], 4))
    for n in names:
        x, y = d1.get(n), d2.get(n)
        if x == y:
            continue
        if x is None or y is None:
            return "actors"
        if n[0] == "a":
            fx, fy = x.split(":"), y.split(":")
            if fx[2] != fy[2]:
                return "observations"
            if fx[1] != fy[1]:
                return "position"
            return "comm-slots"
        if n[0] in "MEVRB":
            return {"M": "mutex", "E": "semaphore", "V": "condvar", "R": "barrier", "B": "mailbox"}[n[0]]
        if n[0] == "q":
            hx, hy = x.split(":", 2), y.split(":", 2)
            ty = ttype(hx[2].split("~")[0]) if hx[2] else "?"
            if hx[0] != hy[0]:
                return "enabled(%s)" % ty
            if hx[1] != hy[1]:
                return "alternatives(%s)" % ty
            return "pending(%s)" % ty
        return "app-pending"
    return "none"


VIEWS = ("sleep", "o12", "o21")


def judge_pair(p):
    """-> (info dict, list of (rule, kinds, detail))"""
    bad = []
    b1, b2 = p.b[1], p.b[2]
    k1 = ttype(b1.execs[0].c_fields) if b1.execs else "?"
    k2 = ttype(b2.execs[0].c_fields) if b2.execs else "?"
    kinds = "+".join(sorted([k1, k2]))
    info = {"k1": k1, "k2": k2, "kinds": kinds, "indep_views": [], "complete": False, "commutes": None}
    for v in ("pend",) + VIEWS:
        d = p.deps.get(v, "-")
        if d == "-" or len(d) != 2:
            continue
        if "x" in d:
            bad.append(("depends-throws", kinds, "dispatch_depends threw an exception (view %s: %s)" % (v, d)))
            continue
        if d[0] != d[1]:
            bad.append(("asymmetric", kinds, "view %s: a.depends(b)=%s but b.depends(a)=%s" % (v, d[0], d[1])))
        if v in VIEWS and "0" in d:
            info["indep_views"].append(v)
    info["pend"] = p.deps.get("pend", "-")
    if len(b1.execs) < 1 or len(b2.execs) < 1:
        return info, bad
    indep = bool(info["indep_views"])
    dis1, dis2 = b1.disabled is not None, b2.disabled is not None
    info["disables"] = dis1 or dis2
    if dis1 or dis2:
        info["commutes"] = False
        if indep:
            if dis1:
                bad.append(("disables", "%s>%s" % (k1, k2), "executing (%d,%d) %s disables (%d,%d), although declared independent (%s)"
                            % (p.a1, p.t1, b1.execs[0].c_fields, p.a2, p.t2, ",".join(info["indep_views"]))))
            if dis2:
                bad.append(("disables", "%s>%s" % (k2, k1), "executing (%d,%d) %s disables (%d,%d), although declared independent (%s)"
                            % (p.a2, p.t2, b2.execs[0].c_fields, p.a1, p.t1, ",".join(info["indep_views"]))))
        return info, bad
    if len(b1.execs) < 2 or len(b2.execs) < 2 or not b1.states or not b2.states:
        return info, bad
    info["complete"] = True
    c1, c2 = canon_state(b1.states[-1]), canon_state(b2.states[-1])
    info["commutes"] = c1 == c2
    if indep and c1 != c2:
        bad.append(("noncommute:" + diff_class(b1.states[-1], b2.states[-1]), kinds, "declared independent (%s) but the two orders lead to different states:\n after %s ; %s:\n   %s\n after %s ; %s:\n   %s"
                    % (",".join(info["indep_views"]), b1.execs[0].c_fields, b1.execs[1].c_fields, c1,
                       b2.execs[0].c_fields, b2.execs[1].c_fields, c2)))
    return info, bad
