"""Offline checker of the boundary log of harness/lifecycle.cpp for C11 (actor lifecycle).

The kernel is sequential, so the order of the log lines is the order in which things happened; every line carries the
simulated clock.  The checker looks at every event and demands only what the statement of C11 says (plus the documented
meaning of the `failed` flag of on_exit and of set_auto_restart):

 JOIN      join(t) returns at min(termination date of the target, call date + t); at once when the target is already
           dead (exact dates unless the joiner itself was suspended meanwhile, then: not earlier).
 ON_EXIT   the callbacks registered for an actor run exactly once, at its termination date, before its termination is
           signalled, last registered first; failed == (the body did not return normally).
 DAEMON    no daemon survives an advance of the clock (or the end of the simulation) when no regular actor is alive; a
           daemon dies for no other reason than the ones below.
 KILLTIME  an actor with one kill time K is not alive after K; if it dies before, something else killed it.
 CAUSE     an actor whose body did not return dies only at the date of: a kill / kill_all / host-off request that reaches
           it, its kill time, its own exit(), the daemon rule, a deadlock report.
 ZOMBIE    (kernel monitor of the harness) no actor is left marked to die without being scheduled again: such an actor
           never ends, so none of the clauses above can hold for it.
 KILL      the victims of a kill / kill_all / host-off request that returned to its issuer terminate at that date and run
           nothing after the request returned.
 SUSPEND   between the return of suspend(P) and the next resume(P) request P runs nothing (no call, no return); an exec of
           P lasts at least flops/speed + the time P was suspended; its remaining work is the same at both ends.
 RESTART   (observed and counted only: the statement has no clause about auto-restart) turning on a host that was off
           re-creates the actors that asked for auto-restart there; deviations go to the `anomaly.restart.*` counters.
           What the statement says about the restarted incarnations (on_exit, kill time, daemon flag) is judged as for
           every other actor.
"""
import math

TOL = 1e-9
SPEED = 1e9
INF = float("inf")


class Ev(object):
    __slots__ = ("i", "kind", "clk", "f")

    def __init__(self, i, kind, clk, f):
        self.i, self.kind, self.clk, self.f = i, kind, clk, f


def parse(out):
    evs = []
    for l in out.splitlines():
        t = l.split()
        if not t or t[0] not in ("C", "T", "B", "Q", "R", "M", "X", "g", "G", "E", "Z", "DL", "END", "ZB", "r"):
            continue
        try:
            clk = float(t[1])
        except (IndexError, ValueError):
            continue
        evs.append(Ev(len(evs), t[0], clk, t[2:]))
    return evs


def same(a, b):
    return abs(a - b) <= TOL * max(1.0, abs(a), abs(b))


def zombies_of(evs):
    """ZB lines of actors that are never terminated afterwards"""
    term = {int(e.f[0]) for e in evs if e.kind == "T"}
    return [e for e in evs if e.kind == "ZB" and int(e.f[0]) not in term]


def zombie_class(evs, z):
    """'victim-created-in-the-same-round': the actor was created at the date of the kill and never returned from any call
    (it was killed before it was first scheduled); 'victim-running' otherwise."""
    v = int(z.f[0])
    c = [e for e in evs if e.kind == "C" and int(e.f[0]) == v]
    ran = any(e.kind == "R" and e.f[1] != "-1" and int(e.f[0]) == v for e in evs)
    return "victim-created-in-the-same-round" if c and same(c[-1].clk, z.clk) and not ran else "victim-running"


def check(out, report, count):
    """report(key, what) is called for every violation; count(name, n=1) for observations. Returns a dict of features."""
    evs = parse(out)
    feats = {"join": 0, "onexit": 0, "kill": 0, "suspend": 0, "daemon": 0, "killtime": 0, "restart": 0}
    ended = any(e.kind == "END" for e in evs)
    if not ended:
        return None
    # ---------------------------------------------------------------- pass 1: births, deaths, ops
    born, term, bodyline, zline = {}, {}, {}, {}
    ops = {}                  # (pid, opidx, nth) not needed: we pair Q with the next R of the same pid/opidx
    pendq = {}                # pid -> Q event waiting for its R
    pairs = []                # (Q, R or None)
    void = set()
    restart_born = set()
    hoston_open = {}          # issuer pid -> (Q ev)
    host_of = {}
    creq = {}                 # pid -> log line of the request (create / hoston) that created it
    for e in evs:
        k, f = e.kind, e.f
        if k == "C":
            pid, ppid, sk, h = int(f[0]), int(f[1]), int(f[2]), int(f[3])
            born[pid] = e
            host_of[pid] = h
            if ppid == 0 and any(int(q.f[3]) == h for q in hoston_open.values()):
                restart_born.add(pid)
                creq[pid] = min(q.i for q in hoston_open.values() if int(q.f[3]) == h)
            elif ppid in pendq and pendq[ppid].f[2] == "create":
                creq[pid] = pendq[ppid].i
        elif k == "T":
            term[int(f[0])] = e
        elif k == "B":
            bodyline[int(f[0])] = e
        elif k == "Z":
            zline[int(f[0])] = e
        elif k == "Q":
            pid = int(f[0])
            pendq[pid] = e
            pairs.append([e, None])
            if f[2] == "hoston" and f[4] == "0":
                hoston_open[pid] = e
        elif k == "R":
            pid = int(f[0])
            if f[1] == "-1":
                continue          # configuration done by main() before the run
            q = pendq.pop(pid, None)
            if q is not None:
                for p in reversed(pairs):
                    if p[0] is q:
                        p[1] = e
                        break
                if q.f[2] == "create" and f[3] == "-1":
                    # the creation failed (host off): the on_creation signal seen for it is void
                    cands = [c for c in born.values() if int(c.f[1]) == pid and c.i > q.i and c.i < e.i]
                    if cands:
                        void.add(int(max(cands, key=lambda c: c.i).f[0]))
                if q.f[2] == "hoston":
                    hoston_open.pop(pid, None)
    for pid in void:
        born.pop(pid, None)
    actors = sorted(born)
    count("actors", len(actors))

    def alive_at(pid, i):
        return pid in born and born[pid].i < i and (pid not in term or term[pid].i > i)

    # ---------------------------------------------------------------- actors marked to die that the kernel will never schedule again
    for z in zombies_of(evs):
        v = int(z.f[0])
        if v not in born:
            continue
        sources = sorted({"%s by actor %s" % (q.f[2], q.f[0]) for q, r in pairs
                          if q.f[2] in ("kill", "killall", "hostoff") and same(q.clk, z.clk) and q.i < z.i})
        report("C11:kill:never-terminated:%s" % zombie_class(evs, z),
               "actor %d (created at %g) was killed at %g (%s) and is left marked to die without ever being scheduled again: it never runs its on_exit "
               "callbacks (%d registered), its termination is never signalled%s%s"
               % (v, born[v].clk, z.clk, ", ".join(sources) or "daemon rule / kill time / deadlock",
                  len([e for e in evs if e.kind == "g" and int(e.f[0]) == v]) + len([e for e in evs if e.kind == "E" and int(e.f[0]) == v]),
                  "" if v in bodyline and bodyline[v].i < z.i and bodyline[v].clk < z.clk else ", its body started after the kill and its first simcall was dropped",
                  ", deadlock reported at the end of the run" if any(e.kind == "DL" for e in evs) else ""))
        return feats
    # ---------------------------------------------------------------- actors that never terminate although a kill reached them
    for q, r in pairs:
        n = q.f[2]
        if n not in ("kill", "killall", "hostoff") or r is None or (n == "hostoff" and q.f[4] != "1"):
            continue
        for v in actors:
            if v in term or v == int(q.f[0]) or not alive_at(v, r.i):
                continue
            # Requests issued in one scheduling round are served in the order in which they were logged: an actor whose creation
            # was requested before the kill_all exists when the kill_all is served. A creation on a host that is already off fails,
            # so whoever was created on the host before the host-off request returned was created before it was served.
            if (n == "kill" and int(q.f[3]) == v and born[v].i < q.i) or (n == "killall" and creq.get(v, born[v].i) < q.i) or \
               (n == "hostoff" and host_of.get(v) == int(q.f[3]) and born[v].i < r.i):
                started = v in bodyline and bodyline[v].i < q.i
                report("C11:kill:never-terminated:%s" % ("victim-running" if started else "victim-created-in-the-same-round"),
                       "%s issued by actor %s at %g returned, but victim %d (created at %g%s) never terminates: no on_exit callback, no termination signal%s"
                       % (n, q.f[0], q.clk, v, born[v].clk, "" if started else ", its body had not started yet",
                          ", deadlock reported at the end of the run" if any(e.kind == "DL" for e in evs) else ""))
                return feats
    # ---------------------------------------------------------------- nothing runs after its termination signal
    for e in evs:
        if e.kind in ("Q", "R", "M", "X", "B", "Z", "E") and e.f:
            pid = int(e.f[0])
            if e.kind == "R" and e.f[1] == "-1":
                continue
            if pid in term and e.i > term[pid].i:
                report("C11:ran-after-termination:%s" % e.kind, "actor %d logs %s %r after its termination was signalled at %g" % (pid, e.kind, e.f, term[pid].clk))
                return feats
    # ---------------------------------------------------------------- suspension intervals (log order and clocks)
    susp_flag = {}            # pid -> start event while suspended
    intervals = {}            # pid -> list of [start ev, end ev or None]: the actor is certainly suspended
    maybe = {}                # pid -> list of [start line, end line or None]: the actor may be suspended (superset)
    resume_inflight = {}      # target pid -> {issuer pid: log line}: resume requests logged but not yet returned
    for e in evs:
        if e.kind == "R" and e.f[1] != "-1":
            # Only *returns* of API calls count as progress: an actor suspended (or killed) before its body ever ran still
            # executes its code up to its first simcall when it is first scheduled, which the statement does not exclude.
            p = int(e.f[0])
            if p in susp_flag:
                s = susp_flag[p]
                report("C11:suspended:ran:%s" % e.f[2],
                       "actor %d was suspended at %g (log line %d) and not resumed, yet it logs %s %r at %g" % (p, s.clk, s.i, e.kind, e.f, e.clk))
                return feats
        if e.kind == "Q" and e.f[2] == "suspend":
            maybe.setdefault(int(e.f[3]), []).append([e.i, None])
        elif e.kind == "R" and len(e.f) > 2 and e.f[2] == "suspend":
            p = int(e.f[3])
            # A resume(p) whose request is still in flight may have been served after this suspend (requests of one
            # scheduling round overlap in the log): p may be running again, nothing is demanded of it.
            qs = max([q.i for q, r in pairs if r is e] or [e.i])
            overlap = any(q.f[2] == "resume" and int(q.f[3]) == p and q.i < e.i and (r is None or r.i > qs) for q, r in pairs)
            if p not in susp_flag and alive_at(p, e.i):
                if resume_inflight.get(p) or overlap:
                    count("suspend.ambiguous_resume_in_flight")
                else:
                    susp_flag[p] = e
                    intervals.setdefault(p, []).append([e, None])
        elif e.kind == "Q" and e.f[2] == "suspendself":
            p = int(e.f[0])
            maybe.setdefault(p, []).append([e.i, None])
            if p not in susp_flag:
                susp_flag[p] = e
                intervals.setdefault(p, []).append([e, None])
        elif e.kind == "Q" and e.f[2] == "resume":
            p = int(e.f[3])
            resume_inflight.setdefault(p, {})[int(e.f[0])] = e.i
            if p in susp_flag:
                intervals[p][-1][1] = e
                del susp_flag[p]
        elif e.kind == "R" and len(e.f) > 2 and e.f[2] == "resume":
            for p, who in resume_inflight.items():
                qi = who.pop(int(e.f[0]), None)
                if qi is not None:
                    # served: every suspension requested before this resume was requested is over
                    for m in maybe.get(p, []):
                        if m[1] is None and m[0] < qi:
                            m[1] = e.i
        elif e.kind == "T":
            p = int(e.f[0])
            for who in resume_inflight.values():
                who.pop(p, None)
            for m in maybe.get(p, []):
                if m[1] is None:
                    m[1] = e.i
            if p in susp_flag:
                intervals[p][-1][1] = e
                del susp_flag[p]

    def suspended_time(pid, a, b):
        tot = 0.0
        for s, t in intervals.get(pid, []):
            lo = max(a, s.clk)
            hi = min(b, t.clk if t is not None else INF)
            if hi > lo:
                tot += hi - lo
        return tot

    def suspended_between(pid, i0, i1):
        """may actor pid have been suspended at some point between log lines i0 and i1?"""
        for a, b in maybe.get(pid, []):
            if a < i1 and (b is None or b > i0):
                return True
        return False

    for p, lst in intervals.items():
        for s, t in lst:
            if t is not None and t.kind == "Q":
                feats["suspend"] += 1
                count("suspend.intervals_resumed")
                # remaining work read by the suspender right after its suspend() returned, while the target was still suspended
                rs = [e for e in evs if e.kind == "r" and s.kind == "R" and e.f[0] == s.f[0] and e.f[1] == s.f[1] and s.i < e.i < t.i]
                if rs and float(rs[0].f[4]) >= 0 and float(t.f[4]) >= 0:
                    count("suspend.exec_remaining_compared")
                    x, y = float(rs[0].f[4]), float(t.f[4])
                    if abs(x - y) > 1e-6 * max(1.0, x):
                        report("C11:suspended:remaining-changed", "exec of actor %d had %r flops left when it was suspended at %g and %r when resumed at %g" % (p, x, s.clk, y, t.clk))
                        return feats
    # ---------------------------------------------------------------- exec duration vs suspended time
    for q, r in pairs:
        if q.f[2] in ("exec", "execd") and r is not None:
            pid = int(q.f[0])
            ms = [x for x in evs if x.kind == "M" and int(x.f[0]) == pid and q.i < x.i < r.i]
            if not ms:
                continue
            m = ms[0]
            need = float(q.f[3]) / SPEED + suspended_time(pid, m.clk, r.clk)
            count("exec.durations_checked")
            if r.clk - m.clk < need - TOL * max(1.0, r.clk):
                report("C11:suspended:exec-progress", "exec of %s flops by actor %d started at %g and returned at %g although the actor was suspended for %g s meanwhile"
                       % (q.f[3], pid, m.clk, r.clk, suspended_time(pid, m.clk, r.clk)))
                return feats
    # ---------------------------------------------------------------- JOIN
    for q, r in pairs:
        if q.f[2] != "join":
            continue
        j, p, t = int(q.f[0]), int(q.f[3]), float(q.f[4])
        if p not in born:
            continue        # target whose creation failed: never generated, be safe
        dead_before = p in term and term[p].i < q.i
        tp = term[p].clk if p in term else INF
        exp = min(max(tp, q.clk), q.clk + t if t >= 0 else INF)
        if dead_before:
            exp = q.clk
        cls = "%s:%s" % ("timeout" if t >= 0 else "notimeout", "target-dead" if dead_before else "target-alive")
        if r is not None:
            susp = suspended_between(j, q.i, r.i)
            if susp:
                count("join.returned_while_suspended")
                if r.clk < exp - TOL * max(1.0, exp):
                    report("C11:join:early:%s" % cls, "join(%g) on actor %d called at %g returned at %g, expected not before %g" % (t, p, q.clk, r.clk, exp))
                    return feats
            else:
                count("join.returns_checked")
                count("join." + cls)
                feats["join"] += 1
                if not same(r.clk, exp):
                    report("C11:join:%s:%s" % ("early" if r.clk < exp else "late", cls),
                           "join(%g) on actor %d (terminated at %r) called by actor %d at %g returned at %g, expected %g" % (t, p, tp, j, q.clk, r.clk, exp))
                    return feats
        else:
            # never returned: the joiner must have died no later than the expected return
            if j in term and exp < INF and term[j].clk > exp + TOL * max(1.0, exp) and not suspended_between(j, q.i, term[j].i):
                report("C11:join:never-returned:%s" % cls, "join(%g) on actor %d called by actor %d at %g never returned although it was due at %g and the joiner lived until %g"
                       % (t, p, j, q.clk, exp, term[j].clk))
                return feats
    # ---------------------------------------------------------------- kill-type requests and armed kill times
    kills = []                # (Q, R, kind, victims at Q)
    for q, r in pairs:
        n = q.f[2]
        if n == "kill":
            kills.append((q, r, n, [int(q.f[3])] if alive_at(int(q.f[3]), q.i) else []))
        elif n == "killall":
            kills.append((q, r, n, [p for p in actors if p != int(q.f[0]) and alive_at(p, q.i)]))
        elif n == "hostoff" and q.f[4] == "1":
            kills.append((q, r, n, [p for p in actors if host_of.get(p) == int(q.f[3]) and alive_at(p, q.i)]))
    armed = {}
    for e in evs:
        if e.kind == "R" and len(e.f) > 3 and e.f[2] == "killtime":
            pid = int(e.f[0])
            if e.f[1] == "-1":
                k = float(e.f[3])
                if k > e.clk:
                    armed.setdefault(pid, set()).add(k)
            else:
                q = [p[0] for p in pairs if p[1] is e]
                if q and float(q[0].f[3]) > q[0].clk:
                    armed.setdefault(pid, set()).add(float(q[0].f[3]))
        elif e.kind == "B" and float(e.f[3]) > e.clk:
            armed.setdefault(int(e.f[0]), set()).add(float(e.f[3]))
    # requests that never returned to their issuer (suspended or killed in the round of the request) may have been served
    maybe_armed = {}
    for q, r in pairs:
        if q.f[2] == "killtime" and r is None and float(q.f[3]) > q.clk:
            maybe_armed.setdefault(int(q.f[0]), set()).add(float(q.f[3]))
            count("killtime.request_without_return")
    deadlocks = [e for e in evs if e.kind == "DL"]

    def kill_requests(pid, before_i, clk):
        """kill-type requests that reach actor pid at date clk and were logged before line before_i"""
        why = []
        for q, r, n, victims in kills:
            if same(q.clk, clk) and q.i < before_i and int(q.f[0]) != pid:
                if n == "kill" and int(q.f[3]) == pid:
                    why.append(n)
                elif n == "killall":
                    why.append(n)
                elif n == "hostoff" and host_of.get(pid) == int(q.f[3]):
                    why.append(n)
        if any(same(k, clk) for k in armed.get(pid, ())) or any(same(k, clk) for k in maybe_armed.get(pid, ())):
            why.append("killtime")
        if any(same(d.clk, clk) and d.i < before_i for d in deadlocks):
            why.append("deadlock")
        return why

    # ---------------------------------------------------------------- ON_EXIT
    reg, conf = {}, set()
    for e in evs:
        if e.kind == "g":
            reg.setdefault(int(e.f[0]), []).append(int(e.f[1]))
        elif e.kind == "G":
            conf.add(int(e.f[1]))
    ran = {}
    for e in evs:
        if e.kind == "E":
            ran.setdefault(int(e.f[0]), []).append(e)
    for pid in actors:
        es = ran.get(pid, [])
        own = reg.get(pid, [])
        if pid not in term:
            if es:
                report("C11:on_exit:when", "on_exit callbacks of actor %d ran but its termination was never signalled" % pid)
                return feats
            continue
        T = term[pid]
        graceful = pid in zline
        own_ran = [int(e.f[1]) for e in es if int(e.f[3]) == pid]
        inh_ran = [int(e.f[1]) for e in es if int(e.f[3]) != pid]
        if len(set(own_ran)) != len(own_ran) or len(set(inh_ran)) != len(inh_ran):
            report("C11:on_exit:twice", "actor %d: callbacks ran %r (own) %r (inherited): one of them ran twice" % (pid, own_ran, inh_ran))
            return feats
        missing = [c for c in own if c in conf and c not in own_ran]
        if missing:
            report("C11:on_exit:missing:%s" % ("graceful" if graceful else "killed"), "actor %d terminated at %g but its registered callbacks %r never ran (ran: %r)" % (pid, T.clk, missing, own_ran))
            return feats
        expect = [c for c in reversed(own) if c in own_ran]
        if own_ran != expect:
            report("C11:on_exit:order", "actor %d: callbacks registered in the order %r ran in the order %r, expected %r" % (pid, own, own_ran, expect))
            return feats
        if inh_ran:
            if pid not in restart_born:
                report("C11:on_exit:foreign", "actor %d ran callbacks %r registered for other actors although it is not a restarted incarnation" % (pid, inh_ran))
                return feats
            seq = [int(e.f[3]) == pid for e in es]
            if seq != sorted(seq, reverse=True) or inh_ran != sorted(inh_ran, reverse=True):
                report("C11:on_exit:order:inherited", "restarted actor %d ran its callbacks in the order %r (own ones first, last registered first expected)"
                       % (pid, [(int(e.f[1]), int(e.f[3])) for e in es]))
                return feats
            count("on_exit.inherited_callbacks_run", len(inh_ran))
        for e in es:
            if not same(e.clk, T.clk) or e.i > T.i:
                report("C11:on_exit:when", "actor %d: callback %s ran at %g (line %d), termination signalled at %g (line %d)" % (pid, e.f[1], e.clk, e.i, T.clk, T.i))
                return feats
            if graceful and e.f[2] == "1" and kill_requests(pid, T.i, T.clk):
                count("on_exit.killed_at_the_date_its_body_returned")
                continue        # killed (before it ever ran, or in the round of its last call) yet its body ran to the end: both flags comply
            if int(e.f[2]) != (0 if graceful else 1):
                report("C11:on_exit:failed-flag:%s" % ("graceful" if graceful else "killed"),
                       "actor %d %s but its on_exit callback %s got failed=%s" % (pid, "returned from its body" if graceful else "was killed", e.f[1], e.f[2]))
                return feats
        if es:
            count("on_exit.actors_with_callbacks")
            count("on_exit.callbacks_run", len(es))
            count("on_exit.failed_true" if not graceful else "on_exit.failed_false", len(es))
            if len(es) >= 2:
                feats["onexit"] += 1
    # ---------------------------------------------------------------- kill times (checks)
    end_clk = [e for e in evs if e.kind == "END"][0].clk
    for pid, ks in armed.items():
        if pid not in born:
            continue
        limit = max(ks)
        tclk = term[pid].clk if pid in term else INF
        if tclk > limit + TOL * max(1.0, limit) and (pid in term or end_clk > limit + TOL):
            report("C11:killtime:survived", "actor %d has kill time(s) %r but %s" % (pid, sorted(ks), "terminated at %g" % tclk if pid in term else "was never terminated (simulation ended at %g)" % end_clk))
            return feats
        if len(ks) == 1 and pid in term and same(tclk, limit) and pid not in zline:
            count("killtime.deaths_at_kill_time")
            feats["killtime"] += 1
    # ---------------------------------------------------------------- daemons: walk the log, one clock value after the other
    daemon = set()
    unknown_flag = False
    for pid in restart_born:
        if pid in born and pid not in bodyline:
            unknown_flag = True      # killed before its body started: we never learnt whether it was re-created as a daemon
    flag_at_birth = {pid: (bodyline[pid].f[2] == "1") for pid in restart_born if pid in bodyline}
    alive = set()
    zero_regular = []         # (clk, i) positions where the number of alive regular actors is 0 while a daemon is alive
    def regulars():
        return [p for p in alive if p not in daemon]

    prev_clk = None
    for e in evs:
        if prev_clk is not None and e.clk > prev_clk + TOL and not unknown_flag:
            if alive and not regulars():
                report("C11:daemon:survives-last-regular", "daemons %r are still alive when the clock advances from %g to %g although no regular actor is alive" % (sorted(alive), prev_clk, e.clk))
                return feats
        prev_clk = e.clk
        if e.kind == "C":
            pid = int(e.f[0])
            if pid in born:
                alive.add(pid)
                if flag_at_birth.get(pid):
                    daemon.add(pid)
        elif e.kind == "T":
            alive.discard(int(e.f[0]))
        elif e.kind in ("Q", "R") and len(e.f) > 2 and e.f[2] == "daemonize":
            daemon.add(int(e.f[0]))
        elif e.kind == "B" and e.f[2] == "1":
            daemon.add(int(e.f[0]))
        elif e.kind == "END":
            if alive and not regulars() and not unknown_flag:
                report("C11:daemon:survives-last-regular", "daemons %r are still alive when Engine::run() returns at %g" % (sorted(alive), e.clk))
                return feats
            if alive:
                count("anomaly.regular_actor_alive_when_run_returns")
        if alive and not regulars():
            zero_regular.append(e)
    # ---------------------------------------------------------------- CAUSE / KILL
    for q, r, n, victims in kills:
        if r is None:
            continue           # the issuer died before (or because of) its own request: it may not have been served
        for v in victims:
            if v == int(q.f[0]):
                continue
            count("kill.victims_%s" % n)
            feats["kill"] += 1
            if v not in term or not same(term[v].clk, q.clk):
                report("C11:kill:survived:%s" % n, "%s issued by actor %s at %g returned, but victim %d %s" % (n, q.f[0], q.clk, v, "terminated at %g" % term[v].clk if v in term else "never terminated"))
                return feats
            for e in evs[r.i + 1:]:
                if e.kind == "R" and e.f[1] != "-1" and int(e.f[0]) == v:
                    report("C11:kill:victim-ran-after:%s" % n, "victim %d of the %s that returned to actor %s at %g (line %d) still logs %s %r" % (v, n, q.f[0], r.clk, r.i, e.kind, e.f))
                    return feats
    if not unknown_flag:
        for pid in actors:
            if pid not in term or pid in zline:
                continue
            T = term[pid]
            why = [w for w in kill_requests(pid, T.i, T.clk) if w in ("kill", "killall", "hostoff")]
            for q, r in pairs:
                if int(q.f[0]) == pid and q.f[2] == "exit" and same(q.clk, T.clk):
                    why.append("exit")
                if int(q.f[0]) == pid and q.f[2] == "hostoff" and host_of.get(pid) == int(q.f[3]) and same(q.clk, T.clk):
                    why.append("own-hostoff")
                if int(q.f[0]) == pid and q.f[2] == "daemonize" and same(q.clk, T.clk):
                    why.append("became-daemon")        # the last regular actor turned itself into a daemon: statement silent
            why += [w for w in kill_requests(pid, T.i, T.clk) if w in ("killtime", "deadlock")]
            if pid in daemon and any(same(z.clk, T.clk) and z.i < T.i for z in zero_regular):
                why.append("daemon")
                if why == ["daemon"]:
                    count("daemon.killed_with_last_regular")
                    feats["daemon"] += 1
            if not why:
                report("C11:spurious-death:%s" % ("daemon" if pid in daemon else "regular"),
                       "actor %d%s terminated at %g without having returned from its body, and nothing in the history kills it at that date"
                       % (pid, " (daemon)" if pid in daemon else "", T.clk))
                return feats
            count("deaths." + why[0])
    count("deaths.graceful", len([p for p in actors if p in zline]))
    # ---------------------------------------------------------------- RESTART (counted, not judged: the statement is silent)
    definite, possible = {}, {}          # host -> {pid: (line, script)}
    for q, r in pairs:
        if q.f[2] == "autorestart":
            pid = int(q.f[0])
            if pid in born and pid not in restart_born:
                # no return logged = the actor was killed in the round of its request, which may or may not have been served
                (definite if r is not None else possible).setdefault(host_of[pid], {}).setdefault(pid, (q.i, int(born[pid].f[2])))
    for e in evs:
        if e.kind == "R" and e.f[1] == "-1" and e.f[2] == "autorestart":
            pid = int(e.f[0])
            definite.setdefault(host_of[pid], {})[pid] = (e.i, int(born[pid].f[2]))     # asking twice is a no-op
    groups = []                          # requests to turn on one host whose [request, return] windows overlap
    for q, r in pairs:
        if q.f[2] == "hoston" and q.f[4] == "0":
            h = int(q.f[3])
            if groups and groups[-1][0] == h and groups[-1][2] is not None and q.i < groups[-1][2]:
                groups[-1][1].append((q, r))
                groups[-1][2] = None if r is None else max(groups[-1][2], r.i)
            else:
                groups.append([h, [(q, r)], None if r is None else r.i])
    for h, reqs, last in groups:
        if last is None:
            continue                     # an issuer died in the round of its request: unknown whether it was served
        first = reqs[0][0]
        must = sorted(k for (i, k) in definite.get(h, {}).values() if i < first.i)
        may = sorted(k for pid, (i, k) in possible.get(h, {}).items() if i < first.i and pid not in definite.get(h, {}))
        got = sorted(int(c.f[2]) for p, c in born.items() if p in restart_born and first.i < c.i < last and host_of[p] == h)
        if must or got:
            count("restart.reboots_with_auto_restart")
            count("restart.actors_restarted", len(got))
        rest = list(got)
        missing = []
        for k in must:
            if k in rest:
                rest.remove(k)
            else:
                missing.append(k)
        for k in may:
            if k in rest:
                rest.remove(k)
        if missing:
            count("anomaly.restart.missing")
        if rest:
            count("anomaly.restart.extra%s" % (":concurrent-turn_on" if len(reqs) > 1 else ""))
        if got:
            feats["restart"] += 1
    return feats
