"""Independent reference for C26 (structured topologies), written from docs/source/Platform_examples.rst (torus, fat-tree,
dragonfly), the fat-tree paper's PGFT labelling that the documentation points to, and the cluster description in
include/simgrid/kernel/routing/ClusterZone.hpp / XML_reference.rst (loopback, limiter).

Each class rebuilds the *physical* topology from the shape parameters alone, decodes the generated link names (which spell
the endpoints of every cable) into cables of that topology, and then judges a route as a walk:
  * it must be a connected walk from the source node to the destination node over existing cables,
  * of the documented form (torus: one dimension after the other, shorter way round; fat-tree: strictly up to a nearest
    common ancestor level, then strictly down; dragonfly: local, [green, black, blue], green, black, local with no extra hop),
  * loopback: source==destination with a configured loopback gives exactly that link,
  * limiters: the limiter of every traversed element that has one appears exactly once,
  * the two halves of a split-duplex cable are used consistently (one half per direction).
check() returns None or (rule, detail).
"""
import re


class Bad(Exception):
    def __init__(self, rule, detail):
        Exception.__init__(self, rule + ": " + detail)
        self.rule = rule
        self.detail = detail


def strip_half(name):
    if name.endswith("_UP"):
        return name[:-3], "UP"
    if name.endswith("_DOWN"):
        return name[:-5], "DOWN"
    return name, None


class Shape:
    """Common part: host naming, loopback/limiter naming (API callbacks of harness/route_dump2.cpp, or XML <cluster>)."""

    def __init__(self, zone, via, loopback, limiter, split):
        self.zone = zone
        self.via = via            # "api" | "xml"
        self.loopback = loopback
        self.limiter = limiter
        self.split = split        # SPLITDUPLEX cables
        self.halves = {}          # (cable, forward?) -> half seen   (consistency of split-duplex halves over the whole shape)
        self._cc = {}
        self._sc = {}

    def cable_c(self, name):
        r = self._cc.get(name)
        if r is None:
            r = self._cc[name] = self.cable(name)
        return r

    def host_rank(self, name):
        if self.via == "api":
            m = re.match(re.escape(self.zone) + r"_n(\d+)$", name)
        else:
            m = re.match(r"n(\d+)$", name)
        return int(m.group(1)) if m else None

    def special(self, name):
        """('loop', rank) | ('lim', id, coords|None) | None for names created by the loopback/limiter callbacks."""
        if self.via == "api":
            m = re.match(re.escape(self.zone) + r"_loopback_(\d+)$", name)
            if m:
                return ("loop", int(m.group(1)))
            m = re.match(re.escape(self.zone) + r"_limiter_(-?\d+)_c((?:_(?:\d+|R))*)$", name)
            if m:
                coords = tuple(None if c == "R" else int(c) for c in m.group(2).split("_")[1:])
                return ("lim", int(m.group(1)), coords)
        else:
            m = re.match(re.escape(self.zone) + r"_link_(-?\d+)_loopback$", name)
            if m:
                return ("loop", int(m.group(1)))
            m = re.match(re.escape(self.zone) + r"_link_(-?\d+)_limiter$", name)
            if m:
                return ("lim", int(m.group(1)), None)
        return None

    def half_ok(self, cable, forward, half):
        """Split-duplex: every traversal of a cable in one direction uses the same half, the other direction the other half."""
        if not self.split:
            if half is not None:
                raise Bad("half-on-shared-cable", "%s used with half %s although the cluster is not SPLITDUPLEX" % (cable, half))
            return
        if half is None:
            raise Bad("no-half-on-splitduplex-cable", "cable %r of a SPLITDUPLEX cluster used without _UP/_DOWN" % (cable,))
        prev = self.halves.setdefault((cable, forward), half)
        if prev != half:
            raise Bad("splitduplex-half-inconsistent", "cable %r traversed in the same direction with halves %s and %s" % (cable, prev, half))
        other = self.halves.get((cable, not forward))
        if other is not None and other == half:
            raise Bad("splitduplex-half-shared-by-both-directions", "cable %r uses half %s in both directions" % (cable, half))

    def check(self, src, dst, links):
        try:
            self.judge(src, dst, links)
        except Bad as b:
            return b.rule, b.detail
        return None

    def split_specials(self, links):
        """Separate the network cables from loopback/limiter links. Returns (net [(name)], loops [rank], lims [decoded])."""
        net, loops, lims = [], [], []
        for l in links:
            if l not in self._sc:
                self._sc[l] = self.special(l)
            s = self._sc[l]
            if s is None:
                net.append(l)
            elif s[0] == "loop":
                loops.append(s[1])
            else:
                lims.append(s)
        return net, loops, lims

    def judge_loopback(self, src, dst, links, loops):
        """Common loopback rule. Returns True when the route is the loopback answer (nothing else to judge)."""
        if src == dst and self.loopback:
            if len(links) != 1 or loops != [src]:
                raise Bad("loopback-not-used", "source==destination with a configured loopback must give exactly that link, got %r" % (links,))
            return True
        if loops:
            raise Bad("loopback-misused", "loopback link(s) of %r in a route from %d to %d" % (loops, src, dst))
        return False

    def judge_limiters(self, lims, expected_elems):
        """expected_elems: list of element keys (one per traversed element that has a limiter)."""
        if not self.limiter:
            if lims:
                raise Bad("limiter-without-configuration", "limiter links %r although no limiter was configured" % (lims,))
            return
        got = sorted(self.limiter_elem(l) for l in lims)
        want = sorted(expected_elems)
        if got != want:
            raise Bad("limiters-differ", "limiter links of elements %r, traversed elements with a limiter %r" % (got, want))


# ---------------------------------------------------------------------------------------------------------------------
class Torus(Shape):
    def __init__(self, zone, dims, via="api", loopback=False, limiter=False, split=False):
        Shape.__init__(self, zone, via, loopback, limiter, split)
        self.dims = list(dims)
        self.n = 1
        for d in dims:
            self.n *= d

    def coords(self, rank):
        out = []
        for d in self.dims:
            out.append(rank % d)
            rank //= d
        return out

    def rank(self, coords):
        r, p = 0, 1
        for c, d in zip(coords, self.dims):
            r += c * p
            p *= d
        return r

    def plus_neighbour(self, rank, j):
        c = self.coords(rank)
        c[j] = (c[j] + 1) % self.dims[j]
        return self.rank(c)

    def limiter_elem(self, lim):
        return ("n", lim[1])

    def cable(self, name):
        base, half = strip_half(name)
        m = re.match(re.escape(self.zone) + r"_link_from_(\d+)_to_(\d+)$", base)
        if not m:
            raise Bad("unknown-link", "%r is not a cable, loopback or limiter of this torus" % name)
        a, b = int(m.group(1)), int(m.group(2))
        if a >= self.n or b >= self.n:
            raise Bad("cable-out-of-shape", "%r names nodes outside 0..%d" % (name, self.n - 1))
        js = [j for j in range(len(self.dims)) if self.plus_neighbour(a, j) == b and self.dims[j] > 1]
        if not js:
            raise Bad("cable-not-in-torus", "%r: %d is not the +1 neighbour of %d in any dimension of %r" % (name, b, a, self.dims))
        return a, b, js, half

    def judge(self, src, dst, links):
        net, loops, lims = self.split_specials(links)
        if self.judge_loopback(src, dst, links, loops):
            return
        cur = src
        walk = [src]
        hops = []             # (dimension, sign)
        pending = []          # split-duplex halves, judged once the walk itself is known to be right
        for name in net:
            a, b, js, half = self.cable_c(name)
            if cur == a and (cur != b):
                nxt, fwd = b, True
            elif cur == b:
                nxt, fwd = a, False
            else:
                raise Bad("not-a-connected-walk", "at node %d the route takes %r (joining %d and %d); walk so far %r" % (cur, name, a, b, walk))
            pending.append(((a, b), fwd, half))
            hops.append((js[0], +1 if fwd else -1))
            cur = nxt
            walk.append(cur)
        if cur != dst:
            raise Bad("walk-ends-elsewhere", "route from %d ends at node %d instead of %d (walk %r)" % (src, cur, dst, walk))
        # dimension after dimension
        seen = []
        for j, _ in hops:
            if not seen or seen[-1] != j:
                if j in seen:
                    raise Bad("torus-dimension-revisited", "dimension %d is left and entered again: hops %r" % (j, hops))
                seen.append(j)
        cs, cd = self.coords(src), self.coords(dst)
        for j, d in enumerate(self.dims):
            delta = (cd[j] - cs[j]) % d
            want = min(delta, d - delta)
            got = sum(1 for jj, _ in hops if jj == j)
            if got != want:
                raise Bad("torus-not-shorter-way", "dimension %d of size %d: from %d to %d needs %d hops the shorter way round, route has %d (hops %r)"
                          % (j, d, cs[j], cd[j], want, got, hops))
            signs = set(s for jj, s in hops if jj == j)
            if len(signs) > 1 and d > 2:
                raise Bad("torus-direction-change", "dimension %d is travelled in both directions: %r" % (j, hops))
        self.judge_limiters(lims, [("n", x) for x in walk])
        for args in pending:
            self.half_ok(*args)


# ---------------------------------------------------------------------------------------------------------------------
class FatTree(Shape):
    """PGFT(h; m_1..m_h; w_1..w_h; p_1..p_h): level 0 = compute nodes. A node of level l has the label
    (d_0..d_{h-1}) with d_i < w[i] for i < l and d_i < m[i] for i >= l; a level-l node and a level-(l+1) node are joined
    (by p[l] parallel cables) iff their labels agree everywhere but on digit l."""

    def __init__(self, zone, levels, down, up, count, via="api", loopback=False, limiter=False, split=False):
        Shape.__init__(self, zone, via, loopback, limiter, split)
        self.h = levels
        self.m, self.w, self.p = list(down), list(up), list(count)
        self.n = 1
        for x in self.m:
            self.n *= x
        self.count_level = []
        for l in range(self.h + 1):
            c = 1
            for i in range(self.h):
                c *= self.w[i] if i < l else self.m[i]
            self.count_level.append(c)
        # node ids as printed in link names: compute nodes 0..n-1, switches from 2n-1 downwards, level 1 first
        self.by_id_switch = {}
        k = 2 * self.n
        for l in range(1, self.h + 1):
            for pos in range(self.count_level[l]):
                k -= 1
                self.by_id_switch[k] = (l, pos)
        self.id_of = {v: k for k, v in self.by_id_switch.items()}

    def label(self, level, pos):
        out = []
        for i in range(self.h):
            r = self.w[i] if i < level else self.m[i]
            out.append(pos % r)
            pos //= r
        return out

    def related(self, child, parent):
        (lc, pc), (lp, pp) = child, parent
        if lp != lc + 1:
            return False
        a, b = self.label(lc, pc), self.label(lp, pp)
        return all(a[i] == b[i] for i in range(self.h) if i != lc)

    def limiter_elem(self, lim):
        _, ident, coords = lim
        if coords is not None:
            return (coords[0], coords[1])
        if ident in self.by_id_switch and not (0 <= ident < self.n):
            return self.by_id_switch[ident]
        return (0, ident)

    def cable(self, name):
        base, half = strip_half(name)
        m = re.match(r"link_from_(-?\d+)_(-?\d+)_(\d+)$", base)
        if not m:
            raise Bad("unknown-link", "%r is not a cable, loopback or limiter of this fat tree" % name)
        cid, pid, uniq = int(m.group(1)), int(m.group(2)), int(m.group(3))
        if pid not in self.by_id_switch:
            raise Bad("cable-out-of-shape", "%r: %d is not a switch of this fat tree" % (name, pid))
        parent = self.by_id_switch[pid]
        if parent[0] == 1:
            if not 0 <= cid < self.n:
                raise Bad("cable-out-of-shape", "%r: child %d of a level-1 switch is not a compute node" % (name, cid))
            child = (0, cid)
        else:
            if cid not in self.by_id_switch:
                raise Bad("cable-out-of-shape", "%r: %d is not a switch" % (name, cid))
            child = self.by_id_switch[cid]
        if not self.related(child, parent):
            raise Bad("cable-not-in-fat-tree", "%r joins %r (label %r) and %r (label %r) which the PGFT does not connect"
                      % (name, child, self.label(*child), parent, self.label(*parent)))
        return child, parent, uniq, half

    def nca_level(self, a, b):
        la, lb = self.label(0, a), self.label(0, b)
        L = 0
        for i in range(self.h):
            if la[i] != lb[i]:
                L = i + 1
        return L

    def judge(self, src, dst, links):
        net, loops, lims = self.split_specials(links)
        if self.judge_loopback(src, dst, links, loops):
            return
        cur = (0, src)
        walk = [cur]
        phase = "up"
        ups = downs = 0
        pending = []
        for name in net:
            child, parent, uniq, half = self.cable_c(name)
            if cur == child and phase == "up":
                cur = parent
                ups += 1
                pending.append(((child, parent, uniq), True, half))
            elif cur == parent:
                phase = "down"
                cur = child
                downs += 1
                pending.append(((child, parent, uniq), False, half))
            elif cur == child:
                raise Bad("fat-tree-up-after-down", "the route goes up again through %r after having started down: walk %r" % (name, walk))
            else:
                raise Bad("not-a-connected-walk", "at %r the route takes %r (joining %r and %r); walk so far %r" % (cur, name, child, parent, walk))
            walk.append(cur)
        if cur != (0, dst):
            raise Bad("walk-ends-elsewhere", "route from node %d ends at %r instead of node %d (walk %r)" % (src, cur, dst, walk))
        L = self.nca_level(src, dst)
        if src == dst:
            if ups != downs:
                raise Bad("walk-ends-elsewhere", "closed walk with %d up and %d down hops" % (ups, downs))
        elif ups != L or downs != L:
            raise Bad("fat-tree-not-nearest-common-ancestor", "nodes %d and %d have a common ancestor at level %d, the route climbs %d levels and descends %d (walk %r)"
                      % (src, dst, L, ups, downs, walk))
        self.judge_limiters(lims, list(walk))
        for args in pending:
            self.half_ok(*args)


# ---------------------------------------------------------------------------------------------------------------------
class Dragonfly(Shape):
    """groups x chassis x blades(routers) x nodes. Cables: local(router, node), green between two routers of a chassis,
    black between the routers of the same blade number of two chassis of a group, blue between two groups: 'links to the nth
    group are attached to the nth router of the group' (router number = chassis * blades + blade)."""

    def __init__(self, zone, groups, chassis, blades, nodes, via="api", loopback=False, limiter=False, split=False):
        Shape.__init__(self, zone, via, loopback, limiter, split)
        self.G, self.C, self.B, self.N = groups, chassis, blades, nodes
        self.n = groups * chassis * blades * nodes
        self.nrouters = groups * chassis * blades
        # uniqueId ranges (only used to find the group of a green cable, whose name does not spell it)
        self.first_green = self.nrouters * nodes
        self.per_chassis_green = blades * (blades - 1) // 2

    def node_coords(self, rank):
        n = rank % self.N
        r = rank // self.N
        return self.router_coords(r) + (n,)

    def router_coords(self, r):
        b = r % self.B
        c = (r // self.B) % self.C
        g = r // (self.B * self.C)
        return (g, c, b)

    def router_of(self, rank):
        return self.router_coords(rank // self.N)

    def limiter_elem(self, lim):
        _, ident, coords = lim
        if coords is not None:
            if coords[3] is None:
                return ("r",) + tuple(coords[:3])
            return ("n", ident)
        if 0 <= ident < self.n:
            return ("n", ident)
        # XML: routers get ids 2n-1, 2n-2, ... in (group, chassis, blade) order
        idx = 2 * self.n - 1 - ident
        return ("r",) + self.router_coords(idx)

    def cable(self, name):
        """-> (kind, endpoint A, endpoint B, cable key, half); A is the endpoint the '_UP' half leaves from."""
        base, half = strip_half(name)
        m = re.match(r"local_link_from_router_(\d+)_to_node_(\d+)_(\d+)$", base)
        if m:
            r, nn = int(m.group(1)), int(m.group(2))
            if r >= self.nrouters or nn >= self.N:
                raise Bad("cable-out-of-shape", "%r" % name)
            node = ("n", r * self.N + nn)
            return "local", node, ("r",) + self.router_coords(r), base, half
        m = re.match(r"green_link_in_chassis_(\d+)_between_routers_(\d+)_and_(\d+)_(\d+)$", base)
        if m:
            c, j, k, uniq = (int(x) for x in m.groups())
            if self.per_chassis_green == 0:
                raise Bad("cable-out-of-shape", "%r in a dragonfly with one router per chassis" % name)
            gc = (uniq - self.first_green) // self.per_chassis_green        # chassis number over the whole cluster
            g = gc // self.C
            if gc % self.C != c or not (0 <= g < self.G) or j >= self.B or k >= self.B or j == k:
                raise Bad("cable-out-of-shape", "%r does not fit the shape (chassis %d of group %d?)" % (name, c, g))
            return "green", ("r", g, c, j), ("r", g, c, k), base, half
        m = re.match(r"black_link_in_group_(\d+)_between_chassis_(\d+)_and_(\d+)_blade_(\d+)_(\d+)$", base)
        if m:
            g, j, k, b, uniq = (int(x) for x in m.groups())
            if g >= self.G or j >= self.C or k >= self.C or b >= self.B or j == k:
                raise Bad("cable-out-of-shape", "%r" % name)
            return "black", ("r", g, j, b), ("r", g, k, b), base, half
        m = re.match(r"blue_link_between_group_(\d+)_and_(\d+)_routers_(\d+)_and_(\d+)_(\d+)$", base)
        if m:
            gi, gj, ri, rj, uniq = (int(x) for x in m.groups())
            if gi >= self.G or gj >= self.G or gi == gj:
                raise Bad("cable-out-of-shape", "%r" % name)
            want_i = gi * self.C * self.B + gj      # the gj-th router of group gi
            want_j = gj * self.C * self.B + gi
            if ri != want_i or rj != want_j or gj >= self.C * self.B or gi >= self.C * self.B:
                raise Bad("blue-cable-not-on-nth-router", "%r: links to the nth group must be attached to the nth router of the group (%d and %d)" % (name, want_i, want_j))
            return "blue", ("r",) + self.router_coords(ri), ("r",) + self.router_coords(rj), base, half
        raise Bad("unknown-link", "%r is not a cable, loopback or limiter of this dragonfly" % name)

    def intra(self, a, b):
        """Number of (green, black) hops between two routers of one group."""
        return (1 if a[3] != b[3] else 0, 1 if a[2] != b[2] else 0)

    def reference_counts(self, src, dst):
        ra, rb = ("r",) + self.router_of(src), ("r",) + self.router_of(dst)
        if ra == rb:
            return dict(green=0, black=0, blue=0)
        if ra[1] == rb[1]:
            g, k = self.intra(ra, rb)
            return dict(green=g, black=k, blue=0)
        ga, gb = ra[1], rb[1]
        exit_r = ("r", ga) + self.router_coords(gb)[1:]      # the gb-th router of group ga
        entry_r = ("r", gb) + self.router_coords(ga)[1:]
        g1, k1 = self.intra(ra, exit_r)
        g2, k2 = self.intra(entry_r, rb)
        return dict(green=g1 + g2, black=k1 + k2, blue=1)

    def features(self, src, dst):
        """Structural features of the pair (for violation keys): does the documented route need a green hop that starts in a
        chassis other than chassis 0, does it leave/enter a group through a router outside chassis 0."""
        ra, rb = ("r",) + self.router_of(src), ("r",) + self.router_of(dst)
        f = []
        if ra == rb:
            return f
        if ra[1] == rb[1]:
            if ra[3] != rb[3] and ra[2] != 0:
                f.append("green-hop-from-chassis!=0")
            return f
        ga, gb = ra[1], rb[1]
        exit_r = ("r", ga) + self.router_coords(gb)[1:]
        entry_r = ("r", gb) + self.router_coords(ga)[1:]
        if exit_r[2] != 0 or entry_r[2] != 0:
            f.append("group-router-outside-chassis-0")
        if entry_r[3] != rb[3] and entry_r[2] != 0:
            f.append("green-hop-from-chassis!=0")
        return f

    def judge(self, src, dst, links):
        net, loops, lims = self.split_specials(links)
        if self.judge_loopback(src, dst, links, loops):
            return
        cur = ("n", src)
        walk = [cur]
        kinds = []
        pending = []
        for name in net:
            kind, a, b, key, half = self.cable_c(name)
            if cur == a:
                nxt, fwd = b, True
            elif cur == b:
                nxt, fwd = a, False
            else:
                raise Bad("not-a-connected-walk", "at %r the route takes %r (joining %r and %r); walk so far %r" % (cur, name, a, b, walk))
            if kind == "local":
                fwd = cur[0] == "n"       # node -> router is the 'up' direction of a local cable
            pending.append((key, fwd, half))
            kinds.append(kind)
            cur = nxt
            walk.append(cur)
        if cur != ("n", dst):
            raise Bad("walk-ends-elsewhere", "route from node %d ends at %r instead of node %d (walk %r)" % (src, cur, dst, walk))
        if len(kinds) < 2 or kinds[0] != "local" or kinds[-1] != "local" or "local" in kinds[1:-1]:
            raise Bad("dragonfly-not-hierarchical", "local cables must be exactly the first and the last hop: %r" % (kinds,))
        want = self.reference_counts(src, dst)
        got = dict(green=kinds.count("green"), black=kinds.count("black"), blue=kinds.count("blue"))
        if got != want:
            raise Bad("dragonfly-extra-or-missing-hop", "hops %r, the documented hierarchy needs %r (walk %r)" % (got, want, walk))
        self.judge_limiters(lims, [x for x in walk])
        for args in pending:
            self.half_ok(*args)


# ---------------------------------------------------------------------------------------------------------------------
def star_route(up_src, down_dst, loop_src, same):
    """Star zones and flat clusters: the source's up links followed by the destination's down links without repetition;
    source==destination with a configured loopback route gives that route."""
    if same and loop_src is not None:
        return list(loop_src)
    out = []
    for l in list(up_src) + list(down_dst):
        if l not in out:
            out.append(l)
    return out


class FlatCluster:
    """XML <cluster> without topology: limiter(A), private(A) up, backbone, private(B) down, limiter(B) - each only if configured."""

    def __init__(self, cid, n, split, backbone, loopback, limiter):
        self.cid, self.n, self.split, self.backbone, self.loopback, self.limiter = cid, n, split, backbone, loopback, limiter

    def up(self, i):
        out = []
        if self.limiter:
            out.append("%s_link_%d_limiter" % (self.cid, i))
        out.append("%s_link_%d%s" % (self.cid, i, "_UP" if self.split else ""))
        if self.backbone:
            out.append("%s_backbone" % self.cid)
        return out

    def down(self, i):
        out = []
        if self.backbone:
            out.append("%s_backbone" % self.cid)
        out.append("%s_link_%d%s" % (self.cid, i, "_DOWN" if self.split else ""))
        if self.limiter:
            out.append("%s_link_%d_limiter" % (self.cid, i))
        return out

    def expected(self, a, b):
        loop = ["%s_link_%d_loopback" % (self.cid, a)] if self.loopback else None
        return star_route(self.up(a), self.down(b), loop, a == b)
