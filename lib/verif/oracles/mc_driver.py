"""Driver of the E6 engine: runs harness/mc_vm.cpp natively, under simgrid-mc and in replay mode, and parses what came out.

Everything is watchdogged (simgrid-mc can hang); a fired watchdog is reported as timed_out and is *inconclusive* for
the callers."""
import os
import re

from verif import build, proc

_PATH_RE = re.compile(r"--cfg=model-check/replay:'([^']*)'")
_END_RE = re.compile(r"(DFS|BeFS|Parallel\w*) exploration ended\. (\d+) unique states visited; (\d+) explored traces")


def binaries(flavour="hooks"):
    return build.harness("mc_vm.cpp", flavour=flavour, internal=True), build.simgrid_mc(flavour)


class McResult:
    """rc, timed_out, records [(kind, trace, fingerprint)], sets end/deadlock/asserts, reported paths, log text."""

    def __init__(self):
        self.rc = None
        self.timed_out = False
        self.records = []
        self.end = set()
        self.deadlock = set()
        self.asserts = set()
        self.paths = []           # [(kind, path)] in report order: kind in DEADLOCK / ASSERT / CRASH
        self.states = None
        self.traces = None
        self.log = ""
        self.wall = 0.0
        self.aborted = None       # text of an xbt_assert / abort of the checker or of the application

    def verdict(self):
        if self.timed_out:
            return "timeout"
        return {0: "ok", 1: "safety", 2: "deadlock", 4: "crash"}.get(self.rc, "rc%s" % self.rc)


def mc_args(reduction="dpor", explorer="DFS", strategy="none", seed=0, max_errors=-1, extra=()):
    a = ["--cfg=model-check/reduction:%s" % reduction]
    if explorer != "DFS":
        a.append("--cfg=model-check/exploration-algo:%s" % explorer)
    if strategy != "none":
        a += ["--cfg=model-check/strategy:%s" % strategy, "--cfg=model-check/rand-seed:%d" % seed]
    if max_errors is not None:
        a.append("--cfg=model-check/max-errors:%d" % max_errors)
    return a + list(extra)


def parse_records(text):
    recs = []
    for line in text.splitlines():
        if not line.startswith("T "):
            continue
        head, _, fp = line.partition(" | ")
        t = head.split()
        if len(t) != 3:
            continue
        recs.append((t[1], "" if t[2] == "-" else t[2], fp.strip()))
    return recs


def run_mc(vm, mc, spec_path, workdir, tag, reduction="dpor", explorer="DFS", strategy="none", seed=0, max_errors=-1,
           timeout=120, extra=(), app_extra=()):
    """One exploration. Returns McResult."""
    fp = os.path.join(workdir, "fp-%s.log" % tag)
    if os.path.exists(fp):
        os.unlink(fp)
    cmd = [mc] + mc_args(reduction, explorer, strategy, seed, max_errors, extra) + \
          ["--log=xbt_cfg.thres:warning", "--", vm, spec_path, "--log=root.thres:critical"] + list(app_extra)
    r = proc.run(cmd, timeout=timeout, env={"VERIF_MC_FP": fp}, merge_err=True)
    out = McResult()
    out.rc, out.timed_out, out.wall = r.rc, r.timed_out, r.wall
    out.log = r.out or ""
    if os.path.exists(fp):
        with open(fp, errors="replace") as f:
            out.records = parse_records(f.read())
        os.unlink(fp)
    for kind, tr, f in out.records:
        if kind == "END":
            out.end.add(f)
        elif kind == "DEADLOCK":
            out.deadlock.add(f)
        elif kind == "ASSERT":
            out.asserts.add(f)
    # reported counter-examples, in order, with their kind
    kind = None
    for line in out.log.splitlines():
        if "DEADLOCK DETECTED" in line:
            kind = "DEADLOCK"
        elif "PROPERTY NOT VALID" in line:
            kind = "ASSERT"
        elif "CRASH IN THE PROGRAM" in line:
            kind = "CRASH"
        m = _PATH_RE.search(line)
        if m:
            out.paths.append((kind or "?", m.group(1)))
            kind = None
        m = _END_RE.search(line)
        if m:
            out.states, out.traces = int(m.group(2)), int(m.group(3))
    for line in out.log.splitlines():
        if "xbt_assert" in line or "Assertion" in line or "terminate called" in line or "Segmentation" in line \
                or "Backtrace" in line or "xbt_die" in line:
            out.aborted = line.strip()[:300]
            break
    return out


def run_native(vm, spec_path, factory=None, timeout=60, platform=None, extra=()):
    cmd = [vm, spec_path] + ([platform] if platform else []) + ["--log=root.thres:critical"]
    if factory:
        cmd.append("--cfg=contexts/factory:%s" % factory)
    cmd += list(extra)
    r = proc.run(cmd, timeout=timeout)
    res = {"rc": r.rc, "timed_out": r.timed_out, "final": None, "deadlock": None, "assert": None, "out": r.out, "err": r.err}
    for line in (r.out or "").splitlines():
        if line.startswith("FINAL "):
            res["final"] = line[6:].strip()
        elif line.startswith("DEADLOCK "):
            res["deadlock"] = line[9:].strip()
        elif line.startswith("ASSERT "):
            res["assert"] = line[7:].strip()
    return res


def run_replay(vm, spec_path, path, timeout=60, extra=()):
    """Native replay of a checker path. Returns dict(rc, kind, fingerprint, out)."""
    cmd = [vm, spec_path, "--cfg=model-check/replay:%s" % path, "--log=root.thres:info", "--log=no_loc"] + list(extra)
    r = proc.run(cmd, timeout=timeout, merge_err=True)
    res = {"rc": r.rc, "timed_out": r.timed_out, "kind": None, "fingerprint": None, "out": r.out or ""}
    for line in res["out"].splitlines():
        if "DEADLOCK detected" in line:
            res["kind"] = "DEADLOCK"
        elif "The application could run further" in line:
            res["kind"] = "RUNNING"
        elif "no actor remains to be executed" in line:
            res["kind"] = "END"
        elif "MC assertion failed" in line:
            res["kind"] = "ASSERT"
        elif line.startswith("REPLAY "):
            res["fingerprint"] = line[7:].strip()
        elif line.startswith("ASSERT "):
            res["fingerprint"] = line[7:].strip()
    return res
