"""Checker of the event streams written by harness/clock.cpp (C03).

parse(out)            -> {scenario id: {"status": int|None, "recs": [(kind, clock, [fields])], "noise": [lines]}}
check(sc, run)        -> (violations, stats) ; violations = [(key, text)], stats = {counter: n}
Everything is decided on the recorded simulated dates; nothing depends on wall-clock time.

What is demanded (statement of C03), rule by rule:
 mono      the clock read at any two consecutive observation points (every record, every hook call) never decreases
 advance   Engine::on_time_advance(delta): delta >= 0 and clock == previous clock + delta; the clock changes nowhere else
 timers    no timer is overdue when the kernel is quiescent; a timer set for date t fires at a clock c with t <= c <= t + ulps, once,
           and before the run ends
 sleep     sleep_for(d<=0) / sleep_until(past) return at the call date; sleep_for(d>0) returns at call + max(d, precision/timing)
           (the documented clamp of the CPU models; ptask_L07 does not clamp: call + d): never later than that (+ulps), earlier by
           less than precision/timing only (an event closer than the precision is merged with its neighbour, as documented for
           precision/timing); alone on the time line (solo scenarios) it is exact to the ulp
 activity  creation <= start <= finish, start/finish never in the future of the observer; wait()/blocking calls return at the finish
           date when called before it and at the call date otherwise; test() answers true only from the finish date on
 kill      an actor with kill time t that is still alive at t terminates at a clock c with t <= c <= t + ulps
 run_until never returns after its date
"""
import math
import re

KINDS = {"CR", "BG", "Q", "A", "Z", "XT", "TM", "AS", "AC", "F", "PS", "H", "D", "RU", "END", "NONMONO", "LIVELOCK"}


def parse(out):
    res, cur = {}, None
    for line in out.splitlines():
        t = line.split()
        if not t:
            continue
        if t[0] == "B" and len(t) == 2:
            cur = t[1]
            res[cur] = {"status": None, "recs": [], "noise": []}
            continue
        if t[0] == "X" and len(t) == 3 and t[1] in res:
            try:
                res[t[1]]["status"] = int(t[2])
            except ValueError:
                pass
            cur = None
            continue
        if cur is None:
            continue
        if t[0] in KINDS and len(t) >= 2:
            try:
                res[cur]["recs"].append((t[0], float(t[1]), t[2:]))
                continue
            except ValueError:
                pass
        res[cur]["noise"].append(line)
    return res


def ulp(x):
    return math.ulp(abs(x)) if math.isfinite(x) else 0.0


def kv(fields):
    return dict(x.split("=", 1) for x in fields if "=" in x)


def dur_class(d, prec, call):
    if d <= 0:
        return "zero"
    if call + max(d, prec) == call:
        return "absorbed"
    if d < prec:
        return "sub-precision"
    if d <= 2 * prec:
        return "near-precision"
    if d >= 1e8:
        return "huge"
    return "normal"


PS_NOTE = (" (the previous observation was made by a Host::on_speed_change callback while the kernel applied a profile event: it read the date "
           "of the event; the kernel then resumed from the old clock and advanced by event date - old clock, which rounds below the date)")


def check(sc, run):
    vio, st = [], {}
    seen = set()

    def V(key, text, i=None):
        if key in seen:
            return
        seen.add(key)
        ctxt = ""
        if i is not None:
            lo = max(0, i - 6)
            ctxt = "\n  stream[%d..%d]: %s" % (lo, i, " | ".join("%s %r %s" % (k, c, " ".join(fl)) for k, c, fl in recs[lo:i + 1]))
        vio.append(("C03:" + key, text + ctxt))

    def cnt(name, n=1):
        st[name] = st.get(name, 0) + n

    recs = run["recs"]
    cfg = sc["cfg"]
    prec = cfg.get("prec", 1e-9)
    mode = "full" if cfg.get("cpu_optim", "Lazy") in ("Full", "TI") or cfg.get("host_model", "default") != "default" else "lazy"
    clamp = cfg.get("host_model", "default") == "default"
    solo = bool(sc.get("solo"))
    ended = any(k == "END" for k, _, _ in recs)
    end_clock = max((c for k, c, _ in recs if k == "END"), default=None)

    # ---------------------------------------------------------------- pass 1: the clock itself
    prev = 0.0            # clock of the previous record
    base = 0.0            # clock of the previous record that is not a profile callback (those see the date of the event being applied)
    nD_at = []            # number of time advances seen before record i
    nD = 0
    for i, (k, c, fl) in enumerate(recs):
        nD_at.append(nD)
        after_ps = i > 0 and recs[i - 1][0] == "PS" or (i > 1 and recs[i - 1][0] == "NONMONO" and recs[i - 2][0] == "PS")
        if k == "NONMONO":
            V("clock-decreased:after-profile-event-callback" if after_ps else "clock-decreased:online",
              "the online monitor read clock %r after having read %r%s" % (c, float(fl[0]), PS_NOTE if after_ps else ""), i)
            continue
        if k == "LIVELOCK":
            V("livelock:zero-advance", "%s consecutive time advances of 0 s at clock %r with no event in between: the kernel does not make progress" % (fl[0], c), i)
            continue
        if c < prev:
            V("clock-decreased:after-profile-event-callback" if after_ps else "clock-decreased:%s" % k,
              "clock %r observed by a %s record after %r%s" % (c, k, prev, PS_NOTE if after_ps else ""), i)
        if not math.isfinite(c):
            V("clock-not-finite", "clock %r" % c, i)
        if k == "D":
            nD += 1
            d = float(fl[0])
            if d < 0:
                V("advance:negative", "on_time_advance(%r)" % d, i)
            if base + d != c:
                V("advance:mismatch", "on_time_advance(%r) from clock %r leads to %r, not to %r" % (d, base, c, base + d), i)
            if d > 0:
                cnt("time_advances")
            else:
                cnt("time_advances.zero")
        elif k != "PS":
            if c != base:
                V("clock-moved-without-advance:%s" % k, "clock %r at a %s record, %r just before, and no on_time_advance in between" % (c, k, base), i)
        if k == "H":
            where, nt = int(fl[0]), float(fl[1])
            cnt("hook_records")
            if nt >= 0 and (nt < c or (where == 1 and nt <= c)):
                V("timer:overdue-at-quiescence:where=%d" % where, "quiescent hook (where=%d) at clock %r while the earliest pending timer is dated %r" % (where, c, nt), i)
        prev = c
        if k != "PS":
            base = c
        elif c > base:
            cnt("profile_events")

    # ---------------------------------------------------------------- pass 2: calls, activities, timers, kills
    pend = {}             # (pid, idx) -> (record index, clock, op, args)
    acts = {}             # activity name -> {"kind", "created", "creator"}
    timers = {}           # tag -> {"date", "set_at", "fired": [clocks]}
    kills = {}            # pid -> date
    pid_of = {}           # actor name -> pid
    term = {}             # pid -> clock of on_termination
    exits = {}            # pid -> (clock, failed)
    last_seen = {}        # pid -> clock of its last own record (Q/A/Z)
    test_false = []       # (name, clock)
    known_fin = {}        # name -> finish date as first reported
    tops = {}             # index of a top-level actor -> pid
    clocks_events = {}    # clock -> set of sources having an event there (ties)

    def ev(c, src):
        if c > 0:
            clocks_events.setdefault(c, set()).add(src)

    def U(*xs, steps=0):
        m = max(abs(x) for x in xs)
        return (4 + (steps if mode == "full" else 0)) * ulp(m)

    def report_times(i, name, c, d, where):
        """start/finish dates as the API reports them in record i."""
        a = acts.get(name)
        if a is None:
            return
        s, fi = float(d.get("st", -1)), float(d.get("fi", -1))
        kind = a["kind"]
        if s >= 0:
            cnt("activity.start_dates_checked")
            if s < a["created"]:
                V("activity:start-before-creation:%s" % kind, "%s %s created at %r reports start time %r (%s)" % (kind, name, a["created"], s, where), i)
            if s > c:
                V("activity:start-in-the-future:%s" % kind, "%s %s reports start time %r at clock %r (%s)" % (kind, name, s, c, where), i)
        if fi >= 0:
            cnt("activity.finish_dates_checked")
            if s < 0:
                V("activity:finish-without-start:%s" % kind, "%s %s reports finish time %r but start time %r (%s)" % (kind, name, fi, s, where), i)
            elif fi < s:
                V("activity:finish-before-start:%s" % kind, "%s %s reports start %r and finish %r (%s)" % (kind, name, s, fi, where), i)
            if fi > c:
                V("activity:finish-in-the-future:%s" % kind, "%s %s reports finish time %r at clock %r (%s)" % (kind, name, fi, c, where), i)
            if name in known_fin and known_fin[name] != fi:
                V("activity:finish-date-changed:%s" % kind, "%s %s first reported finish %r, now %r" % (kind, name, known_fin[name], fi), i)
            known_fin.setdefault(name, fi)
        elif d.get("state") == "FINISHED" and d.get("_blocking"):
            # (test() answers true and marks the activity FINISHED also when it failed, e.g. its peer was killed: not judged here)
            V("activity:finished-without-date:%s" % kind, "%s %s is FINISHED but get_finish_time() answers %r (%s)" % (kind, name, fi, where), i)

    for i, (k, c, fl) in enumerate(recs):
        if k == "CR":
            pid_of[fl[1]] = int(fl[0])
            if re.fullmatch(r"a\d+", fl[1]):
                tops[int(fl[1][1:])] = int(fl[0])
                kt = sc["actors"][int(fl[1][1:])].get("kill")
                if kt is not None and kt > c:
                    kills[int(fl[0])] = float(kt)
        elif k == "Q":
            pid, idx, op, args = int(fl[0]), int(fl[1]), fl[2], fl[3:]
            pend[(pid, idx)] = (i, c, op, args)
            last_seen[pid] = c
            if op in ("x", "xa", "xi"):
                acts[args[1]] = {"kind": "exec", "created": c}
            elif op in ("p", "pa"):
                acts[args[2]] = {"kind": "comm", "created": c}
            elif op in ("g", "ga"):
                acts[args[1]] = {"kind": "comm", "created": c}
            elif op in ("ir", "iw", "ia"):
                acts[args[2]] = {"kind": "io", "created": c}
            elif op == "t":
                timers[args[1]] = {"date": float(args[0]), "set_at": c, "fired": [], "i": i}
        elif k == "A":
            pid, idx, outc = int(fl[0]), int(fl[1]), fl[2]
            last_seen[pid] = c
            q = pend.pop((pid, idx), None)
            if q is None or outc == "skip":
                continue
            qi, qc, op, args = q
            d = kv(fl[3:])
            cnt("calls.%s" % op)
            if outc != "ok":
                cnt("calls.exception")
                continue
            if op in ("s", "u"):
                arg = float(args[0])
                dur = arg if op == "s" else arg - qc      # sleep_until(t) is sleep_for(t - now)
                name = "sleep_for" if op == "s" else "sleep_until"
                if dur <= 0:
                    cnt("sleep.noop_checked")
                    if c != qc:
                        V("sleep:noop-took-time:%s" % name, "%s(%r) called at %r (nothing to wait for) returned at %r" % (name, arg, qc, c), i)
                    continue
                eff = max(dur, prec) if clamp else dur
                want = qc + eff
                cls = dur_class(dur, prec if clamp else 0.0, qc)
                tol = U(want, c, steps=nD_at[i] - nD_at[qi])
                cnt("sleep.checked.%s" % cls)
                ev(c, ("actor", pid))
                if c > want + tol:
                    V("sleep:late:%s:%s" % (name, cls), "%s(%r) called at %r returned at %r, %.3g s after the expected %r (precision/timing %g, cpu update %s)"
                      % (name, arg, qc, c, c - want, want, prec, mode), i)
                elif c < want - prec - tol:
                    V("sleep:early:%s:%s" % (name, cls), "%s(%r) called at %r returned at %r, %.3g s before the expected %r (more than precision/timing %g)"
                      % (name, arg, qc, c, want - c, want, prec), i)
                elif solo and abs(c - want) > tol:
                    V("sleep:inexact-alone:%s:%s" % (name, cls), "%s(%r) called at %r by the only actor (nothing else scheduled) returned at %r instead of %r"
                      % (name, arg, qc, c, want), i)
                else:
                    if c == want:
                        cnt("sleep.exact")
                    elif abs(c - want) <= tol:
                        cnt("sleep.within_ulps")
                    else:
                        cnt("sleep.merged_within_precision")
                if op == "u" and c < arg - prec - tol:
                    V("sleep:early:sleep_until:date", "sleep_until(%r) returned at %r" % (arg, c), i)
                continue
            # activities
            name = None
            if op in ("x", "xa", "xi"):
                name = args[1]
            elif op in ("p", "pa"):
                name = args[2]
            elif op in ("g", "ga"):
                name = args[1]
            elif op in ("ir", "iw", "ia"):
                name = args[2]
            elif op in ("w", "ts", "st"):
                name = args[0]
            if name is not None:
                if op in ("x", "p", "g", "ir", "iw", "w"):
                    d["_blocking"] = True
                report_times(i, name, c, d, "after %s returned" % op)
                fi = float(d.get("fi", -1))
                state = d.get("state")
                if op in ("x", "p", "g", "ir", "iw", "w") and state == "FINISHED" and fi >= 0:
                    cnt("wait.checked")
                    ev(c, ("actor", pid))
                    if c < fi:
                        V("wait:returned-before-finish:%s" % acts.get(name, {}).get("kind", "?"), "%s on %s returned at %r, the activity finished at %r" % (op, name, c, fi), i)
                    elif qc <= fi and c != fi:
                        V("wait:returned-after-finish:%s" % acts.get(name, {}).get("kind", "?"), "%s on %s called at %r returned at %r although the activity finished at %r"
                          % (op, name, qc, c, fi), i)
                    elif qc > fi and c != qc:
                        V("wait:already-finished-took-time:%s" % acts.get(name, {}).get("kind", "?"), "%s on %s (finished at %r) called at %r returned at %r"
                          % (op, name, fi, qc, c), i)
                if op == "ts":
                    cnt("test.checked")
                    if d.get("res") == "1" and state == "FINISHED" and fi > c:
                        V("test:true-before-finish", "test() on %s answered true at %r, finish date %r" % (name, c, fi), i)
                    if d.get("res") == "0":
                        test_false.append((name, c, i))
            elif op == "k":
                kills[int(args[0])] = float(args[1])
            elif op == "sp":
                if float(d.get("kt", -1)) > 0:
                    kills[int(d["child"])] = float(d["kt"])
        elif k == "AS":
            report_times(i, fl[1], c, {"st": fl[2]}, "on_start signal")
        elif k == "AC":
            report_times(i, fl[1], c, {"st": fl[3], "fi": fl[4], "state": None}, "on_completion signal")
            cnt("activity.completions")
        elif k == "F":
            tag, date = fl[0], float(fl[1])
            t = timers.get(tag)
            ev(c, ("timer", tag))
            if t is None:
                V("timer:unknown-fired", "timer %s fired at %r but was never set" % (tag, c), i)
                continue
            t["fired"].append(c)
            cnt("timer.fired")
            cls = "at-set-date" if t["date"] == t["set_at"] else "future"
            if c < t["date"]:
                V("timer:fired-early:%s" % cls, "timer %s set at %r for date %r fired at %r" % (tag, t["set_at"], t["date"], c), i)
            elif c > t["date"] + U(c, t["date"]):
                V("timer:fired-late:%s" % cls, "timer %s set at %r for date %r fired at %r (%.3g s late)" % (tag, t["set_at"], t["date"], c, c - t["date"]), i)
            elif c == t["date"]:
                cnt("timer.exact")
            if len(t["fired"]) > 1:
                V("timer:fired-twice", "timer %s fired at %r" % (tag, t["fired"]), i)
        elif k == "XT":
            exits[int(fl[0])] = (c, int(fl[1]))
        elif k == "TM":
            term[int(fl[0])] = c
            ev(c, ("actor", int(fl[0])))
        elif k == "Z":
            last_seen[int(fl[0])] = c
        elif k == "END":
            cnt("hook_calls_not_recorded(identical to the previous one, checked online)", int(fl[0]))
        elif k == "RU":
            t = float(fl[0])
            cnt("run_until.calls")
            if c > t + U(c, t):
                V("run_until:overshoot", "run_until(%r) returned at clock %r" % (t, c), i)
            elif c < t - U(c, t):
                cnt("run_until.returned_before_its_date(not judged)")

    # activities: a test() that answered false at c while the activity had finished strictly before c
    for name, c, i in test_false:
        if name in known_fin and known_fin[name] < c:
            V("test:false-after-finish", "test() on %s answered false at %r although it finished at %r" % (name, c, known_fin[name]), i)
    # timers never fired
    for tag, t in timers.items():
        if not t["fired"] and ended:
            V("timer:never-fired", "timer %s set at %r for date %r never fired although the run ended normally (at %r)" % (tag, t["set_at"], t["date"], end_clock), t["i"])
    # kill times
    for pid, date in kills.items():
        tc = term.get(pid)
        if tc is None:
            if ended:
                V("kill:never-terminated", "actor %d has kill time %r but no termination was ever signalled (run ended at %r)" % (pid, date, end_clock))
            continue
        if tc < date:
            cnt("kill.actor_ended_before_its_kill_time")
            continue
        cnt("kill.checked")
        tol = U(tc, date)
        if tc > date + tol:
            V("kill:late", "actor %d has kill time %r, its termination was signalled at %r (%.3g s late); its last own event is at %r" % (pid, date, tc, tc - date, last_seen.get(pid)))
        elif tc == date:
            cnt("kill.exact")
        ex = exits.get(pid)
        if ex is not None and ex[0] != tc:
            V("kill:on_exit-date", "actor %d: on_exit ran at %r, on_termination at %r" % (pid, ex[0], tc))
        if last_seen.get(pid, 0.0) > date + tol:
            V("kill:outlived", "actor %d has kill time %r but still issued or completed a call at %r" % (pid, date, last_seen[pid]))

    ties = sum(1 for s in clocks_events.values() if len(s) >= 2)
    if ties:
        cnt("dates_with_coinciding_events", ties)
    st["_ties"] = ties
    st["_ended"] = 1 if ended else 0
    return vio, st


def crash_key(run):
    """Violation key + text of a scenario whose process died."""
    noise = run["noise"]
    recs = run["recs"]
    # a kill time armed on an actor that terminates in the scheduling round of the set_kill_time() call: the timer fires on the dead actor
    term, last = {}, (recs[-1][1] if recs else 0.0)
    for i, (k, c, fl) in enumerate(recs):
        if k == "TM":
            term[int(fl[0])] = (i, c)
    for i, (k, c, fl) in enumerate(recs):
        if k == "Q" and fl[2] == "k":
            target, date = int(fl[3]), float(fl[4])
            if target in term and term[target][1] == c and last <= date:
                order = "after" if term[target][0] > i else "before"
                return ("C03:crash:kill-time-armed-on-actor-ending-in-the-same-round",
                        "actor %s called set_kill_time(%r) at %r on actor %d, which ended at that very date (its termination was signalled %s the call was "
                        "issued); the simulation died when the clock reached the kill time (last record at %r, status %s): %s"
                        % (fl[0], date, c, target, order, last, run["status"], [l for l in noise if "Imposs" in l or "ERROR" in l or "egmentation" in l][:1]))
    san = [l for l in noise if "ERROR: AddressSanitizer" in l or "runtime error:" in l or "ERROR: LeakSanitizer" in l]
    if san:
        what = re.sub(r"0x[0-9a-f]+", "ADDR", san[0])
        m = re.search(r"AddressSanitizer: ([a-z-]+)", what)
        return "C03:sanitizer:%s" % (m.group(1) if m else "ubsan"), what[:300]
    msg = [l for l in noise if "ssertion" in l or ("CRITICAL" in l and "Deadlock" not in l) or "xception" in l or "Impossible" in l]
    cls = "unknown"
    if msg:
        m = re.search(r"Assertion [`'\"]?([^'`\"]+)", msg[0])
        if m:
            cls = "assert:" + re.sub(r"[^A-Za-z_!=<>.()-]+", "_", m.group(1)).strip("_")[:60]
        elif "Impossible Did Happen" in msg[0]:
            m2 = re.search(r"(\w+\.cpp):\d+:(\w+)", msg[0].split("ImpossibleError:")[-1])
            cls = "impossible:" + (m2.group(2) if m2 else "unknown")
        else:
            cls = re.sub(r"[^A-Za-z]+", "_", msg[0].split("]")[-1]).strip("_")[:60]
    elif run["status"] is not None and run["status"] >= 1000:
        cls = "signal-%d" % (run["status"] - 1000)
    return "C03:crash:%s" % cls, "the program died with status %s: %s" % (run["status"], (msg or noise[-3:])[:3])
