"""Oracle self-test for C05/C06/C07 (python3 -m verif.oracles.sync_selftest, from /verif/lib): real histories are recorded on the
unchanged tree, must be accepted, and must be rejected with the expected rule once they are corrupted the way a defective kernel
would produce them (wrong answer, wrong actor served, shifted date, capacity off by one, missing return)."""
import sys

from verif.gen import sync as G
from verif.oracles import sync as O


class FakeCtx:
    def __init__(self):
        self.keys = []

    def violation(self, key, what, w):
        self.keys.append(key)


def sub(old, new):
    def f(lines):
        assert any(old in l for l in lines), (old, lines)
        done, out = False, []
        for l in lines:
            if not done and old in l:
                l, done = l.replace(old, new), True
            out.append(l)
        return out
    return f


def drop(*pats):
    def f(lines):
        out = list(lines)
        for p in pats:
            i = [k for k, l in enumerate(out) if l.startswith(p)]
            assert i, (p, lines)
            del out[i[0]]
        return out
    return f


def move_before(pat, anchor):
    def f(lines):
        out = list(lines)
        i = [k for k, l in enumerate(out) if l.startswith(pat)][0]
        l = out.pop(i)
        j = [k for k, x in enumerate(out) if x.startswith(anchor)][0]
        out.insert(j, l)
        return out
    return f


def chain(*fs):
    def f(lines):
        for g in fs:
            lines = g(lines)
        return lines
    return f


U = O.UNIT
CASES = [
    # (checker, scenario, corruption, expected rule in the key)
    (O.check_sem, {"mode": "sem", "caps": [0], "scripts": [["T0:2", "C0"], ["S2", "R0", "C0"]]},
     sub("A 0 T 0 1", "A 0 T 0 0"), "capacity"),                  # tie flipped to 'acquired': then the token must be gone
    (O.check_sem, {"mode": "sem", "caps": [0], "scripts": [["T0:2"], ["S3", "R0"]]},
     sub("A 0 T 0 1 %.17g" % (2 * U), "A 0 T 0 1 %.17g" % U), "early-timeout"),
    (O.check_sem, {"mode": "sem", "caps": [0], "scripts": [["T0:3"], ["S1", "R0"]]},
     sub("A 0 T 0 0", "A 0 T 0 1"), "timeout-despite-token"),
    (O.check_sem, {"mode": "sem", "caps": [0], "scripts": [["A0"], ["S1", "A0"], ["S2", "R0"]]},
     chain(sub("A 0 A 0 0", "A 1 A 0 0"), sub("D 0", "D 1")), "fifo"),
    (O.check_sem, {"mode": "sem", "caps": [1], "scripts": [["A0", "S2", "R0"], ["S1", "T0:3"]]},
     move_before("A 1 T 0 0", "Q 0 R"), "overgrant"),
    (O.check_sem, {"mode": "sem", "caps": [1], "scripts": [["A0", "R0", "C0"], ["S1", "C0"]]},
     sub("C 1 0 1", "C 1 0 2"), "capacity"),
    (O.check_sem, {"mode": "sem", "caps": [0], "scripts": [["T0:1"], ["S2", "R0", "Y", "C0"]]},
     sub("K 0 %.17g 1" % (2 * U), "K 0 %.17g 0" % (2 * U)), "capacity"),     # a timed-out waiter that swallowed the later token
    (O.check_sem, {"mode": "sem", "caps": [0], "scripts": [["A0"], ["S1", "R0"]]},
     drop("A 0 A", "D 0"), "lost-wakeup"),
    (O.check_sem, {"mode": "sem", "caps": [0], "scripts": [["T0:1"], ["S3", "C0"]]},
     drop("A 0 T", "D 0"), "timeout-not-reported"),
    (O.check_cv, {"mode": "cv", "ncv": 1, "scripts": [["F0:3", "U0"], ["S1", "N0"]]},
     sub("A 0 F 0 0", "A 0 F 0 1"), "timeout-despite-notify"),
    (O.check_cv, {"mode": "cv", "ncv": 1, "scripts": [["F0:1", "U0"], ["S2", "N0"]]},
     sub("A 0 F 0 1", "A 0 F 0 0"), "woken-without-notify"),
    (O.check_cv, {"mode": "cv", "ncv": 1, "scripts": [["F0:1", "U0"], ["S2", "N0"]]},
     drop("A 0 F", "Q 0 U", "A 0 U", "D 0"), "timeout-not-reported"),
    (O.check_cv, {"mode": "cv", "ncv": 1, "scripts": [["W0", "U0"], ["S1", "N0"]]},
     sub("A 0 W 0 0 %.17g 1" % U, "A 0 W 0 0 %.17g 0" % U), "return-without-mutex"),
    (O.check_cv, {"mode": "cv", "ncv": 1, "scripts": [["W0", "U0"], ["S1", "W0", "U0"], ["S2", "N0"]]},
     chain(sub("A 0 W 0 0", "A 1 W 0 0"), sub("Q 0 U", "Q 1 U"), sub("A 0 U", "A 1 U"), sub("D 0", "D 1")), "woken-without-notify"),
    (O.check_cv, {"mode": "cv", "ncv": 1, "scripts": [["W0", "U0"], ["W0", "U0"], ["S1", "B0"]]},
     drop("A 1 W", "Q 1 U", "A 1 U", "D 1"), "lost-wakeup"),
    (O.check_cv, {"mode": "cv", "ncv": 1, "scripts": [["W0", "S1", "U0"], ["W0", "U0"], ["S1", "B0"]]},
     move_before("A 1 W", "Q 0 U"), "exclusion"),
    (O.check_cv, {"mode": "cv", "ncv": 1, "scripts": [["F0:2", "U0"], ["S3", "N0"]]},
     sub("A 0 F 0 1 %.17g" % (2 * U), "A 0 F 0 1 %.17g" % U), "early-timeout"),
    (O.check_bar, {"mode": "bar", "sizes": [3], "scripts": [["B0"], ["B0"], ["S1", "B0"]]},
     move_before("A 0 B", "Q 2 B"), "early-release"),
    (O.check_bar, {"mode": "bar", "sizes": [2], "scripts": [["B0"], ["S1", "B0"]]},
     drop("A 0 B", "D 0"), "lost-release"),
    (O.check_bar, {"mode": "bar", "sizes": [2], "scripts": [["B0", "B0"], ["B0"], ["S1", "B0"]]},
     move_before("A 0 B 0 0 %.17g" % U, "Q 2 B"), "early-release"),     # stale group: the third arrival released alone
]


# Hand-written histories with a waiter killed while blocked on a barrier of size 3 (on the unchanged tree such a program crashes the
# simulator, so these cannot be recorded): actor 0 and 1 arrive, actor 2 kills actor 0 and arrives, actor 3 arrives later.
def _h(*ls):
    return "\n".join(ls) + "\n"


_KSC = {"mode": "bar", "sizes": [3], "scripts": [["B0"], ["B0"], ["S1", "X0", "B0"], ["S2", "B0"]]}
_KPRE = ["Q 0 B 0 - 0", "Q 1 B 0 - 0", "Q 2 X 0 - 1", "A 2 X 0 0 1 0", "Q 2 B 0 - 1"]
SYNTHETIC = [
    # (scenario, history, expected rule or None when it must be accepted)
    (_KSC, _h(*_KPRE, "Q 3 B 0 - 2", "A 1 B 0 0 2 0", "D 1", "A 2 B 0 0 2 0", "D 2", "A 3 B 0 1 2 0", "D 3", "END 2"), None),   # the dead one left
    (_KSC, _h(*_KPRE, "A 1 B 0 0 1 0", "D 1", "A 2 B 0 1 1 0", "D 2", "Q 3 B 0 - 2", "END 2"), None),                       # the dead one counts
    (_KSC, _h("Q 0 B 0 - 0", "Q 1 B 0 - 0", "A 1 B 0 0 0 0", "D 1", "Q 2 X 0 - 1", "A 2 X 0 0 1 0", "Q 2 B 0 - 1", "Q 3 B 0 - 2",
              "A 2 B 0 0 2 0", "D 2", "A 3 B 0 1 2 0", "D 3", "END 2"), "early-release"),                                     # released with 2 arrivals
    (_KSC, _h(*_KPRE, "A 1 B 0 0 1 0", "D 1", "A 2 B 0 1 1 0", "D 2", "Q 3 B 0 - 2", "A 3 B 0 0 2 0", "D 3", "END 2"), "early-release"),  # both readings at once
    (_KSC, _h(*_KPRE, "Q 3 B 0 - 2", "A 1 B 0 0 2 0", "D 1", "A 3 B 0 1 2 0", "D 3", "END 2"), "lost-release"),                 # actor 2 forgotten under either reading
]


def main():
    bad = 0
    for sc, hist, rule in SYNTHETIC:
        ctx = FakeCtx()
        ok = O.check_bar(ctx, sc, hist, {})
        if rule is None and (ctx.keys or not ok):
            print("FAIL: compliant history with a killed waiter rejected", ctx.keys, hist)
            bad += 1
        elif rule is not None and (not ctx.keys or rule not in ctx.keys[0]):
            print("FAIL: expected %s, got %r for\n%s" % (rule, ctx.keys, hist))
            bad += 1
        else:
            print("ok   %-28s %s" % (rule or "accepted (killed waiter)", ctx.keys[0] if ctx.keys else ""))
    for chk, sc, corrupt, rule in CASES:
        res, out = G.run_one("hooks", sc)
        ctx = FakeCtx()
        ok = chk(ctx, sc, out, {})
        if ctx.keys or not ok:
            print("FAIL: clean history rejected", sc, ctx.keys, out)
            bad += 1
            continue
        try:
            mod = "\n".join(corrupt(out.splitlines())) + "\n"
        except (AssertionError, IndexError) as e:
            print("FAIL: corruption not applicable", sc, e, out)
            bad += 1
            continue
        ctx = FakeCtx()
        chk(ctx, sc, mod, {})
        if not ctx.keys or rule not in ctx.keys[0]:
            print("FAIL: expected %s, got %r for %s\n%s" % (rule, ctx.keys, sc, mod))
            bad += 1
        else:
            print("ok   %-28s %s" % (rule, ctx.keys[0]))
    print("%d/%d histories judged as expected" % (len(CASES) + len(SYNTHETIC) - bad, len(CASES) + len(SYNTHETIC)))
    return 1 if bad else 0


if __name__ == "__main__":
    sys.exit(main())
