"""Oracle self-test for C13 (cd /verif/lib && python3 -m verif.oracles.dag_selftest): real histories are recorded on the unchanged
tree with harness/dag.cpp, must be accepted, and must be rejected with the expected rule once they are corrupted the way a defective
SimGrid would produce them (successor released too early, start date shifted by 1e-6, start before the assignment, activity never
started / never completed, loader dropping a dependency ...). /repo is never touched."""
import json
import os
import re
import sys
import tempfile

from verif import build, proc
from verif.oracles import dag as O
from verif.props import C13


def record(text, cfg="cm02"):
    exe = build.harness("dag.cpp", "hooks")
    r = proc.run([exe] + C13._args(cfg), stdin=text, timeout=120)
    assert r.rc == 0, r.err[-400:]
    blocks = list(O.split_scenarios(r.out))
    assert len(blocks) == 1 and blocks[0][3], r.out[-300:]
    return blocks[0][2]


def keys(lines, **kw):
    return sorted(set(k for k, _ in O.check(lines, **kw).violations))


def rewrite(lines, fn):
    out = []
    for l in lines:
        n = fn(l)
        if n is None:
            continue
        out.append(n)
    return out


def shift_start(idname, delta):
    """Shift the dates of the start records of an activity (and its get_start_time) by delta."""
    def f(l):
        t = l.split()
        if t and t[0] in ("s", "S") and t[2] == idname:
            t[1] = repr(float(t[1]) + delta)
            if t[0] == "s":
                t[6] = repr(float(t[6]) + delta)
            return " ".join(t)
        if t and t[0] == "F" and t[1] == idname:
            t[6] = repr(float(t[6]) + delta)
            return " ".join(t)
        return l
    return f


def move_start_before_completion_of(lines, succ, pred):
    """Put the start records of succ just before the completion records of pred, dated like the start of pred (released too early)."""
    starts = [l for l in lines if l.split()[0] in ("s", "S") and l.split()[2] == succ]
    pstart = [float(l.split()[1]) for l in lines if l.split()[0] == "s" and l.split()[2] == pred][0]
    rest = [l for l in lines if l not in starts]
    i = [k for k, l in enumerate(rest) if l.split()[0] in ("c", "C") and l.split()[2] == pred][0]
    new = []
    for l in starts:
        t = l.split()
        t[1] = repr(pstart)
        snap_i = 7 if t[0] == "s" else 3
        # the snapshot of that earlier moment: the predecessor is still running
        order = [x.split()[3] for x in lines if x.startswith("Q ") and x.split()[3] == "new"]
        names = [x.split()[4] for x in lines if x.startswith("Q ") and x.split()[3] == "new"]
        snap = list(t[snap_i])
        snap[names.index(pred)] = "S"
        t[snap_i] = "".join(snap)
        if t[0] == "s":
            t[6] = repr(pstart)
        new.append(" ".join(t))
    return rest[:i] + new + rest[i:]


def main():
    ok = True

    def expect(label, got, want_sub):
        nonlocal ok
        hit = [k for k in got if want_sub in k]
        print("%-58s %s %s" % (label, "FIRES " if hit else "SILENT", hit[:2] if hit else got))
        if not hit:
            ok = False

    D = C13.DIRECTED
    # 0. the unmodified histories are accepted
    for name in ("diamond-tie", "fanin6-tie", "zero-chain", "assign-at-veto", "assign-at-finish-date", "assign-later",
                 "seq-wait-delays-completion", "comm-chain-actor", "helper-assigns", "waiter-per-activity", "remove-then-restart"):
        k = keys(record(D[name]))
        print("%-58s %s" % ("unmodified " + name, "accepted" if not k else "REJECTED %s" % k))
        ok = ok and not k

    dia = record(D["diamond-tie"])
    # 1. the join of the diamond is released when its first predecessor... before its predecessors finished
    expect("join started before a predecessor finished", keys(move_start_before_completion_of(dia, "d", "b")), "start-before-pred-finished")
    expect("   (same corruption, date-level rule)", keys(move_start_before_completion_of(dia, "d", "b")), "start-date-before-pred-finish-date")
    # 2. start date shifted by 1e-6 after the latest finish date of the predecessors
    expect("start date of the join shifted by +1e-6", keys(rewrite(dia, shift_start("d", 1e-6))), "start-date-not-latest-pred-finish")
    expect("start date of the join shifted by -1e-6", keys(rewrite(dia, shift_start("d", -1e-6))), "start-date-before-pred-finish-date")
    # 3. start although the resource is not set yet: drop the assignment operation from the history
    expect("exec starts although set_host was never called", keys(rewrite(dia, lambda l: None if l.startswith("Q ") and l.split()[3:5] == ["host", "d"] else l)),
           "start-before-assigned")
    # 4. the last activity never starts
    def never_starts(l):
        t = l.split()
        if t[0] in ("s", "S", "c", "C") and t[2] == "d":
            return None
        if t[0] == "F" and t[1] == "d":
            return "F d STARTING 0 0 1 -1 -1"
        return l
    expect("join never starts (stays STARTING)", keys(rewrite(dia, never_starts)), "never-starts:E")
    # 5. started but never completes
    def never_completes(l):
        t = l.split()
        if t[0] in ("c", "C") and t[2] == "d":
            return None
        if t[0] == "F" and t[1] == "d":
            return "F d STARTED 0 0 1 %s -1" % t[6]
        return l
    expect("join starts but never completes", keys(rewrite(dia, never_completes)), "never-completes:E")
    # 6. get_finish_time of a predecessor after get_start_time of the successor
    def api_dates(l):
        t = l.split()
        if t[0] == "F" and t[1] == "b":
            t[7] = repr(float(t[7]) + 0.5)
            return " ".join(t)
        return l
    expect("get_finish_time(pred) > get_start_time(succ)", keys(rewrite(dia, api_dates)), "get_start_time-before-pred-get_finish_time")
    # 7. start with a non-empty dependency set
    def ndeps(l):
        t = l.split()
        if t[0] == "s" and t[2] == "d":
            t[4] = "1"
            return " ".join(t)
        return l
    expect("start while get_dependencies() is not empty", keys(rewrite(dia, ndeps)), "start-with-unsolved-dependencies")
    # 8. actor-driven: the comm of a chain starts before the exec it depends on has been completed
    ch = record(D["comm-chain-actor"])
    expect("actor mode: comm released before its exec finished", keys(move_start_before_completion_of(ch, "c1", "e1")), "start-before-pred-finished")
    # 9. a failure in a failure-free scenario
    def failed(l):
        t = l.split()
        if t[0] in ("c", "C") and t[2] == "e2":
            t[3] = "FAILED"
            return " ".join(t)
        return l
    expect("an activity completes as FAILED", keys(rewrite(ch, failed)), "unexpected-failure")
    # 10. loader: a dependency of the file is missing in the built DAG
    tmp = tempfile.mkdtemp(prefix="verif-C13-selftest-")
    path = os.path.join(tmp, "d.json")
    with open(path, "w") as f:
        json.dump(C13.DIRECTED_JSON, f)
    js = record(C13.DIRECTED_JSON_TEXT.replace("@FILE@", path))
    os.unlink(path)
    os.rmdir(tmp)
    k0 = keys(js, expected_edges=C13.DIRECTED_JSON_EDGES)
    print("%-58s %s" % ("unmodified json-directed", "accepted" if not k0 else "REJECTED %s" % k0))
    ok = ok and not k0
    def drop_edge(l):
        if l.startswith("G c3 "):
            return l.replace(" c2", "", 1) if " c2" in l else l
        if l.startswith("G c2 "):
            return re.sub(r"\| c3$", "|", l)
        return l
    expect("loader: dependency c2->c3 missing in the DAG", keys(rewrite(js, drop_edge), expected_edges=C13.DIRECTED_JSON_EDGES), "loader-missing-edge")
    # 11. the livelock record
    expect("livelock record", keys(dia[:-3] + ["L 3 d"]), "livelock")
    print("SELFTEST", "OK" if ok else "FAILED")
    return 0 if ok else 1


if __name__ == "__main__":
    sys.exit(main())
