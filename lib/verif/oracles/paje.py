"""Offline validator of Paje trace files (C47).

The %EventDef header is parsed into a table  event id -> (event name, [(field name, field type)]); every other line is
decoded through that table (so the validator follows whatever field order/names the header announces, including the
`tracing/basic` spellings) and replayed through a small model of the Paje entities:

  types      alias -> (kind, parent type alias)              kind in container/variable/state/event/link
  values     alias -> type alias                             (PajeDefineEntityValue)
  containers alias -> [type alias, alive, name, parent]
  state stacks per (container, state type); link keys per (link type, key)

Judged rules (each is one clause of the property statement; `rule` strings are stable and used in violation keys):
  UNDEF_TYPE       a type alias is used (as parent type, container type, event type) before its definition
  TYPE_KIND        a type is used as a kind it was not declared as (e.g. PushState on a variable type)
  UNDEF_VALUE      Push/SetState or NewEvent uses an entity value that was not defined before
  UNDEF_CONTAINER  an event (or a CreateContainer parent, or a link endpoint, or a destroy) names a container never created
  USE_AFTER_DESTROY  any event on / under / destroying a container after its PajeDestroyContainer
  TIME_BACKWARDS   a timestamped line carries a date smaller than a previous timestamped line of the file
  POP_EMPTY        PajePopState on a (container, state type) whose stack is empty (SetState sets the stack to one value,
                   ResetState empties it, as Paje defines)
  UNINTERPRETABLE  unknown event id or a line lacking the fields needed to evaluate the rules above

Observed but not judged (the statement is silent): field-count mismatches that leave the line interpretable, link keys
that do not pair up, non-empty state stacks at the end, container alias redefinition, type not belonging to the
container's type.
"""
import collections
import re

_TOK = re.compile(r'"[^"]*"|\S+')

DEF_KINDS = {
    "PajeDefineContainerType": "container",
    "PajeDefineVariableType": "variable",
    "PajeDefineStateType": "state",
    "PajeDefineEventType": "event",
    "PajeDefineLinkType": "link",
}
# field-name spellings (regular / tracing:basic)
_F_PARENT_TYPE = ("Type", "ContainerType", "EntityType")
_F_START_CT = ("StartContainerType", "SourceContainerType")
_F_END_CT = ("EndContainerType", "DestContainerType")
_F_START_C = ("StartContainer", "SourceContainer")
_F_END_C = ("EndContainer", "DestContainer")

JUDGED = ("UNDEF_TYPE", "TYPE_KIND", "UNDEF_VALUE", "UNDEF_CONTAINER", "USE_AFTER_DESTROY", "TIME_BACKWARDS",
          "POP_EMPTY", "UNINTERPRETABLE")


class Violation:
    """detail = the discriminating features of the violation class (no ids, dates or generated names)."""
    __slots__ = ("rule", "event", "lineno", "msg", "line", "detail")

    def __init__(self, rule, event, lineno, msg, line, detail=""):
        self.rule, self.event, self.lineno, self.msg, self.line, self.detail = rule, event, lineno, msg, line, detail

    @property
    def key(self):
        if self.rule == "TIME_BACKWARDS":
            # two writers can be at fault: the line that was written too early (unbuffered container creation) or the line
            # that comes too late (an event stamped in the past after the buffer was flushed)
            if self.detail == "after=PajeCreateContainer":
                return "TIME_BACKWARDS:after=PajeCreateContainer"
            return "TIME_BACKWARDS:late=" + self.event
        return "%s:%s%s" % (self.rule, self.event, (":" + self.detail) if self.detail else "")

    def as_dict(self):
        return {"rule": self.rule, "event": self.event, "lineno": self.lineno, "msg": self.msg, "line": self.line,
                "detail": self.detail}

    def __repr__(self):
        return "%s@%d[%s] %s | %s" % (self.rule, self.lineno, self.event, self.msg, self.line)


class Report:
    def __init__(self):
        self.violations = []
        self.counts = collections.Counter()     # events per kind
        self.notes = collections.Counter()      # observed-but-not-judged facts
        self.nlines = 0
        self.nevents = 0
        self.max_depth = 0
        self.ncontainers = 0
        self.last_time = None
        self.header_ok = False

    def add(self, rule, event, lineno, msg, line, detail=""):
        self.violations.append(Violation(rule, event, lineno, msg, line, detail))


def tokenize(line):
    return [t[1:-1] if len(t) >= 2 and t[0] == '"' else t for t in _TOK.findall(line)]


def parse_header(lines):
    """Returns (defs, first non-header index). defs: id -> (name, [(field, type)])."""
    defs = {}
    cur = None
    problems = []
    i = 0
    for i, raw in enumerate(lines):
        line = raw.rstrip("\n")
        if not line.strip() or line.startswith("#"):
            continue
        if not line.startswith("%"):
            break
        tok = line[1:].split()
        if not tok:
            continue
        if tok[0] == "EventDef":
            if len(tok) < 3:
                problems.append((i + 1, "malformed %EventDef", line))
                cur = None
                continue
            cur = (tok[1], [])
            if tok[2] in defs:
                problems.append((i + 1, "event id defined twice", line))
            defs[tok[2]] = cur
        elif tok[0] == "EndEventDef":
            cur = None
        else:
            if cur is None or len(tok) < 2:
                problems.append((i + 1, "field outside %EventDef", line))
            else:
                cur[1].append((tok[0], tok[1]))
    else:
        i = len(lines)
    return defs, i, problems


def _get(ev, names):
    for n in names:
        if n in ev:
            return ev[n]
    return None


def validate_lines(lines, max_violations=200):
    rep = Report()
    defs, start, hp = parse_header(lines)
    for ln, msg, line in hp:
        rep.add("UNINTERPRETABLE", "header", ln, msg, line)
    rep.header_ok = bool(defs) and not hp
    types = {"0": ("container", None, "0")}
    values = {}
    conts = {"0": ["0", True, "<root>", None]}
    names = {}
    stacks = collections.defaultdict(list)
    open_links = {}     # (type, key) -> +n starts waiting / -n ends waiting
    last_t = None
    last_t_line = 0
    last_t_event = "?"
    recreated = set()

    def tname(a):
        t = types.get(a)
        return re.sub(r"[0-9]+", "#", t[2]) if t is not None else "?"

    def need_type(a, kind, evname, ln, line, what):
        t = types.get(a)
        if t is None:
            rep.add("UNDEF_TYPE", evname, ln, "%s type %s used before its definition" % (what, a), line, what)
            return None
        if kind is not None and t[0] != kind:
            rep.add("TYPE_KIND", evname, ln, "type %s is a %s type, used as %s (%s)" % (a, t[0], kind, what), line, what)
        return t

    def need_cont(a, evname, ln, line, what):
        key = a if a in conts else names.get(a)
        if key is None:
            rep.add("UNDEF_CONTAINER", evname, ln, "%s container %s was never created" % (what, a), line, what)
            return None
        c = conts[key]
        if not c[1]:
            rep.add("USE_AFTER_DESTROY", evname, ln, "%s container %s (%s) used after its destruction" % (what, a, c[2]),
                    line, "%s:ctype=%s" % (what, tname(c[0])))
        return key

    for idx in range(start, len(lines)):
        if len(rep.violations) >= max_violations:
            rep.notes["truncated"] += 1
            break
        line = lines[idx].rstrip("\n")
        ln = idx + 1
        if not line.strip() or line.startswith("#"):
            continue
        rep.nlines += 1
        if line.startswith("%"):
            rep.add("UNINTERPRETABLE", "header", ln, "header line after the first event", line)
            continue
        f = tokenize(line)
        d = defs.get(f[0])
        if d is None:
            rep.add("UNINTERPRETABLE", "?", ln, "event id %s has no %%EventDef" % f[0], line)
            continue
        name, fields = d
        rep.counts[name] += 1
        rep.nevents += 1
        vals = f[1:]
        if len(vals) != len(fields):
            rep.notes["field_count_mismatch:" + name] += 1
        ev = {k: v for (k, _), v in zip(fields, vals)}
        missing = None

        def req(*alts):
            nonlocal missing
            v = _get(ev, alts)
            if v is None and missing is None:
                missing = alts[0]
            return v

        # ---- time
        if fields and fields[0][0] == "Time" or "Time" in ev:
            ts = ev.get("Time")
            try:
                t = float(ts)
            except (TypeError, ValueError):
                rep.add("UNINTERPRETABLE", name, ln, "unreadable date %r" % ts, line)
                continue
            if t != t:
                rep.add("UNINTERPRETABLE", name, ln, "date is NaN", line)
                continue
            if last_t is not None and t < last_t:
                rep.add("TIME_BACKWARDS", name, ln, "date %s after a line dated %s (line %d)" % (ts, repr(last_t), last_t_line),
                        line, "after=" + last_t_event)
            else:
                last_t, last_t_line, last_t_event = t, ln, name
        # ---- definitions
        if name in DEF_KINDS:
            alias, parent, tyname = req("Alias"), req(*_F_PARENT_TYPE), req("Name")
            if name == "PajeDefineLinkType":
                sct, ect = req(*_F_START_CT), req(*_F_END_CT)
            if missing:
                rep.add("UNINTERPRETABLE", name, ln, "field %s missing" % missing, line)
                continue
            need_type(parent, "container", name, ln, line, "parent")
            if name == "PajeDefineLinkType":
                need_type(sct, "container", name, ln, line, "start-container")
                need_type(ect, "container", name, ln, line, "end-container")
            if alias in types:
                rep.notes["type_alias_redefined"] += 1
            types[alias] = (DEF_KINDS[name], parent, tyname)
        elif name == "PajeDefineEntityValue":
            alias, ty = req("Alias"), req(*_F_PARENT_TYPE)
            if missing:
                rep.add("UNINTERPRETABLE", name, ln, "field %s missing" % missing, line)
                continue
            t = need_type(ty, None, name, ln, line, "value")
            if t is not None and t[0] not in ("state", "event", "link"):
                rep.add("TYPE_KIND", name, ln, "entity value defined on %s type %s" % (t[0], ty), line, "value")
            if alias in values:
                rep.notes["value_alias_redefined"] += 1
            values[alias] = ty
        elif name == "PajeCreateContainer":
            alias, ty, parent, cname = req("Alias"), req("Type"), req("Container"), req("Name")
            if missing:
                rep.add("UNINTERPRETABLE", name, ln, "field %s missing" % missing, line)
                continue
            t = need_type(ty, "container", name, ln, line, "container")
            pkey = need_cont(parent, name, ln, line, "parent")
            if t is not None and pkey is not None and types.get(conts[pkey][0]) is not None and t[1] != conts[pkey][0]:
                rep.notes["container_type_not_child_of_parent_type"] += 1
            if alias in conts and conts[alias][1]:
                rep.notes["container_alias_redefined_while_alive"] += 1
            if cname in names:
                recreated.add(alias)      # same name as an earlier container: SimGrid re-creates the container of a migrating actor/VM
            conts[alias] = [ty, True, cname, pkey]
            names[cname] = alias
            rep.ncontainers += 1
        elif name == "PajeDestroyContainer":
            ty, cname = req("Type"), req("Name")
            if missing:
                rep.add("UNINTERPRETABLE", name, ln, "field %s missing" % missing, line)
                continue
            need_type(ty, "container", name, ln, line, "container")
            key = need_cont(cname, name, ln, line, "destroyed")
            if key is not None and conts[key][1]:
                conts[key][1] = False
                for k in [k for k in stacks if k[0] == key]:
                    if stacks[k]:
                        rep.notes["state_open_at_destroy"] += 1
                    del stacks[k]
        elif name in ("PajeSetVariable", "PajeAddVariable", "PajeSubVariable"):
            ty, c, v = req("Type"), req("Container"), req("Value")
            if missing:
                rep.add("UNINTERPRETABLE", name, ln, "field %s missing" % missing, line)
                continue
            t = need_type(ty, "variable", name, ln, line, "variable")
            key = need_cont(c, name, ln, line, "event")
            try:
                float(v)
            except ValueError:
                rep.add("UNINTERPRETABLE", name, ln, "variable value %r is not a number" % v, line)
            if t is not None and key is not None and t[1] != conts[key][0]:
                rep.notes["type_not_of_container_type"] += 1
        elif name in ("PajeSetState", "PajePushState", "PajePopState", "PajeResetState"):
            ty, c = req("Type"), req("Container")
            v = req("Value") if name in ("PajeSetState", "PajePushState") else None
            if missing:
                rep.add("UNINTERPRETABLE", name, ln, "field %s missing" % missing, line)
                continue
            t = need_type(ty, "state", name, ln, line, "state")
            key = need_cont(c, name, ln, line, "event")
            if v is not None and v not in values:
                rep.add("UNDEF_VALUE", name, ln, "entity value %s used before its definition" % v, line, "type=" + tname(ty))
            if t is not None and key is not None and t[1] != conts[key][0]:
                rep.notes["type_not_of_container_type"] += 1
            sk = (key if key is not None else "?" + c, ty)
            st = stacks[sk]
            if name == "PajePushState":
                st.append(v)
                if len(st) > rep.max_depth:
                    rep.max_depth = len(st)
            elif name == "PajePopState":
                if not st:
                    rep.add("POP_EMPTY", name, ln, "PopState on container %s (%s), state type %s (%s): the stack is empty" %
                            (c, conts[key][2] if key is not None else "?", ty, tname(ty)), line,
                            "type=" + tname(ty) + (":recreated-container" if key in recreated else ""))
                else:
                    st.pop()
            elif name == "PajeSetState":
                del st[:]
                st.append(v)
            else:
                del st[:]
        elif name in ("PajeStartLink", "PajeEndLink"):
            ty, c, k = req("Type"), req("Container"), req("Key")
            ep = req(*(_F_START_C if name == "PajeStartLink" else _F_END_C))
            if missing:
                rep.add("UNINTERPRETABLE", name, ln, "field %s missing" % missing, line)
                continue
            need_type(ty, "link", name, ln, line, "link")
            need_cont(c, name, ln, line, "event")
            need_cont(ep, name, ln, line, "endpoint")
            lk = (ty, k)
            cur = open_links.get(lk, 0)
            if name == "PajeStartLink":
                if cur > 0:
                    rep.notes["link_key_reused"] += 1
                cur += 1
            else:
                if cur < 0:
                    rep.notes["link_key_reused"] += 1
                cur -= 1
            if cur == 0:
                open_links.pop(lk, None)
                rep.notes["links_paired"] += 1
            else:
                open_links[lk] = cur
        elif name == "PajeNewEvent":
            ty, c, v = req("Type"), req("Container"), req("Value")
            if missing:
                rep.add("UNINTERPRETABLE", name, ln, "field %s missing" % missing, line)
                continue
            need_type(ty, "event", name, ln, line, "event")
            need_cont(c, name, ln, line, "event")
            if v not in values:
                rep.add("UNDEF_VALUE", name, ln, "entity value %s used before its definition" % v, line, "type=" + tname(ty))
        else:
            rep.notes["unknown_event_name:" + name] += 1
    rep.last_time = last_t
    rep.notes["links_unpaired_at_end"] += len(open_links)
    rep.notes["state_open_at_end"] += sum(1 for v in stacks.values() if v)
    rep.notes["containers_alive_at_end"] += sum(1 for k, c in conts.items() if c[1] and k != "0")
    return rep


def validate_file(path, max_violations=200):
    with open(path, errors="replace") as f:
        lines = f.readlines()
    return validate_lines(lines, max_violations), lines
