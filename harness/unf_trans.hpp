// Private copy of mctrans.hpp for unf.cpp (C44) - same grammar. Builds *real* checker-side Transition objects from a one-line textual
// description, through the same path the checker uses (Channel::reinject + deserialize_transition).
// Needs internal=True (-std=gnu++20 -fno-access-control, /repo on the include path).
//
// Grammar (whitespace separated tokens):   <aid> <times_considered> <KIND> <args...>
//   ML|MW|MU|MT|Mt  <mutex> <owner|-1>            MUTEX_ASYNC_LOCK / _WAIT / _UNLOCK / _TRYLOCK / _TEST
//   SL|SU|SW        <sem> <granted 0|1> <capacity>
//   BL|BW           <barrier>
//   CL <cv> <mutex>   CW <cv> <mutex> <granted> <timeout>   CS <cv>   CB <cv>
//   RV|SD <comm> <mbox> <tag>      IP <mbox> <is_sender> <tag>
//   TS <comm> <sender|-1> <receiver|-1> <mbox>      WT <timeout> <comm> <sender|-1> <receiver|-1> <mbox>
//   AJ <target> <timeout>   AE   AS   AC <child>   RN <min> <max>
//   TA <k> { TS-args }*k    WA <k> { WT-args }*k      (times_considered selects the current sub-transition)
#pragma once
#include "src/mc/remote/Channel.hpp"
#include "src/mc/transition/Transition.hpp"
#include "src/mc/transition/TransitionActor.hpp"
#include "src/mc/transition/TransitionAny.hpp"
#include "src/mc/transition/TransitionComm.hpp"
#include "src/mc/transition/TransitionRandom.hpp"
#include "src/mc/transition/TransitionSynchro.hpp"
#include <cstdio>
#include <cstdlib>
#include <sstream>
#include <string>

namespace vt {
using namespace simgrid::mc;
using Type = Transition::Type;

// A Channel holds two 1 MiB buffers: two of them are allocated once (default-initialised: no memset) and reused.
struct Packer {
  static Channel& tmp()
  {
    static Channel* c = new Channel;
    return *c;
  }
  static Channel& in()
  {
    static Channel* c = new Channel;
    return *c;
  }
  Packer() { tmp().buffer_out_size_ = 0; }
  template <class T> void p(T v) { tmp().pack<T>(v); }
  Transition* finish(int aid, int tc)
  {
    in().buffer_in_next_ = in().buffer_in_size_ = 0;
    in().reinject(tmp().buffer_out_, tmp().buffer_out_size_);
    tmp().buffer_out_size_ = 0;
    Transition* t        = deserialize_transition(Aid(aid), tc, in());
    if (in().buffer_in_size_ != 0) {
      fprintf(stderr, "HARNESS: %zu bytes of the serialised transition were not consumed\n", in().buffer_in_size_);
      exit(3);
    }
    return t;
  }
};

static inline long rd(std::istream& is)
{
  long v;
  if (!(is >> v)) {
    fprintf(stderr, "HARNESS: bad transition description (number expected)\n");
    exit(3);
  }
  return v;
}

static inline void pack_test(Packer& P, std::istream& is)
{
  P.p(Type::COMM_TEST);
  P.p((unsigned)rd(is));
  P.p((aid_t)rd(is));
  P.p((aid_t)rd(is));
  P.p((unsigned)rd(is));
  P.p(std::string("t"));
}
static inline void pack_wait(Packer& P, std::istream& is)
{
  P.p(Type::COMM_WAIT);
  P.p((bool)rd(is));
  P.p((unsigned)rd(is));
  P.p((aid_t)rd(is));
  P.p((aid_t)rd(is));
  P.p((unsigned)rd(is));
  P.p(std::string("w"));
}

// Reads one transition description from the stream
static inline Transition* parse(std::istream& is)
{
  int aid = rd(is), tc = rd(is);
  std::string k;
  is >> k;
  Packer P;
  auto mutex = [&](Type t) { P.p(t); P.p((unsigned)rd(is)); P.p((aid_t)rd(is)); };
  auto sem   = [&](Type t) { P.p(t); P.p((unsigned)rd(is)); P.p((bool)rd(is)); P.p((int)rd(is)); };
  if (k == "ML") mutex(Type::MUTEX_ASYNC_LOCK);
  else if (k == "MW") mutex(Type::MUTEX_WAIT);
  else if (k == "MU") mutex(Type::MUTEX_UNLOCK);
  else if (k == "MT") mutex(Type::MUTEX_TRYLOCK);
  else if (k == "Mt") mutex(Type::MUTEX_TEST);
  else if (k == "SL") sem(Type::SEM_ASYNC_LOCK);
  else if (k == "SU") sem(Type::SEM_UNLOCK);
  else if (k == "SW") sem(Type::SEM_WAIT);
  else if (k == "BL") { P.p(Type::BARRIER_ASYNC_LOCK); P.p((unsigned)rd(is)); }
  else if (k == "BW") { P.p(Type::BARRIER_WAIT); P.p((unsigned)rd(is)); }
  else if (k == "CL") { P.p(Type::CONDVAR_ASYNC_LOCK); P.p((unsigned)rd(is)); P.p((unsigned)rd(is)); }
  else if (k == "CW") { P.p(Type::CONDVAR_WAIT); P.p((unsigned)rd(is)); P.p((unsigned)rd(is)); P.p((bool)rd(is)); P.p((bool)rd(is)); }
  else if (k == "CS") { P.p(Type::CONDVAR_SIGNAL); P.p((unsigned)rd(is)); }
  else if (k == "CB") { P.p(Type::CONDVAR_BROADCAST); P.p((unsigned)rd(is)); }
  else if (k == "RV" || k == "SD") {
    P.p(k == "RV" ? Type::COMM_ASYNC_RECV : Type::COMM_ASYNC_SEND);
    P.p((unsigned)rd(is)); P.p((unsigned)rd(is)); P.p((int)rd(is)); P.p(std::string("c"));
  }
  else if (k == "IP") { P.p(Type::COMM_IPROBE); P.p((unsigned)rd(is)); P.p((bool)rd(is)); P.p((int)rd(is)); }
  else if (k == "TS") pack_test(P, is);
  else if (k == "WT") pack_wait(P, is);
  else if (k == "AJ") { P.p(Type::ACTOR_JOIN); P.p((aid_t)rd(is)); P.p((bool)rd(is)); }
  else if (k == "AE") { P.p(Type::ACTOR_EXIT); }
  else if (k == "AS") { P.p(Type::ACTOR_SLEEP); }
  else if (k == "AC") { P.p(Type::ACTOR_CREATE); P.p((aid_t)rd(is)); }
  else if (k == "RN") { P.p(Type::RANDOM); P.p((int)rd(is)); P.p((int)rd(is)); }
  else if (k == "TA" || k == "WA") {
    P.p(k == "TA" ? Type::TESTANY : Type::WAITANY);
    unsigned n = rd(is);
    P.p(n);
    for (unsigned i = 0; i < n; i++) {
      if (k == "TA") pack_test(P, is); else pack_wait(P, is);
    }
    P.p(std::string("a"));
  } else {
    fprintf(stderr, "HARNESS: unknown transition kind '%s'\n", k.c_str());
    exit(3);
  }
  return P.finish(aid, tc);
}
} // namespace vt
