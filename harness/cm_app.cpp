// C39 / C43 application side: interpreter ("VM") of small synchronisation programs, meant to run under the checker-side
// harness cm_chk.cpp (which forks it through mc::RemoteApp, exactly as simgrid-mc does).
//
// It appends to the file $VERIF_CM_LOG, one write(2) per record (the checker harness appends to the same file; since the
// protocol is synchronous the file order is the causal order):
//   X <pid> <times> | <intent> | <observer view> | <last result>
//        from the SIMGRID_VERIF hook on_mc_executed, i.e. right after the kernel handled the simcall:
//        <intent>        what the program asked for, in its own words (op code + the ids of the s4u objects it used, read
//                        through the s4u objects' implementation pointers) -- set by the actor *before* it issued the call;
//        <observer view> the fields of the simcall observer, read member by member (NOT through Observer::serialize), in
//                        the same "TYPE k=v ..." format in which cm_chk prints the fields of the decoded Transition;
//        <last result>   what the previous call of this actor returned (e.g. the id of the comm created by put_async).
//   S <fingerprint>
//        from the hook on_mc_quiescent (every time the checker asks for the actors' status): VM state of each actor
//        (position, observation vector) + state of every kernel synchronisation object (owner and FIFO queues, semaphore
//        value, condvar waiters, barrier population, mailbox queues, pending comm slots) + each actor's pending simcall.
//
// usage: cm_app <spec-file> [simgrid options]
// Spec:   mutex <n> | sem <init> ... | cond <n> | barrier <count> ... | mbox <n> | mq <n> | actor <op>... | dyn <op>...
// Ops:
//   L<m> lock   U<m> unlock (skipped unless held)   T<m> try_lock (obs t<m>)
//   P<s> acquire   p<s> acquire_timeout(1.0) (obs p<s>=1 on timeout)   V<s> release
//   W<c>.<m> cond wait (skipped unless m held)   w<c>.<m> cond wait_for 1.0 (obs w<c>)   N<c> notify_one   A<c> notify_all
//   R<b> barrier wait
//   S<x>.<v> put   G<x> get (obs g<x>=v)   s<x>.<v> put_async (new slot)   d<x>.<v> detached put   r<x> get_async (new slot)
//   c<i> wait slot i   C<i> wait_for(slot i, 10.0)   t<i> test slot i (obs t)   a wait_any over the pending slots (obs a=slot)
//   y test_any over the pending slots (obs y=slot|-1)   z test_any over an empty set (obs z=-1)
//   b<x>.<k> iprobe mailbox x (k=0: is there a send? k=1: a receive?) with tag (obs b<x>)
//   J<a> join (skipped unless created)   j<a> join(1.0)   K<d> create dyn actor d   Q<lo>.<hi> MC_random (obs q)
//   M<q>.<v> MessageQueue put   m<q> MessageQueue get (obs m<q>=v)
//   I<n> skip the next n ops if the last observed value is 0     Y sleep     X exit
// When an actor ends it releases the mutexes it still holds and waits for its pending comm slots.
#include <simgrid/modelchecker.h>
#include <simgrid/s4u.hpp>
#include <simgrid/s4u/ActivitySet.hpp>
#include <simgrid/s4u/MessageQueue.hpp>

#include "src/kernel/EngineImpl.hpp"
#include "src/kernel/activity/BarrierImpl.hpp"
#include "src/kernel/activity/CommImpl.hpp"
#include "src/kernel/activity/ConditionVariableImpl.hpp"
#include "src/kernel/activity/MailboxImpl.hpp"
#include "src/kernel/activity/MessageQueueImpl.hpp"
#include "src/kernel/activity/MutexImpl.hpp"
#include "src/kernel/activity/SemaphoreImpl.hpp"
#include "src/kernel/actor/ActorImpl.hpp"
#include "src/kernel/actor/CommObserver.hpp"
#include "src/kernel/actor/SimcallObserver.hpp"
#include "src/kernel/actor/SynchroObserver.hpp"
#include "src/kernel/actor/WaitTestObserver.hpp"
#include "src/mc/transition/Transition.hpp"
#include "src/smpi/include/smpi_request.hpp"
#include "src/verif_hooks.hpp"

#include <cstdio>
#include <cstring>
#include <fcntl.h>
#include <fstream>
#include <set>
#include <sstream>
#include <unistd.h>
#include <vector>

namespace sg4 = simgrid::s4u;
namespace ka  = simgrid::kernel::actor;
namespace kv  = simgrid::kernel::activity;
using TT      = simgrid::mc::Transition::Type;

struct Op {
  char k;
  int a = 0, b = 0;
};
struct ActorSpec {
  bool dyn = false;
  std::vector<Op> ops;
};
struct Slot {
  sg4::CommPtr comm;
  bool recv    = false;
  bool pending = true;
  int mbox     = 0;
  long* buf    = nullptr;
};
struct AState {
  int pc       = 0;
  bool created = false;
  bool done    = false;
  long pid     = -1;
  std::string obs;
  std::string intent = "-";
  std::string result = "-";
  int step           = 0; // number of simcalls already executed on behalf of the current call
  sg4::ActorPtr ref;
  std::vector<Slot> slots;
};

static std::vector<ActorSpec> spec;
static std::vector<AState> st;
static std::vector<sg4::MutexPtr> mutexes;
static std::vector<sg4::SemaphorePtr> sems;
static std::vector<sg4::ConditionVariablePtr> conds;
static std::vector<sg4::BarrierPtr> barriers;
static std::vector<sg4::Mailbox*> mboxes;
static std::vector<sg4::MessageQueue*> mqs;
static std::vector<sg4::Host*> hosts;
static int log_fd = -1;
static int iprobe_tag = 0;

static void emit(const std::string& r)
{
  if (log_fd >= 0 && write(log_fd, r.c_str(), r.size()) < 0)
    perror("write VERIF_CM_LOG");
}
static std::string S(long v)
{
  return std::to_string(v);
}
static std::string esc(std::string s)
{
  for (auto& c : s)
    if (c == ' ' || c == '|' || c == '\n')
      c = '_';
  return s.empty() ? "-" : s;
}
static long pid_of(const ka::ActorImpl* a)
{
  return a == nullptr ? -1 : a->get_pid();
}

// ------------------------------------------------------------------------------------------------------------------
// The observer as the application built it, member by member
static std::string view_test(const kv::ActivityImpl* act, const std::string& loc)
{
  if (const auto* c = dynamic_cast<const kv::CommImpl*>(act))
    return "COMM_TEST comm=" + S(c->id_) + " src=" + S(pid_of(c->src_actor_.get())) + " dst=" + S(pid_of(c->dst_actor_.get())) +
           " mbox=" + S(c->mbox_id_) + " loc=" + esc(loc);
  return "UNKNOWN";
}
static std::string view_wait(const kv::ActivityImpl* act, double timeout, const std::string& loc)
{
  if (const auto* c = dynamic_cast<const kv::CommImpl*>(act))
    return std::string("COMM_WAIT timeout=") + (timeout > 0 ? "1" : "0") + " comm=" + S(c->id_) +
           " src=" + S(pid_of(c->src_actor_.get())) + " dst=" + S(pid_of(c->dst_actor_.get())) + " mbox=" + S(c->mbox_id_) +
           " loc=" + esc(loc);
  return "UNKNOWN";
}

static std::string observer_view(ka::SimcallObserver* o)
{
  if (o == nullptr)
    return "NONE";
  if (auto* r = dynamic_cast<ka::RandomSimcall*>(o))
    return "RANDOM min=" + S(r->min_) + " max=" + S(r->max_);
  if (auto* j = dynamic_cast<ka::ActorJoinSimcall*>(o))
    return "ACTOR_JOIN target=" + S(j->other_->get_pid()) + " timeout=" + (j->timeout_ > 0 ? "1" : "0");
  if (dynamic_cast<ka::ActorExitSimcall*>(o))
    return "ACTOR_EXIT";
  if (dynamic_cast<ka::ActorSleepSimcall*>(o))
    return "ACTOR_SLEEP";
  if (auto* c = dynamic_cast<ka::ActorCreateSimcall*>(o))
    return "ACTOR_CREATE child=" + S(c->child_);
  if (auto* m = dynamic_cast<ka::MutexObserver*>(o))
    return std::string(simgrid::mc::Transition::to_c_str(m->type_)) + " mutex=" + S(m->mutex_->id_) +
           " owner=" + S(pid_of(m->mutex_->owner_.get()));
  if (auto* m = dynamic_cast<ka::MutexAcquisitionObserver*>(o))
    return std::string(simgrid::mc::Transition::to_c_str(m->type_)) + " mutex=" + S(m->acquisition_->mutex_->id_) +
           " owner=" + S(pid_of(m->acquisition_->mutex_->owner_.get()));
  if (auto* s = dynamic_cast<ka::SemaphoreObserver*>(o))
    return std::string(simgrid::mc::Transition::to_c_str(s->type_)) + " sem=" + S(s->sem_->id_) + " granted=0 capacity=" +
           S((long)s->sem_->value_ - (long)s->sem_->ongoing_acquisitions_.size());
  if (auto* s = dynamic_cast<ka::SemaphoreAcquisitionObserver*>(o))
    return std::string(simgrid::mc::Transition::to_c_str(s->type_)) + " sem=" + S(s->acquisition_->semaphore_->id_) +
           " granted=" + S(s->acquisition_->granted_) + " capacity=" + S((long)s->acquisition_->semaphore_->value_);
  if (auto* b = dynamic_cast<ka::BarrierObserver*>(o))
    return std::string(simgrid::mc::Transition::to_c_str(b->type_)) +
           " bar=" + S(b->barrier_ != nullptr ? b->barrier_->id_ : b->acquisition_->barrier_->id_);
  if (auto* c = dynamic_cast<ka::ConditionVariableObserver*>(o)) {
    std::string r = simgrid::mc::Transition::to_c_str(c->type_);
    if (c->type_ == TT::CONDVAR_ASYNC_LOCK)
      return r + " cond=" + S(c->cond_->id_) + " mutex=" + S(c->mutex_->id_);
    if (c->type_ == TT::CONDVAR_WAIT)
      return r + " cond=" + S(c->acquisition_->cond_->id_) + " mutex=" + S(c->acquisition_->mutex_->id_) +
             " granted=" + S(c->acquisition_->granted_) + " timeout=" + (c->timeout_ > 0 ? "1" : "0");
    return r + " cond=" + S(c->cond_->id_);
  }
  if (auto* s = dynamic_cast<ka::CommIsendSimcall*>(o))
    return "COMM_ASYNC_SEND comm=" + S(s->comm_ ? s->comm_->id_ : 0) + " mbox=" + S(s->mbox_->id_) + " tag=" + S(s->tag_) +
           " loc=" + esc(s->fun_call_);
  if (auto* r = dynamic_cast<ka::CommIrecvSimcall*>(o))
    return "COMM_ASYNC_RECV comm=" + S(r->comm_ ? r->comm_->id_ : 0) + " mbox=" + S(r->mbox_->id_) + " tag=" + S(r->tag_) +
           " loc=" + esc(r->fun_call_);
  if (auto* p = dynamic_cast<ka::IprobeSimcall*>(o))
    return "COMM_IPROBE mbox=" + S(p->mbox_->id_) + " sender=" + (p->kind_ == sg4::Mailbox::IprobeKind::SEND ? "1" : "0") +
           " tag=" + S(p->tag_);
  if (auto* t = dynamic_cast<ka::ActivityTestSimcall*>(o))
    return view_test(t->activity_, t->fun_call_);
  if (auto* w = dynamic_cast<ka::ActivityWaitSimcall*>(o))
    return view_wait(w->activity_, w->timeout_, w->fun_call_);
  if (auto* t = dynamic_cast<ka::ActivityTestanySimcall*>(o)) {
    std::string r = "TESTANY n=" + S(t->activities_.size()) + " loc=" + esc(t->fun_call_) + " value=" + S(t->next_value_);
    for (auto* a : t->activities_)
      r += " { " + view_test(a, t->fun_call_) + " }";
    return r;
  }
  if (auto* w = dynamic_cast<ka::ActivityWaitanySimcall*>(o)) {
    std::string r = "WAITANY n=" + S(w->activities_.size()) + " loc=" + esc(w->fun_call_) + " value=" + S(w->next_value_);
    for (auto* a : w->activities_)
      r += " { " + view_wait(a, w->timeout_, w->fun_call_) + " }";
    return r;
  }
  if (auto* m = dynamic_cast<ka::MessIputSimcall*>(o))
    return "MESS_PUT queue=" + esc(m->queue_->get_name());
  if (auto* m = dynamic_cast<ka::MessIgetSimcall*>(o))
    return "MESS_GET queue=" + esc(m->queue_->get_name());
  return std::string("OTHER ") + esc(o->to_string());
}

// ------------------------------------------------------------------------------------------------------------------
// Which side created the CommImpl (its "type") and whether a matched comm is still RUNNING or already DONE are artefacts
// under the model checker (a matched comm is declared DONE by the first is_enabled()/test() evaluation that meets it): a
// comm is described by its two parties only.
static std::string comm_desc(const kv::CommImpl* c)
{
  return "comm=" + S(c->id_) + ":" + S(pid_of(c->src_actor_.get())) + ">" + S(pid_of(c->dst_actor_.get())) +
         (c->is_detached() ? ":det" : "");
}

// same evaluation as mc::actor_is_enabled (a hidden symbol of libsimgrid)
static bool my_actor_is_enabled(ka::ActorImpl* actor)
{
  if (actor->simcall_.observer_ != nullptr)
    return actor->simcall_.observer_->is_enabled();
  return actor->simcall_.call_ != ka::Simcall::Type::NONE;
}

static std::string fingerprint()
{
  std::string s;
  for (size_t i = 0; i < st.size(); i++) {
    const AState& A = st[i];
    s += "a" + S(i) + ":";
    if (not A.created)
      s += "N";
    else if (A.done)
      s += "D";
    else
      s += "B" + S(A.pc);
    s += ":" + A.obs + ":";
    for (size_t k = 0; k < A.slots.size(); k++)
      if (A.slots[k].pending && A.slots[k].comm)
        s += "s" + S(k) + "=" + comm_desc(static_cast<kv::CommImpl*>(A.slots[k].comm->get_impl())) + ",";
    s += " ";
  }
  for (size_t i = 0; i < mutexes.size(); i++) {
    auto* m = mutexes[i]->pimpl_;
    s += "M" + S(i) + ":o=" + S(pid_of(m->owner_.get())) + ":q=";
    for (auto const& acq : m->ongoing_acquisitions_)
      s += S(pid_of(acq->get_issuer())) + ",";
    s += " ";
  }
  for (size_t i = 0; i < sems.size(); i++) {
    auto* m = sems[i]->pimpl_;
    s += "E" + S(i) + ":v=" + S(m->value_) + ":q=";
    for (auto const& acq : m->ongoing_acquisitions_)
      s += S(pid_of(acq->get_issuer())) + (acq->granted_ ? "+" : "-") + ",";
    s += " ";
  }
  for (size_t i = 0; i < conds.size(); i++) {
    auto* m = conds[i]->pimpl_;
    s += "V" + S(i) + ":q=";
    for (auto const& acq : m->ongoing_acquisitions_)
      s += S(pid_of(acq->get_issuer())) + "/" + S(acq->mutex_->id_) + (acq->granted_ ? "+" : "-") + ",";
    s += " ";
  }
  for (size_t i = 0; i < barriers.size(); i++) {
    auto* m = barriers[i]->pimpl_;
    std::set<std::string> w; // the order of the waiters of a barrier has no consequence: canonical order
    for (auto const& acq : m->ongoing_acquisitions_)
      w.insert(S(pid_of(acq->get_issuer())) + (acq->granted_ ? "+" : "-"));
    s += "R" + S(i) + ":w=";
    for (auto const& x : w)
      s += x + ",";
    s += " ";
  }
  for (size_t i = 0; i < mboxes.size(); i++) {
    auto* m = mboxes[i]->get_impl();
    s += "B" + S(i) + ":q=";
    for (auto const& c : m->comm_queue_)
      s += comm_desc(c.get()) + ",";
    s += " ";
  }
  // pending simcall of every actor, as the application describes it
  for (auto const& [pid, actor] : simgrid::kernel::EngineImpl::get_instance()->get_actor_list()) {
    auto* o = actor->simcall_.observer_;
    s += "p" + S(pid) + ":" + (my_actor_is_enabled(actor) ? "en" : "dis") + ":" + observer_view(o) + " ; ";
  }
  return s;
}

static void hook_executed(ka::ActorImpl* actor, int times)
{
  std::string intent = "?", result = "?";
  for (auto& A : st)
    if (A.created && A.pid == actor->get_pid()) {
      intent = "step=" + S(A.step++) + " " + A.intent;
      result = A.result;
    }
  emit("X " + S(actor->get_pid()) + " " + S(times) + " | " + intent + " | " + observer_view(actor->simcall_.observer_) + " | " +
       result + "\n");
}

static void hook_quiescent()
{
  emit("S " + fingerprint() + "\n");
}

// ------------------------------------------------------------------------------------------------------------------
static void body(int me);

static void start_actor(int idx)
{
  AState& A = st[idx];
  auto a    = hosts[idx % hosts.size()]->add_actor("a" + std::to_string(idx), [idx]() { body(idx); });
  A.ref     = a;
  A.pid     = a->get_pid();
  A.created = true;
}

static long comm_id(const sg4::CommPtr& c)
{
  return c && c->get_impl() ? static_cast<kv::CommImpl*>(c->get_impl())->id_ : 0;
}

static void body(int me)
{
  AState& A = st[me];
  std::set<int> heldm;
  long last       = 0;
  auto const& ops = spec[me].ops;
  auto& slots     = A.slots;
  slots.reserve(ops.size() + 1);
  auto obs = [&A, &last](const std::string& name, long v) {
    A.obs += name + "=" + std::to_string(v) + ",";
    last = v;
  };
  auto intent = [&A](const std::string& op, const std::string& params) {
    A.intent = "pc=" + S(A.pc) + " op=" + op + " " + params;
    A.step   = 0;
  };
  auto completed = [&](int i) {
    Slot& sl   = slots[i];
    sl.pending = false;
    if (sl.recv && sl.buf != nullptr) {
      obs("g" + std::to_string(sl.mbox), *sl.buf);
      delete sl.buf;
      sl.buf = nullptr;
    }
  };
  auto pending_set = [&](sg4::ActivitySet& set, std::string& desc) {
    int n = 0;
    for (size_t i = 0; i < slots.size(); i++)
      if (slots[i].pending) {
        set.push(slots[i].comm);
        desc += (n++ ? "," : "") + S(comm_id(slots[i].comm));
      }
    return n;
  };
  auto slot_of = [&](const sg4::ActivityPtr& a) {
    for (size_t i = 0; i < slots.size(); i++)
      if (slots[i].pending && slots[i].comm.get() == a.get())
        return (int)i;
    return -1;
  };
  auto unlock = [&](int m) {
    heldm.erase(m);
    intent("U", "mutex=" + S(mutexes[m]->pimpl_->id_));
    mutexes[m]->unlock();
    A.result = "-";
  };
  auto wait_slot = [&](int i, bool timed) {
    intent(timed ? "C" : "c", "comm=" + S(comm_id(slots[i].comm)) + " mbox=" + S(mboxes[slots[i].mbox]->get_impl()->id_) +
                                  " timeout=" + (timed ? "1" : "0"));
    if (timed)
      slots[i].comm->wait_for(10.0);
    else
      slots[i].comm->wait();
    A.result = "-";
    completed(i);
  };
  auto epilogue = [&]() {
    A.pc = (int)ops.size();
    while (not heldm.empty())
      unlock(*heldm.begin());
    for (size_t i = 0; i < slots.size(); i++)
      if (slots[i].pending)
        wait_slot((int)i, false);
    A.intent = "pc=" + S(A.pc) + " op=end";
  };
  for (A.pc = 0; A.pc < (int)ops.size(); A.pc++) {
    const Op& o = ops[A.pc];
    switch (o.k) {
      case 'L':
        intent("L", "mutex=" + S(mutexes[o.a]->pimpl_->id_));
        mutexes[o.a]->lock();
        heldm.insert(o.a);
        A.result = "-";
        break;
      case 'U':
        if (heldm.count(o.a))
          unlock(o.a);
        break;
      case 'T': {
        intent("T", "mutex=" + S(mutexes[o.a]->pimpl_->id_));
        bool ok = mutexes[o.a]->try_lock();
        if (ok)
          heldm.insert(o.a);
        A.result = "-";
        obs("t" + std::to_string(o.a), ok);
        break;
      }
      case 'P':
        intent("P", "sem=" + S(sems[o.a]->pimpl_->id_));
        sems[o.a]->acquire();
        A.result = "-";
        break;
      case 'p': {
        intent("p", "sem=" + S(sems[o.a]->pimpl_->id_));
        bool to  = sems[o.a]->acquire_timeout(1.0);
        A.result = "-";
        obs("p" + std::to_string(o.a), to);
        break;
      }
      case 'V':
        intent("V", "sem=" + S(sems[o.a]->pimpl_->id_));
        sems[o.a]->release();
        A.result = "-";
        break;
      case 'W':
        if (heldm.count(o.b)) {
          intent("W", "cond=" + S(conds[o.a]->pimpl_->id_) + " mutex=" + S(mutexes[o.b]->pimpl_->id_) + " timeout=0");
          conds[o.a]->wait(mutexes[o.b]);
          A.result = "-";
        }
        break;
      case 'w':
        if (heldm.count(o.b)) {
          intent("w", "cond=" + S(conds[o.a]->pimpl_->id_) + " mutex=" + S(mutexes[o.b]->pimpl_->id_) + " timeout=1");
          auto r   = conds[o.a]->wait_for(mutexes[o.b], 1.0);
          A.result = "-";
          obs("w" + std::to_string(o.a), r == std::cv_status::timeout);
        }
        break;
      case 'N':
        intent("N", "cond=" + S(conds[o.a]->pimpl_->id_));
        conds[o.a]->notify_one();
        A.result = "-";
        break;
      case 'A':
        intent("A", "cond=" + S(conds[o.a]->pimpl_->id_));
        conds[o.a]->notify_all();
        A.result = "-";
        break;
      case 'R':
        intent("R", "bar=" + S(barriers[o.a]->pimpl_->id_));
        barriers[o.a]->wait();
        A.result = "-";
        break;
      case 'S':
        intent("S", "mbox=" + S(mboxes[o.a]->get_impl()->id_));
        mboxes[o.a]->put(new long(o.b), 100);
        A.result = "-";
        break;
      case 'G': {
        intent("G", "mbox=" + S(mboxes[o.a]->get_impl()->id_));
        long* p  = mboxes[o.a]->get<long>();
        A.result = "-";
        obs("g" + std::to_string(o.a), *p);
        delete p;
        break;
      }
      case 's': {
        Slot sl;
        sl.mbox = o.a;
        intent("s", "mbox=" + S(mboxes[o.a]->get_impl()->id_));
        sl.comm = mboxes[o.a]->put_async(new long(o.b), 100);
        slots.push_back(sl);
        A.result = "comm=" + S(comm_id(slots.back().comm));
        break;
      }
      case 'd': {
        intent("d", "mbox=" + S(mboxes[o.a]->get_impl()->id_));
        auto c   = mboxes[o.a]->put_init(new long(o.b), 100);
        c->detach();
        A.result = "-"; // the comm of a detached send is not accessible to the program any more
        break;
      }
      case 'r': {
        Slot sl;
        sl.mbox = o.a;
        sl.recv = true;
        slots.push_back(sl);
        intent("r", "mbox=" + S(mboxes[o.a]->get_impl()->id_));
        slots.back().comm = mboxes[o.a]->get_async<long>(&slots.back().buf);
        A.result          = "comm=" + S(comm_id(slots.back().comm));
        break;
      }
      case 'c':
      case 'C':
        if (o.a < (int)slots.size() && slots[o.a].pending)
          wait_slot(o.a, o.k == 'C');
        break;
      case 't':
        if (o.a < (int)slots.size() && slots[o.a].pending) {
          intent("t", "comm=" + S(comm_id(slots[o.a].comm)) + " mbox=" + S(mboxes[slots[o.a].mbox]->get_impl()->id_));
          bool ok  = slots[o.a].comm->test();
          A.result = "-";
          obs("t", ok);
          if (ok)
            completed(o.a);
        }
        break;
      case 'a': {
        sg4::ActivitySet set;
        std::string desc;
        if (pending_set(set, desc) > 0) {
          intent("a", "comms=" + desc);
          auto done = set.wait_any();
          A.result  = "-";
          int i     = slot_of(done);
          obs("a", i);
          if (i >= 0)
            completed(i);
        }
        break;
      }
      case 'y': {
        sg4::ActivitySet set;
        std::string desc;
        if (pending_set(set, desc) > 0) {
          intent("y", "comms=" + desc);
          auto done = set.test_any();
          A.result  = "-";
          int i     = done ? slot_of(done) : -1;
          obs("y", i);
          if (i >= 0)
            completed(i);
        }
        break;
      }
      case 'z': {
        sg4::ActivitySet set;
        intent("y", "comms=");
        auto done = set.test_any();
        A.result  = "-";
        obs("z", done ? 0 : -1);
        break;
      }
      case 'b': {
        // Mailbox::iprobe hands its `data` to the observer as the smpi::Request whose tag is read: give it one
        static simgrid::smpi::Request* fake = nullptr;
        if (fake == nullptr) {
          fake = static_cast<simgrid::smpi::Request*>(calloc(1, sizeof(simgrid::smpi::Request)));
        }
        fake->tag_ = iprobe_tag + o.a;
        intent("b", "mbox=" + S(mboxes[o.a]->get_impl()->id_) + " sender=" + (o.b == 0 ? "1" : "0") + " tag=" + S(fake->tag_));
        auto found = mboxes[o.a]->iprobe(o.b == 0 ? sg4::Mailbox::IprobeKind::SEND : sg4::Mailbox::IprobeKind::RECV,
                                         [](void*, void*, kv::CommImpl*) { return true; }, fake);
        A.result   = "-";
        obs("b" + std::to_string(o.a), found != nullptr);
        break;
      }
      case 'J':
      case 'j':
        if (st[o.a].created && o.a != me) {
          intent(std::string(1, o.k), "target=" + S(st[o.a].pid) + " timeout=" + (o.k == 'j' ? "1" : "0"));
          if (o.k == 'j')
            st[o.a].ref->join(1.0);
          else
            st[o.a].ref->join();
          A.result = "-";
        }
        break;
      case 'K':
        if (not st[o.a].created) {
          intent("K", "");
          start_actor(o.a);
          A.result = "child=" + S(st[o.a].pid);
        }
        break;
      case 'Q': {
        intent("Q", "min=" + S(o.a) + " max=" + S(o.b));
        int v    = MC_random(o.a, o.b);
        A.result = "-";
        obs("q", v);
        break;
      }
      case 'M':
        intent("M", "queue=" + esc(mqs[o.a]->get_name()));
        mqs[o.a]->put(new long(o.b));
        A.result = "-";
        break;
      case 'm': {
        intent("m", "queue=" + esc(mqs[o.a]->get_name()));
        long* p  = mqs[o.a]->get<long>();
        A.result = "-";
        obs("m" + std::to_string(o.a), *p);
        delete p;
        break;
      }
      case 'I':
        if (last == 0)
          A.pc += o.a;
        break;
      case 'Y':
        intent("Y", "");
        sg4::this_actor::sleep_for(0.001);
        A.result = "-";
        break;
      case 'X':
        epilogue();
        A.done = true;
        intent("X", "");
        sg4::this_actor::exit();
        break;
      default:
        fprintf(stderr, "cm_app: unknown op %c\n", o.k);
        abort();
    }
  }
  epilogue();
  A.done = true;
}

static bool parse(const char* path)
{
  std::ifstream f(path);
  if (not f)
    return false;
  std::string line;
  while (std::getline(f, line)) {
    std::istringstream is(line);
    std::string w;
    if (not(is >> w) || w[0] == '#')
      continue;
    if (w == "mutex") {
      int n;
      is >> n;
      for (int i = 0; i < n; i++)
        mutexes.push_back(sg4::Mutex::create());
    } else if (w == "sem") {
      int c;
      while (is >> c)
        sems.push_back(sg4::Semaphore::create(c));
    } else if (w == "cond") {
      int n;
      is >> n;
      for (int i = 0; i < n; i++)
        conds.push_back(sg4::ConditionVariable::create());
    } else if (w == "barrier") {
      int c;
      while (is >> c)
        barriers.push_back(sg4::Barrier::create(c));
    } else if (w == "mbox") {
      int n;
      is >> n;
      for (int i = 0; i < n; i++)
        mboxes.push_back(sg4::Mailbox::by_name("x" + std::to_string(i)));
    } else if (w == "mq") {
      int n;
      is >> n;
      for (int i = 0; i < n; i++)
        mqs.push_back(sg4::MessageQueue::by_name("q" + std::to_string(i)));
    } else if (w == "skipids") {
      // shifts the ids of the objects created afterwards, so that ids of different kinds of objects differ
      int nm = 0, ns = 0, nc = 0, nb = 0, nx = 0;
      is >> nm >> ns >> nc >> nb >> nx;
      kv::MutexImpl::next_id_ += nm;
      kv::SemaphoreImpl::next_id_ += ns;
      kv::ConditionVariableImpl::next_id_ += nc;
      kv::BarrierImpl::next_id_ += nb;
      kv::MailboxImpl::next_id_ += nx;
    } else if (w == "tag") {
      is >> iprobe_tag;
    } else if (w == "actor" || w == "dyn") {
      ActorSpec a;
      a.dyn = w == "dyn";
      std::string t;
      while (is >> t) {
        Op o;
        o.k = t[0];
        if (t.size() > 1) {
          auto dot = t.find('.');
          o.a      = std::stoi(t.substr(1, dot == std::string::npos ? std::string::npos : dot - 1));
          if (dot != std::string::npos)
            o.b = std::stoi(t.substr(dot + 1));
        }
        a.ops.push_back(o);
      }
      spec.push_back(a);
    } else {
      fprintf(stderr, "cm_app: unknown spec line: %s\n", line.c_str());
      return false;
    }
  }
  return true;
}

int main(int argc, char** argv)
{
  sg4::Engine e(&argc, argv);
  setvbuf(stdout, nullptr, _IOLBF, 0);
  if (argc < 2) {
    fprintf(stderr, "usage: cm_app spec\n");
    return 2;
  }
  auto* z = e.get_netzone_root()->add_netzone_full("z");
  z->add_host("h", 1e9);
  z->seal();
  hosts = e.get_all_hosts();
  if (not parse(argv[1])) {
    fprintf(stderr, "cm_app: cannot parse %s\n", argv[1]);
    return 2;
  }
  st.resize(spec.size());
  if (const char* p = getenv("VERIF_CM_LOG"); p != nullptr && MC_is_active()) {
    log_fd = open(p, O_WRONLY | O_APPEND | O_CREAT, 0644);
    simgrid::verif::on_mc_executed  = hook_executed;
    simgrid::verif::on_mc_quiescent = hook_quiescent;
  }
  // what the application knows about its objects
  std::string ids = "O";
  for (size_t i = 0; i < mutexes.size(); i++)
    ids += " mutex" + S(i) + "=" + S(mutexes[i]->pimpl_->id_);
  for (size_t i = 0; i < sems.size(); i++)
    ids += " sem" + S(i) + "=" + S(sems[i]->pimpl_->id_);
  for (size_t i = 0; i < conds.size(); i++)
    ids += " cond" + S(i) + "=" + S(conds[i]->pimpl_->id_);
  for (size_t i = 0; i < barriers.size(); i++)
    ids += " bar" + S(i) + "=" + S(barriers[i]->pimpl_->id_);
  for (size_t i = 0; i < mboxes.size(); i++)
    ids += " mbox" + S(i) + "=" + S(mboxes[i]->get_impl()->id_);
  emit(ids + "\n");
  for (size_t i = 0; i < spec.size(); i++)
    if (not spec[i].dyn)
      start_actor((int)i);
  e.run();
  return 0;
}
